#!/usr/bin/env python3
"""tools/mkmutant.py <Cxx> <name> <file> <<< 'OLD\n=====\nNEW'  -> /verif/mutants/<Cxx>/<name>.diff (repo left clean)"""
import subprocess, sys, os
pid, name, file = sys.argv[1:4]
old, new = sys.stdin.read().split("\n=====\n")
new = new.rstrip("\n") if not old.endswith("\n") else new
path = os.path.join("/repo", file)
s = open(path).read()
assert s.count(old) >= 1, "old text not found in %s" % file
open(path, "w").write(s.replace(old, new, 1))
d = subprocess.run(["git", "-C", "/repo", "diff"], capture_output=True, text=True).stdout
os.makedirs("/verif/mutants/%s" % pid, exist_ok=True)
open("/verif/mutants/%s/%s.diff" % (pid, name), "w").write(d)
subprocess.run(["git", "-C", "/repo", "checkout", "--", "."])
print("wrote mutants/%s/%s.diff (%d lines)" % (pid, name, d.count("\n")))
