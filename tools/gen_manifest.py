#!/usr/bin/env python3
"""Regenerates /verif/MANIFEST.json from the table below (single source of truth)."""
import json
import os
import subprocess

HERE = os.path.dirname(os.path.dirname(os.path.abspath(__file__)))

# id -> (spec modules, technique, level text, level note, design ref)
CHECKS = {
    "C11": ("WebSocket.tla, TraceWebSocket.tla",
            "TLC exhaustive model check of WebSocket.tla; every edge of the dumped state graph replayed on the real "
            "class (spec->code); recorded executions (random sequences + the repository's websocket tests) validated "
            "by TLC against TraceWebSocket.tla (code->spec)",
            "All call sequences over the wrapper's operations within the bounds (scripts with <=2/3 frames, forwarded "
            "<=3/5) are enumerated by TLC, the invariants/action properties of C11 are checked on the model, and every "
            "transition is executed on the real WebSocket with the statement's clauses evaluated on what it did.",
            "Trusted: TLC, the harness driver (scripted receive/send), Python asserts enabled (no -O).",
            "DESIGN.md 5 C11"),
}

CHECKS["C17"] = ("MultiMap.tla, TraceMultiMap.tla",
    "TLC exhaustive model check of both internal representations and every mutator's algorithm (invariants Consistent, "
    "ViewsAgree, PostConditions); every (state, operation) edge replayed on the real MutableMultiMapping under several "
    "concretisations; random long sequences validated by TLC against TraceMultiMap.tla",
    "All operation sequences from every initial pair list within the bounds (2-3 keys x 2 values, lists <= 4-5) are "
    "covered edge by edge; after each real call the views are compared with the plain list-of-pairs meaning, and "
    "QueryParams/FormData/str round trips are checked on the same pairs.",
    "Trusted: TLC, the driver's abstraction function (multi_items / items / iteration order), urllib's parse_qsl/urlencode.",
    "DESIGN.md 5 C17")

CHECKS["C09"] = ("Mount.tla, Hosts.tla",
    "TLC exhaustive model check of a request walking a tree of mount tables (Preserved, Boundary, FirstMatch, "
    "NotFoundOnlyIfNone, DefaultEntry) and of the host table search (FirstFullMatch); every behaviour replayed on real "
    "nested Subpaths / Hosts on WSGI and ASGI",
    "Mount tables with prefixes that are prefixes of each other in every order, nesting depth 3, all paths over a symbol "
    "alphabet up to length 4/5, two initial roots; host tables of optional/literal token patterns x host values. The model "
    "gives the unique outcome the statement prescribes; any difference on the implementation is a violation.",
    "Trusted: TLC, environ/scope construction in harness/servers.py, ASCII concretisation of prefix symbols.",
    "DESIGN.md 5 C09")

CHECKS["C08"] = ("Routing.tla",
    "TLC model check of the statement's languages and split-existence matching at character level over (route table x "
    "path) cases (FirstMatching, SplitsSound); every behaviour replayed on real Routers on WSGI and ASGI; convertor "
    "round trips on every accepted parameter text",
    "22 route patterns (every convertor type, literal dots/dashes, adjacent placeholders, ambiguous splits) in all "
    "orders of 1-2 (thorough: 3) routes x all short paths over a 5-character alphabet plus a library of dates, uuids, "
    "newlines and unicode digits. Where several splits are valid the real parameters must be one of them.",
    "Trusted: TLC, servers.py, the reference conversion int/Decimal/UUID/date in the adapter.",
    "DESIGN.md 5 C08")

CHECKS["C03"] = ("Range.tla, RangeOps.tla, TraceRange.tla, RangeSym.tla (Apalache)",
    "TLC exhaustive model check of the parse_range pipeline (extract, satisfiability, order, sort, merge loop) against "
    "Classify / CanonicalOut / ExactUnion; every input rendered in 5 header syntaxes to the real parse_range; large "
    "random range sets validated by TLC against TraceRange.tla with their own numbers; arbitrary text for class/canonicity; "
    "the pre-repair mechanism (Fixed=FALSE) kept as a witness that must violate the invariants; Apalache decides CanonicalOut and "
    "ExactUnion on RangeSym.tla symbolically for all natural sizes and numbers (up to 3 specs)",
    "All sizes and range sets with up to 3 specs of every form over 0..3 (thorough 0..4) exhaustively; union equality by "
    "agreement on critical points, which also decides the recorded large-number cases.",
    "Trusted: TLC, header rendering in the adapter. Either 400 or 416 accepted when both apply.",
    "DESIGN.md 5 C03")

CHECKS["C02"] = ("FileResponse.tla, RangeOps.tla",
    "TLC exhaustive model check of Decide + per-interface emit loops (WSGI range loop, ASGI fake_sendfile counted/uncounted, "
    "zero-copy messages, multipart plan and the closed length formula) against StatusOK, LengthTruthful, BodyExact, "
    "MultipartShape, UnsatHeader, RangeHeader, LastOnlyFinal; every case executed on the real classes against real files",
    "All listed sizes (0, 1, multiples of the chunk and +-1, digit-count steps 9/10/11, thorough 99/100/101) x chunk sizes x "
    "three interfaces x GET/HEAD x single/pair/triple range sets x 9 If-Range kinds; 90 (thorough 680) random cases with real file "
    "sizes (999 .. 10^6, digit-count steps, exact multiples of 4 KiB / 64 KiB chunks, 0-4 specs); byte-exact body comparison (multipart "
    "body rebuilt with the response's own boundary), per-event sizes compared as mechanism (drift).",
    "Trusted: TLC, servers.py (plays the zero-copy server by reading (fd, offset, count) itself), canonical ranges from the "
    "C03-bound function. The file is not modified between construction and sending.",
    "DESIGN.md 5 C02")

CHECKS["C05"] = ("HttpProtocol.tla, TraceHttpProtocol.tla",
    "TLC model check of the ASGI/WSGI recognisers composed with an emitter and fault injection (LegalPrefix, LegalComplete); "
    "every (shape, fault) behaviour forced onto real responses; raw emissions of every execution (all response classes x "
    "request variants x interfaces x zero-copy x faults) validated event by event by TLC against TraceHttpProtocol.tla",
    "The recogniser is the property: a recorded sequence that TLC cannot consume, or that is incomplete after a normal "
    "return, is a violation. Faults: send() failing at every position, disconnect after every send, producer exception at "
    "every item, server close() after every item. Also: hostile header / cookie text given to constructors, file names that are not "
    "legal header text, every recipe as WebSocket denial response, and no exception without an injected fault.",
    "Trusted: TLC, harness/protocol.py (turns raw messages into typed event records), servers.py.",
    "DESIGN.md 5 C05")

CHECKS["C06"] = ("SseWsgi.tla, StreamWsgi.tla, SseAsgi.tla, TraceSseAsgi.tla, StreamAsgiTask.tla, TraceStreamAsgiTask.tla, StreamAsgi.tla, TraceStreamAsgi.tla",
    "WSGI: TLC exhaustive model check of relay thread / consumer generator / server over a one-slot queue (NoStuck, ClosedOnce, "
    "NoLeak, Delivered, RaisedIsReported; liveness Terminates under weak fairness); every transition forced onto the real "
    "threads by a cooperative scheduler, each schedule then completed fairly and judged; witness Fixed=FALSE must deadlock; pool exhaustion: "
    "liveness CloseReturns without fairness for the relay's start (witness CancelFirst=FALSE), schedules completed with the relay never granted. "
    "ASGI: TLC exhaustive model check of the three asyncio tasks of an event stream (main / relay / disconnect watcher, one-slot queue, "
    "cancellation delivery) at task level - SseAsgi.tla: invariants plus liveness Terminates and ReturnsAfterDisconnect under fairness, "
    "witness Drain=FALSE must leak the relay task; timing scenarios run under a virtual-time loop with the library's asyncio name proxied, "
    "every queue / task / timer / send event validated by TLC against TraceSseAsgi.tla (one logged event = one action) and the visible "
    "events against the timed automaton StreamAsgi.tla",
    "Every interleaving of producer, relay, consumer and close() at the grain of queue/future/yield operations for generators of "
    "0..2 (thorough 3) items with an exception at any item; ASGI: all item-delay / ping / disconnect-tick / exception-point / "
    "send-cost combinations in the bounds, with the return deadline, single cleanup, no pending task and in-order delivery "
    "checked per event; send() raising at its k-th call (start, any body, the final one) crossed with producer speed, producer "
    "failure and disconnect (SendFailureReported, NothingAfterFailure).",
    "Trusted: TLC, harness/sched.py (threads move only at its control points), harness/vloop.py, asyncio's FIFO ready queue. "
    "Task-level ASGI models: SseAsgi.tla (event streams, three tasks) and StreamAsgiTask.tla (plain streams, two tasks).",
    "DESIGN.md 5 C06")

CHECKS["C10"] = ("RequestBody.tla, TraceRequestBody.tla",
    "TLC exhaustive model check of user tasks and the shared body/json/form futures of cached_property under every "
    "interleaving (OnceOnly, BodyExact, CacheStable, ErrorsDocumented); the model's terminal states give, per scenario, the set "
    "of admissible outcome vectors; every scenario run on the real Request (ASGI under virtual time, all task orders x 4 message "
    "timings; WSGI sequentially) must produce one of them, plus value/identity clauses on what the accessors returned; WSGI: "
    "wsgi.input shorter / longer than CONTENT_LENGTH (a vanished client, a kept-alive connection); every ASGI execution's order of "
    "finished accesses and consumed-message counts validated by TLC against TraceRequestBody.tla (deliveries and the shared "
    "computations are silent steps)",
    "All access programs up to length 2 (selected 3) for one task, pairs (thorough: triples) of concurrent tasks, 1-2 chunks, a "
    "disconnect at every position, three content types. The model over-approximates asyncio's FIFO scheduling, so a real outcome "
    "outside the admissible set is a violation.",
    "Trusted: TLC, harness/vloop.py. Outcome-level refinement: intermediate states of the real object are not compared.",
    "DESIGN.md 5 C10")

CHECKS["C01"] = ("Multipart.tla, TraceMultipart.tla",
    "TLC exhaustive model check of the decoder state machine (its three regular expressions transcribed on symbol sequences, "
    "the hold-back rule) and the helpers' event loop over every chunking of every encoded form (PrefixOK, Exact); every edge of "
    "the state graph executed once on a real MultipartDecoder by DFS with snapshots; every form decoded by parse_stream, "
    "parse_async_stream, wsgi/asgi Request.form under byte-level chunkings; recorded sessions of real decoders on kilobyte bodies "
    "(and the decoder sessions of the repository's own tests) validated event by event by TLC against TraceMultipart.tla with the "
    "module's invariants evaluated on every trace state",
    "Forms with 0-2 parts, field and file, all contents up to 3 symbols over {CR, LF, '-', boundary char, other} that do not "
    "contain the delimiter, optional preamble, all chunkings with chunks of 0..3 (thorough 4) symbols; four boundary "
    "concretisations incl. regex metacharacters and 70 characters; cuts inside header text at helper level.",
    "Trusted: TLC, the symbol->byte concretisation, Python's re for these three patterns (drift would show a mismatch).",
    "DESIGN.md 5 C01")
CHECKS["C15"] = ("Multipart.tla, TraceMultipart.tla",
    "TLC exhaustive model check with the limit grid (LimitExact, NoEarly413, BoundedHold over every chunking); witness "
    "HoldFix=FALSE and witness OpenFix=FALSE must violate BoundedHold; recorded decoder sessions with 3-12 KB parts validated by TLC "
    "with the hold-back bound as invariant on every trace state; every (form, limits) scenario run on both helpers under byte-level chunkings; "
    "buffering measured on the real decoder and helpers with megabyte parts after a leading CR/LF",
    "Limits at the exact totals -1/0/+1 for parts and field bytes, sync = async, 324/325 parts on the form accessors; the "
    "buffering bound chunk + delimiter + constant is checked in the model for contents longer than the bound and on the "
    "implementation with 1-4 MiB parts.",
    "Trusted: TLC; the sink-lag measurement in the adapter. Header blocks are outside the buffering bound.",
    "DESIGN.md 5 C15")

CHECKS["C07"] = ("StaticFiles.tla",
    "TLC exhaustive model check of lexical resolution, confinement, the Files/Pages answer rules and the follow-up of a Pages "
    "redirect (Confined, ExactFile, Complete, RedirectThenIndex, NoRedirectLoop) for every request path over the segment "
    "alphabet; every behaviour replayed on Files and Pages, WSGI and ASGI, against a real tree with secrets above and beside "
    "the root, with an audit hook on open()",
    "All paths of up to 3 (thorough 4) segments over {'', '.', '..', file, dir, '..name', '%2e%2e', index.html, x.html, x, y, "
    "sibling and secret names}; directory given absolute, cwd-relative and package-relative. The model is the unique answer the "
    "statement prescribes (a trailing slash after a regular file may answer 404 or the file).",
    "Trusted: TLC, servers.py, the audit hook (open / os.open events). POSIX only; no symlinks inside the tree.",
    "DESIGN.md 5 C07")

CHECKS["C14"] = ("Conditional.tla, TraceConditional.tla",
    "TLC exhaustive model check of file modifications and conditional requests on a virtual sub-second clock (NoStale, "
    "FreshAfterChange, EtagRevalidates, StarMatches, DateRevalidates over all histories); every edge replayed by DFS on the real "
    "Files/Pages apps with os.stat virtualised inside baize.staticfiles; trace validation by TLC of long recorded histories "
    "(TraceConditional.tla: the module's invariants evaluated on the observed responses, then the decision rule itself)",
    "All histories of up to 5 (thorough 6) actions over {tick, rewrite same size, rewrite other size, touch, restore with an older "
    "mtime, chmod, plain request, conditional request with validators of response j in 12 syntactic forms}; status, body, ETag and "
    "Last-Modified of every response compared. 60 (thorough 400) random histories of 70 (150) steps on a clock with 3 ticks per "
    "second, sizes 3-9, validators of any earlier response.",
    "Trusted: TLC, the os.stat proxy. A date-only request is not required to detect a change within the same second.",
    "DESIGN.md 5 C14")

CHECKS["C13"] = ("HeaderMap.tla, TraceHeaderMap.tla, Cookie.tla",
    "TLC exhaustive model check of the response header mapping (every mutating operation in terms of the checked __setitem__: "
    "MutationsClean, RejectAtMutation, LowerKeys) with every edge replayed on a real MutableHeaders and every store emitted on "
    "both interfaces; trace validation by TLC of long recorded operation sequences (TraceHeaderMap.tla, invariants on); class-level "
    "cookie quoting rule (OnePair) in Cookie.tla; the classes are bound to real characters by exhaustive per-character checks",
    "All operation sequences of length <= 2 (thorough 3) over names/values with CR, LF, NUL, non-ASCII; 150 (thorough 600) random "
    "sequences of 60 (100) operations over 9 names x 9 values; constructor paths; all 256 characters in "
    "header names/values through item assignment, append (new and existing key), update, setdefault; cookie name/value over all "
    "256 characters alone and beside 8 delimiters; redirect targets over the BMP sample (thorough: all of Unicode).",
    "Trusted: TLC; the codec part is decided by enumeration on the implementation, the model contributes the class structure. "
    "A header given to a constructor may be refused there or at emission; it must not reach a header line.",
    "DESIGN.md 5 C13")
CHECKS["C16"] = ("Cookie.tla",
    "TLC model check of quoting, request-side unquoting and expiry arithmetic on character classes x zones (OnePair, RoundTrip, "
    "ExpiresDenotes); every class string concretised through the real set_cookie -> Set-Cookie -> Cookie -> Request.cookies on "
    "both interfaces in four layouts; all 256 characters alone and beside 7 delimiters; Expires/Max-Age/delete under several "
    "process time zones (incl. a DST zone) with the clock pinned",
    "Values of up to 3 (thorough 4) characters over 6 classes; 5 fixed-offset zones + US DST rules x 3 instants x 4 deltas.",
    "Trusted: TLC, the C library's handling of POSIX TZ strings, email.utils date parsing in the adapter.",
    "DESIGN.md 5 C16")

CHECKS["C19"] = ("SseWire.tla, TraceSseWire.tla",
    "TLC model check of the encoder (build_bytes_from_sse, splitter as a parameter) and the WHATWG client as transducers over "
    "character classes (RoundTrip, PingIgnored) for every single event and for event sequences with interleaved pings; witness "
    "Splitter=py (str.splitlines) must violate RoundTrip; every state concretised through the real build_bytes_from_sse / "
    "SendEventResponse on both interfaces and decoded by a Python parser that is itself compared with the model's Parse; trace "
    "validation by TLC of long event sequences (TraceSseWire.tla: the module's client reads the observed bytes after every chunk)",
    "Data up to 3 characters over {LF, CR, other separator, colon, space, other} x any subset of event/id/retry (thorough also 4 characters with one-class names); "
    "sequences of 2 (3) events with a ping anywhere; 80 (thorough 600) sequences of 5-12 events with fields up to 6 characters, "
    "real pings in the pauses (ASGI, virtual time), four charsets; every code point (sampled in quick, all of Unicode in thorough) as data.",
    "Trusted: TLC; codec property: the model contributes the class structure and the client automaton, the per-character step "
    "is enumeration on the implementation.",
    "DESIGN.md 5 C19")

CHECKS["C18"] = ("Url.tla, TraceUrl.tla",
    "TLC model check of URL construction from (scheme, server, Host header, root, path, query) and of replace() on URL records "
    "(Built, ReplacedExactly); every behaviour replayed on the real URL class: environ and scope construction, wsgi/asgi "
    "Request.url, replace(), repr(); query helpers checked as set/replace/remove on the multi-value query; trace validation by TLC "
    "of chains of replace() calls (TraceUrl.tla: TReplaced on every observed result, then Replace() itself)",
    "Schemes x named/IPv4/IPv6 hosts x default and other ports x Host header forms x roots x paths (non-ASCII) x queries; every "
    "URL with a host x every set of 1-2 (thorough 3) components to replace x new values incl. removing user/password/port; 300 "
    "(thorough 1500) chains of 25 (40) replace() calls of 1-3 components, each result the input of the next.",
    "Trusted: TLC, urllib.parse.urlsplit as the reader of the resulting URL, the token concretisation in the adapter.",
    "DESIGN.md 5 C18")

CHECKS["C20"] = ("Middleware.tla",
    "TLC model check of an abstract response travelling through a stack of capturing layers (Transparent, OnlyThatHeader, "
    "InnerOnce); witness FoldAll=TRUE (Set-Cookie folded) must violate Transparent; every (recipe, stack) behaviour executed on "
    "real middleware stacks on both interfaces with raw inner apps (list / iterator bodies, several body messages); every "
    "response recipe (all response classes, streams, files with and without zero-copy, cookies) compared bare vs wrapped; "
    "view decorator likewise",
    "Stacks of 0..2 (thorough 3) layers over {identity, edit one header} x abstract responses with 0-3 chunks, several "
    "Set-Cookie lines, unknown status codes; one known finding (repeated non-cookie header lines are folded) is listed in "
    "known_findings.json.",
    "Trusted: TLC, servers.py. Finite inner responses only (the ASGI capture buffers the inner response).",
    "DESIGN.md 5 C20")

CHECKS["C04"] = ("Http.tla",
    "TLC enumerates the abstract request space of Http.tla with its view rules (ChunkingIrrelevant, NamesLower, "
    "NoDuplicateNames); differential replay: every request through a view on both stacks (three chunkings) compared with each "
    "other and with the model's view; every response recipe and bundled application (router, mounts, hosts, static files, "
    "pages, shortcuts) x requests compared for status, header multiset and body",
    "Methods x paths (non-ASCII, percent sequences, empty) x queries x header lists (mixed case, repeated, cookies, content "
    "types, bad numbers/dates) x bodies (JSON, urlencoded, multipart with a file, junk); 32 response recipes x 8 request variants; "
    "4 application recipes. Reduced strength: the model contributes the product space and an independent referee for the view, "
    "not state-space insight. Two known findings (non-ASCII path text on WSGI) are listed.",
    "Trusted: TLC, harness/servers.py (its environ/scope construction defines 'the same abstract request').",
    "DESIGN.md 5 C04, 7")

CHECKS["C12"] = ("Robust.tla",
    "TLC enumerates (input channel, fragment sequence, entry point) of Robust.tla and fixes the class-level oracle "
    "OutcomeAllowed; every enumerated case concretised and given to the real accessor / application on both interfaces, "
    "the escaping exception type and raising frame classified; random Latin-1 noise and bit-flipped / truncated bodies sampled "
    "with the same oracle; cross-channel enumeration path x Host through the applications that build URLs from both; every codec "
    "name Python knows as declared charset; every component (and repr) of the URLs the accessors return is read",
    "14 channels (path, query, Host, Cookie, Accept, Content-Type, Content-Length, Date, Referer, Range, If-Range, "
    "If-None-Match, If-Modified-Since, body) x fragment sequences of length <= 2 (thorough 3) x entry points. Reduced strength: "
    "enumeration and a class-level oracle, no state-space insight; 'all bytes a client can send' is sampled, not decided.",
    "Trusted: TLC, servers.py; header text is Latin-1; server-controlled parts of environ/scope are well-formed.",
    "DESIGN.md 5 C12, 7")

NOT_YET = {}

ALL = ["C%02d" % i for i in range(1, 21)]


def main():
    checks = []
    for pid in ALL:
        if pid not in CHECKS:
            continue
        mods, tech, text, note, ref = CHECKS[pid]
        checks.append({
            "property_id": pid,
            "quick_cmd": "./check %s --tier quick" % pid,
            "thorough_cmd": "./check %s --tier thorough" % pid,
            "evidence_file": "/verif/evidence/%s.json" % pid,
            "replay_cmd_template": "./check %s --replay {path}" % pid,
            "engine": "tlc",
            "level_claimed": {"category": "model_checking", "text": text, "design_ref": ref},
            "level_note": note,
            "technique": "explicit TLA+ spec (%s): %s" % (mods, tech),
        })
    na = [{"property_id": pid, "reason": NOT_YET.get(pid, "check under construction in this revision: the TLA+ module and its binding are not committed yet (see DESIGN.md, Appendix D build order)")}
          for pid in ALL if pid not in CHECKS]
    try:
        hooks = subprocess.run(["git", "-C", "/repo", "log", "--format=%H %s", "--grep=^hook:"], capture_output=True,
                               text=True).stdout.split("\n")
        hook_commits = [h.split()[0] for h in hooks if h.strip()]
    except Exception:
        hook_commits = []
    m = {
        "version": 1,
        "setup_cmd": "cd /verif && /venv/bin/python -m harness.selfcheck",
        "hooks": {
            "guard": "BAIZE_VERIF",
            "enable": "checks set BAIZE_VERIF=1 and import baize from /repo's working tree (pure Python, nothing to build)",
            "baseline_off_cmd": "cd /repo && env -u BAIZE_VERIF /venv/bin/python -m pytest -ra -q -p no:cacheprovider --timeout=900 --continue-on-collection-errors",
            "source_commits": hook_commits,
            "add_only": True,
        },
        "engines": [
            {"name": "tlc", "path": "/opt/veriftools/tla/tla2tools.jar", "serves_properties": [c["property_id"] for c in checks],
             "kind_free_text": "TLC 1.8 explicit-state model checker: exhaustive check of spec/*.tla, state-graph dump for replay, batched trace validation"},
            {"name": "apalache", "path": "/opt/veriftools/apalache", "serves_properties": ["C03"],
             "kind_free_text": "symbolic bounded model checker, used for the range-merge invariant over unbounded naturals"},
        ],
        "checks": checks,
        "not_applicable": na,
        "notes": "One TLA+ module per mechanism under /verif/spec; harness/adapters/<id>.py binds each to the code "
                 "(graph replay and trace validation). Exit 0 held / 1 VIOLATION / 2 machinery failure.",
    }
    with open(os.path.join(HERE, "MANIFEST.json"), "w") as f:
        json.dump(m, f, indent=1)
    print("MANIFEST.json: %d checks, %d not applicable" % (len(checks), len(na)))


if __name__ == "__main__":
    main()
