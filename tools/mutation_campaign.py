#!/usr/bin/env python3
"""Automated mutation campaign: small syntactic mutants of baize, filtered by the repository's offline baseline tests, run against
the quick checks of the properties that cover the mutated file - in scratch worktrees (VERIF_REPO), several at a time.

usage: tools/mutation_campaign.py <n_mutants> [--workers 6] [--seed 1] [--out /verif/mutation/campaign.jsonl] [--files a.py,b.py]

For every sampled mutant: does it still import, does the 77-test baseline still pass (only those count), which checks exit 1.
Survivors (baseline passes, no check exits 1) are what to look at: equivalent mutants, behaviour outside the listed properties,
or a gap in a check."""
import argparse
import ast
import json
import os
import random
import shutil
import subprocess
import sys
import threading
import time

REPO = "/repo"
BASE = "/tmp/mutcamp"
SNAP = BASE + "/verif"
CHECKS = {
    "baize/multipart.py": ["C01", "C15", "C04", "C12"],
    "baize/multipart_helper.py": ["C15", "C01", "C04"],
    "baize/responses.py": ["C03", "C05", "C16", "C13", "C02", "C19", "C14"],
    "baize/wsgi/responses.py": ["C05", "C02", "C19", "C06", "C04"],
    "baize/asgi/responses.py": ["C05", "C02", "C19", "C06", "C04"],
    "baize/datastructures.py": ["C13", "C16", "C12", "C05", "C17", "C18", "C04", "C20"],
    "baize/requests.py": ["C12", "C16", "C04"],
    "baize/wsgi/requests.py": ["C10", "C12", "C04", "C18"],
    "baize/asgi/requests.py": ["C10", "C12", "C04", "C18"],
    "baize/routing.py": ["C08", "C09", "C04"],
    "baize/wsgi/routing.py": ["C09", "C08", "C07", "C04"],
    "baize/asgi/routing.py": ["C09", "C08", "C04"],
    "baize/staticfiles.py": ["C07", "C14", "C12"],
    "baize/wsgi/staticfiles.py": ["C07", "C14", "C12"],
    "baize/asgi/staticfiles.py": ["C07", "C14", "C12"],
    "baize/wsgi/middleware.py": ["C20"],
    "baize/asgi/middleware.py": ["C20"],
    "baize/asgi/websocket.py": ["C11", "C05"],
    "baize/utils.py": ["C12", "C10", "C16"],
}
CMP = {ast.Lt: "<=", ast.LtE: "<", ast.Gt: ">=", ast.GtE: ">", ast.Eq: "!=", ast.NotEq: "==", ast.In: "not in", ast.NotIn: "in",
       ast.Is: "is not", ast.IsNot: "is"}


def offsets(src):
    lines = src.splitlines(keepends=True)
    starts = [0]
    for l in lines:
        starts.append(starts[-1] + len(l))
    return lambda line, col: starts[line - 1] + len(lines[line - 1].encode("utf-8")[:col].decode("utf-8", "ignore"))


def candidates(src):
    """list of (line, description, start, end, replacement) edits, each yielding a syntactically valid file"""
    tree = ast.parse(src)
    off = offsets(src)
    out = []
    doc_lines = set()
    for node in ast.walk(tree):
        if isinstance(node, (ast.FunctionDef, ast.AsyncFunctionDef, ast.ClassDef, ast.Module)) and node.body and \
                isinstance(node.body[0], ast.Expr) and isinstance(getattr(node.body[0], "value", None), ast.Constant) and isinstance(node.body[0].value.value, str):
            d = node.body[0]
            doc_lines.update(range(d.lineno, d.end_lineno + 1))
    for node in ast.walk(tree):
        ln = getattr(node, "lineno", None)
        if ln is None or ln in doc_lines:
            continue
        if isinstance(node, ast.Compare) and len(node.ops) == 1 and type(node.ops[0]) in CMP:
            a, b = off(node.left.end_lineno, node.left.end_col_offset), off(node.comparators[0].lineno, node.comparators[0].col_offset)
            out.append((ln, "comparison %s -> %s" % (src[a:b].strip(), CMP[type(node.ops[0])]), a, b, " %s " % CMP[type(node.ops[0])]))
        elif isinstance(node, ast.BoolOp) and len(node.values) >= 2:
            a, b = off(node.values[0].end_lineno, node.values[0].end_col_offset), off(node.values[1].lineno, node.values[1].col_offset)
            seg = src[a:b]
            new = seg.replace("and", "or", 1) if isinstance(node.op, ast.And) else seg.replace("or", "and", 1)
            if new != seg:
                out.append((ln, "%s -> %s" % ("and" if isinstance(node.op, ast.And) else "or", "or" if isinstance(node.op, ast.And) else "and"), a, b, new))
        elif isinstance(node, ast.BinOp) and isinstance(node.op, (ast.Add, ast.Sub)) and not isinstance(node.left, ast.Constant) or \
                (isinstance(node, ast.BinOp) and isinstance(node.op, (ast.Add, ast.Sub)) and isinstance(node.right, ast.Constant) and isinstance(node.right.value, int)):
            if isinstance(node.right, ast.Constant) and isinstance(node.right.value, int):
                a, b = off(node.left.end_lineno, node.left.end_col_offset), off(node.right.lineno, node.right.col_offset)
                seg = src[a:b]
                new = seg.replace("+", "-", 1) if isinstance(node.op, ast.Add) else seg.replace("-", "+", 1)
                if new != seg:
                    out.append((ln, "arithmetic %s%d flipped" % ("+" if isinstance(node.op, ast.Add) else "-", node.right.value), a, b, new))
                a2, b2 = off(node.lineno, node.col_offset), off(node.end_lineno, node.end_col_offset)
                out.append((ln, "dropped %s %d" % ("+" if isinstance(node.op, ast.Add) else "-", node.right.value), a2, b2,
                            src[a2:off(node.left.end_lineno, node.left.end_col_offset)]))
        elif isinstance(node, ast.Constant) and isinstance(node.value, bool):
            a, b = off(node.lineno, node.col_offset), off(node.end_lineno, node.end_col_offset)
            out.append((ln, "%s -> %s" % (node.value, not node.value), a, b, str(not node.value)))
        elif isinstance(node, ast.Constant) and type(node.value) is int and 0 <= node.value <= 16:
            a, b = off(node.lineno, node.col_offset), off(node.end_lineno, node.end_col_offset)
            if src[a:b].isdigit():
                out.append((ln, "constant %d -> %d" % (node.value, node.value + 1), a, b, str(node.value + 1)))
        elif isinstance(node, ast.UnaryOp) and isinstance(node.op, ast.Not):
            a, b = off(node.lineno, node.col_offset), off(node.end_lineno, node.end_col_offset)
            inner = src[off(node.operand.lineno, node.operand.col_offset):off(node.operand.end_lineno, node.operand.end_col_offset)]
            out.append((ln, "not removed", a, b, "(%s)" % inner))
        elif isinstance(node, (ast.If, ast.While)) and not isinstance(node.test, ast.Constant):
            a, b = off(node.test.lineno, node.test.col_offset), off(node.test.end_lineno, node.test.end_col_offset)
            out.append((ln, "condition negated", a, b, "not (%s)" % src[a:b]))
        elif isinstance(node, (ast.Assign, ast.AugAssign, ast.Expr)) and not (isinstance(node, ast.Expr) and isinstance(node.value, ast.Constant)) \
                and node.lineno == node.end_lineno and not isinstance(getattr(node, "value", None), (ast.Yield, ast.YieldFrom, ast.Await)):
            if isinstance(node, ast.Assign) and any(isinstance(t, ast.Name) for t in node.targets):
                continue        # deleting a binding mostly gives NameError: noise
            a, b = off(node.lineno, node.col_offset), off(node.end_lineno, node.end_col_offset)
            out.append((ln, "statement deleted: %s" % src[a:b][:60], a, b, "pass"))
        elif isinstance(node, ast.Call) and isinstance(node.func, ast.Attribute) and node.func.attr in SWAPS:
            f = node.func
            b = off(f.end_lineno, f.end_col_offset)
            a = b - len(f.attr)
            out.append((ln, "%s -> %s" % (f.attr, SWAPS[f.attr]), a, b, SWAPS[f.attr]))
        elif isinstance(node, ast.Call) and isinstance(node.func, ast.Name) and node.func.id in ("min", "max"):
            a, b = off(node.func.lineno, node.func.col_offset), off(node.func.end_lineno, node.func.end_col_offset)
            out.append((ln, "%s -> %s" % (node.func.id, "max" if node.func.id == "min" else "min"), a, b, "max" if node.func.id == "min" else "min"))
    return out


SOURCES = {}
SWAPS = {"startswith": "endswith", "endswith": "startswith", "rpartition": "partition", "partition": "rpartition", "lower": "upper", "rsplit": "split",
         "lstrip": "rstrip", "rstrip": "lstrip", "append": "insert_FAIL", "rindex": "index", "rfind": "find", "find": "rfind", "extend": "append_FAIL"}
SWAPS = {k: v for k, v in SWAPS.items() if not v.endswith("_FAIL")}


def run(cmd, env=None, timeout=1800, cwd=None):
    # own process group, so that a time-out takes the whole tree (shell, python, TLC) with it
    p = subprocess.Popen(cmd, shell=True, stdout=subprocess.PIPE, stderr=subprocess.STDOUT, text=True, env=env, cwd=cwd, start_new_session=True)
    try:
        out, _ = p.communicate(timeout=timeout)
        return p.returncode, out
    except subprocess.TimeoutExpired:
        import signal
        try:
            os.killpg(p.pid, signal.SIGKILL)
        except OSError:
            pass
        p.wait()
        return 124, "timeout"


def worker(wid, queue, results, lock, out_path):
    wt = "%s/w%d" % (BASE, wid)
    while True:
        with lock:
            if not queue:
                return
            m = queue.pop()
        path = os.path.join(wt, m["file"])
        orig = SOURCES[m["file"]]
        with open(path, "w") as f:
            f.write(orig[:m["start"]] + m["new"] + orig[m["end"]:])
        rec = dict(id=m["id"], file=m["file"], line=m["line"], what=m["what"], imports=False, baseline=None, checks={}, detected_by=None)
        env = dict(os.environ, PYTHONPATH=wt, PYTHONDONTWRITEBYTECODE="1")
        rc, _ = run("/venv/bin/python -c 'import baize.wsgi, baize.asgi, baize.multipart_helper'", env=env, timeout=60)
        rec["imports"] = rc == 0
        if rc == 0:
            rc, out = run("/verif/tools/run_baseline.sh %s" % wt, timeout=900)
            rec["baseline"] = out.strip().startswith("PASS")
            if rec["baseline"]:
                for pid in CHECKS[m["file"]]:
                    t0 = time.time()
                    rc, out = run("cd %s && VERIF_REPO=%s ./check %s --tier quick" % (SNAP, wt, pid), timeout=1500)
                    drift = [l for l in out.splitlines() if l.startswith(("PASS", "FAIL"))]
                    rec["checks"][pid] = {"rc": rc, "wall": round(time.time() - t0, 1), "line": drift[-1][:160] if drift else out[-200:]}
                    if rc == 1:
                        rec["detected_by"] = pid
                        what = [l.strip() for l in out.splitlines() if l.strip().startswith("what:")]
                        rec["detected_as"] = what[0][6:150] if what else ""
                        break
        with open(path, "w") as f:
            f.write(orig)
        with lock:
            results.append(rec)
            with open(out_path, "a") as f:
                f.write(json.dumps(rec) + "\n")
            tag = "not-importable" if not rec["imports"] else "killed-by-tests" if not rec["baseline"] else \
                ("DETECTED " + rec["detected_by"]) if rec["detected_by"] else "SURVIVED"
            print("[%d] %s:%d %s -> %s" % (rec["id"], rec["file"], rec["line"], rec["what"][:70], tag), flush=True)


def main():
    ap = argparse.ArgumentParser()
    ap.add_argument("n", type=int)
    ap.add_argument("--workers", type=int, default=6)
    ap.add_argument("--seed", type=int, default=1)
    ap.add_argument("--out", default="/verif/mutation/campaign.jsonl")
    ap.add_argument("--files", default="")
    ap.add_argument("--retest", default="", help="a campaign file: run its survivors again (results go to --out)")
    a = ap.parse_args()
    rnd = random.Random(a.seed)
    files = [f for f in CHECKS if not a.files or f in a.files.split(",")]
    allm = []
    for f in files:
        src = subprocess.run(["git", "-C", REPO, "show", "HEAD:" + f], capture_output=True, text=True, check=True).stdout   # (the working tree may hold a seed)
        SOURCES[f] = src
        for ln, what, s, e, new in candidates(src):
            mutated = src[:s] + new + src[e:]
            try:
                ast.parse(mutated)
            except SyntaxError:
                continue
            allm.append(dict(file=f, line=ln, what=what, start=s, end=e, new=new))
    rnd.shuffle(allm)
    done = set()
    if os.path.exists(a.out):
        for l in open(a.out):
            r = json.loads(l)
            done.add((r["file"], r["line"], r["what"]))
    todo = [m for m in allm if (m["file"], m["line"], m["what"]) not in done][:a.n]
    if a.retest:
        surv = set()
        for l in open(a.retest):
            r = json.loads(l)
            if r["baseline"] and not r["detected_by"]:
                surv.add((r["file"], r["line"], r["what"]))
        todo = [m for m in allm if (m["file"], m["line"], m["what"]) in surv and (m["file"], m["line"], m["what"]) not in done][:a.n]
    for i, m in enumerate(todo):
        m["id"] = len(done) + i + 1
    print("%d candidate mutants in %d files, %d already done, running %d with %d workers" % (len(allm), len(files), len(done), len(todo), a.workers), flush=True)
    os.makedirs(os.path.dirname(a.out), exist_ok=True)
    os.makedirs(BASE, exist_ok=True)
    # the checks run from a snapshot of /verif, so that work on /verif during a campaign cannot disturb it
    subprocess.run(["rsync", "-a", "--delete", "--exclude", ".git", "--exclude", "seeded", "--exclude", "evidence", "--exclude", "mutation",
                    "/verif/", SNAP + "/"], check=True)
    for w in range(a.workers):
        wt = "%s/w%d" % (BASE, w)
        if not os.path.isdir(wt):
            subprocess.run(["git", "-C", REPO, "worktree", "add", "-q", "--detach", wt, "HEAD"], check=True)
        else:       # left over from an interrupted campaign: back to HEAD
            subprocess.run(["git", "-C", wt, "checkout", "-q", "--detach", subprocess.run(["git", "-C", REPO, "rev-parse", "HEAD"], capture_output=True, text=True).stdout.strip()])
            subprocess.run(["git", "-C", wt, "checkout", "-q", "--", "."], check=True)
    queue, results, lock = list(reversed(todo)), [], threading.Lock()
    ts = [threading.Thread(target=worker, args=(w, queue, results, lock, a.out)) for w in range(a.workers)]
    for t in ts:
        t.start()
    for t in ts:
        t.join()
    for w in range(a.workers):
        subprocess.run(["git", "-C", REPO, "worktree", "remove", "--force", "%s/w%d" % (BASE, w)])
    shutil.rmtree(BASE, True)
    live = [r for r in results if r["baseline"]]
    print("ran %d: %d not importable, %d killed by the baseline tests, %d detected by a check, %d survived" % (
        len(results), sum(1 for r in results if not r["imports"]), sum(1 for r in results if r["imports"] and not r["baseline"]),
        sum(1 for r in live if r["detected_by"]), sum(1 for r in live if not r["detected_by"])))


if __name__ == "__main__":
    main()
