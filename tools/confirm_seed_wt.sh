#!/bin/sh
# usage: tools/confirm_seed_wt.sh <seed_dir with patch.diff demo.py meta.json> <Cxx> <name> <clean scratch worktree of /repo>
# like confirm_seed.sh, but /repo is never touched: the seeded change is applied in the given scratch worktree and the property's quick
# check runs against that tree (VERIF_REPO); several of these can run side by side on different worktrees
sd=$(realpath "$1"); id=$2; name=$3; wt=$(realpath "$4")
git -C $wt checkout -q -- . || exit 3
PYTHONPATH=$wt /venv/bin/python $sd/demo.py >/dev/null 2>&1; before=$?
git -C $wt apply $sd/patch.diff || { echo "PATCH DOES NOT APPLY"; exit 3; }
PYTHONPATH=$wt /venv/bin/python $sd/demo.py >/dev/null 2>&1; after=$?
base=$(/verif/tools/run_baseline.sh $wt)
cd /verif
out=$(VERIF_REPO=$wt ./check $id --tier quick 2>&1); rc=$?
git -C $wt checkout -q -- .
how=$(echo "$out" | grep -m1 "what:" | cut -c9-220)
mkdir -p seeded/$name
cp $sd/patch.diff $sd/demo.py seeded/$name/
/venv/bin/python - "$sd/meta.json" "seeded/$name/meta.json" "$id" "$before" "$after" "$base" "$rc" "$how" <<'PY'
import json, sys
src, dst, pid, before, after, base, rc, how = sys.argv[1:]
try:
    m = json.load(open(src))
except Exception:
    m = {}
m["property"] = pid
m["confirmed"] = {"demo_exit_unpatched": int(before), "demo_exit_patched": int(after), "baseline": base,
                  "commands": ["PYTHONPATH=<scratch worktree> /venv/bin/python demo.py (before/after git apply patch.diff)",
                               "pytest baseline (77 offline tests) in the scratch worktree",
                               "VERIF_REPO=<scratch worktree with patch.diff applied> ./check %s --tier quick" % pid]}
m["check_exit"] = int(rc)
m["detected"] = int(rc) == 1
if how:
    m["detected_as"] = how
json.dump(m, open(dst, "w"), indent=1)
PY
echo "== $name: demo before=$before after=$after baseline: $base | check exit $rc | $how"
