#!/usr/bin/env python3
"""Re-run every seeded change under /verif/seeded against its property's quick check and refresh meta.json ("detected",
"check_exit", "detected_as").  /repo is not touched: each change is applied in one of N scratch worktrees of /repo's HEAD
(created under /tmp/rerun_wt, removed at the end) and the check runs against that tree (VERIF_REPO).
usage: tools/rerun_seeds.py [name-prefix | Cxx] [--workers 6]"""
import glob, json, os, subprocess, sys, threading
argv = sys.argv[1:]
workers = 6
if "--workers" in argv:
    i = argv.index("--workers")
    workers = int(argv[i + 1])
    del argv[i:i + 2]
pref = argv[0] if argv else ""
BASE = "/tmp/rerun_wt"
todo = []
for d in sorted(glob.glob("/verif/seeded/*/")):
    name = os.path.basename(d.rstrip("/"))
    m = json.load(open(d + "meta.json"))
    if name.startswith(pref) or m["property"] == pref:
        todo.append((name, d, m))
rows, lock = [], threading.Lock()


def work(w):
    wt = "%s/s%d" % (BASE, w)
    subprocess.run(["git", "-C", "/repo", "worktree", "add", "-q", "--detach", wt, "HEAD"], check=True)
    try:
        while True:
            with lock:
                if not todo:
                    return
                name, d, m = todo.pop(0)
            pid = m["property"]
            subprocess.run(["git", "-C", wt, "checkout", "-q", "--", "."])
            a = subprocess.run(["git", "-C", wt, "apply", d + "patch.diff"], capture_output=True, text=True)
            if a.returncode:
                rc, out = 3, "PATCH DOES NOT APPLY: " + a.stderr[:200]
            else:
                p = subprocess.run("cd /verif && VERIF_REPO=%s ./check %s --tier quick" % (wt, pid), shell=True, capture_output=True, text=True)
                rc, out = p.returncode, p.stdout
            what = [l.strip() for l in out.splitlines() if l.strip().startswith("what:")][:1]
            m["check_exit"], m["detected"] = rc, rc == 1
            m["detected_as"] = what[0][6:] if what else None
            json.dump(m, open(d + "meta.json", "w"), indent=1)
            with lock:
                rows.append((name, pid, rc))
                print("%-44s %s exit=%d %s" % (name, pid, rc, (m["detected_as"] or out[-100:] if rc != 1 else m["detected_as"] or "")[:90]), flush=True)
    finally:
        subprocess.run(["git", "-C", "/repo", "worktree", "remove", "--force", wt])


os.makedirs(BASE, exist_ok=True)
ts = [threading.Thread(target=work, args=(i,)) for i in range(workers)]
[t.start() for t in ts]
[t.join() for t in ts]
try:
    os.rmdir(BASE)
except OSError:
    pass
print("%d/%d detected" % (sum(1 for r in rows if r[2] == 1), len(rows)))
