#!/usr/bin/env python3
"""Re-run every seeded change under /verif/seeded against its property's quick check (applied to /repo and reverted)
and refresh meta.json ("detected", "check_exit").  usage: tools/rerun_seeds.py [name-prefix | Cxx]"""
import glob, json, os, subprocess, sys
pref = sys.argv[1] if len(sys.argv) > 1 else ""
rows = []
for d in sorted(glob.glob("/verif/seeded/*/")):
    name = os.path.basename(d.rstrip("/"))
    m = json.load(open(d + "meta.json"))
    pid = m["property"]
    if not (name.startswith(pref) or pid == pref):
        continue
    p = subprocess.run(["/verif/tools/try_patch.sh", d + "patch.diff", pid], capture_output=True, text=True)
    rc = p.returncode
    what = [l.strip() for l in p.stdout.splitlines() if l.strip().startswith("what:")][:1]
    m["check_exit"], m["detected"] = rc, rc == 1
    m["detected_as"] = what[0][6:] if what else None
    json.dump(m, open(d + "meta.json", "w"), indent=1)
    rows.append((name, pid, rc, m["detected_as"]))
    print("%-40s %s exit=%d %s" % (name, pid, rc, (m["detected_as"] or "")[:90]))
print("%d/%d detected" % (sum(1 for r in rows if r[2] == 1), len(rows)))
