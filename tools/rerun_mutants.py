#!/usr/bin/env python3
"""Re-run every hand-made mutant / revert under /verif/mutants/<Cxx>/ against the quick check of <Cxx>, in scratch worktrees of
/repo's HEAD (/repo itself is not touched).  usage: tools/rerun_mutants.py [Cxx] [--workers 6]
prints one line per mutant; exit 1 if an unexpected one is not detected"""
import glob, os, subprocess, sys, threading
argv = sys.argv[1:]
workers = 6
if "--workers" in argv:
    i = argv.index("--workers")
    workers = int(argv[i + 1])
    del argv[i:i + 2]
pref = argv[0] if argv else ""
# mutants that are NOT violations by design (reported as drift / equivalent): see DESIGN.md section 10
EXPECTED_UNDETECTED = {
    "C11/typed_receive_no_assert.diff",        # a typed receive before accept still raises: drift, not a violation
    "C01/last_newline_max.diff",               # last_newline() is dead code since repair fee95f8: equivalent now
    "C05/sse_wsgi_connection_header.diff",     # superseded by repair 4de2eba: list_headers() drops hop-by-hop headers on WSGI whatever their origin
}
BASE = "/tmp/rerun_wt"
todo = [f for f in sorted(glob.glob("/verif/mutants/*/*.diff")) if not pref or os.path.basename(os.path.dirname(f)) == pref]
bad, lock = [0], threading.Lock()


def work(w):
    wt = "%s/m%d" % (BASE, w)
    subprocess.run(["git", "-C", "/repo", "worktree", "add", "-q", "--detach", wt, "HEAD"], check=True)
    try:
        while True:
            with lock:
                if not todo:
                    return
                f = todo.pop(0)
            pid = os.path.basename(os.path.dirname(f))
            subprocess.run(["git", "-C", wt, "checkout", "-q", "--", "."])
            a = subprocess.run(["git", "-C", wt, "apply", f], capture_output=True, text=True)
            if a.returncode:
                rc, out = 3, "PATCH DOES NOT APPLY"
            else:
                p = subprocess.run("cd /verif && VERIF_REPO=%s ./check %s --tier quick" % (wt, pid), shell=True, capture_output=True, text=True)
                rc, out = p.returncode, p.stdout
            what = [l.strip() for l in out.splitlines() if l.strip().startswith("what:")][:1]
            rel = pid + "/" + os.path.basename(f)
            ok = (rc == 1) != (rel in EXPECTED_UNDETECTED)
            with lock:
                bad[0] += 0 if ok else 1
                print("%-55s exit=%d %s%s" % (rel, rc, (what[0][6:] if what else out[-80:] if rc != 0 else "")[:80], "" if ok else "   <-- UNEXPECTED"), flush=True)
    finally:
        subprocess.run(["git", "-C", "/repo", "worktree", "remove", "--force", wt])


os.makedirs(BASE, exist_ok=True)
ts = [threading.Thread(target=work, args=(i,)) for i in range(workers)]
[t.start() for t in ts]
[t.join() for t in ts]
try:
    os.rmdir(BASE)
except OSError:
    pass
sys.exit(1 if bad[0] else 0)
