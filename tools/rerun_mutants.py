#!/usr/bin/env python3
"""Re-run every hand-made mutant / revert under /verif/mutants/<Cxx>/ against the quick check of <Cxx> (applied to /repo and
reverted).  usage: tools/rerun_mutants.py [Cxx]   - prints one line per mutant; exit 1 if an unexpected one is not detected"""
import glob, os, subprocess, sys
pref = sys.argv[1] if len(sys.argv) > 1 else ""
# mutants that are NOT violations by design (reported as drift / equivalent): see DESIGN.md section 10
EXPECTED_UNDETECTED = {"C11/typed_receive_no_assert.diff"}
bad = 0
for f in sorted(glob.glob("/verif/mutants/*/*.diff")):
    pid = os.path.basename(os.path.dirname(f))
    if pref and pid != pref:
        continue
    p = subprocess.run(["/verif/tools/try_patch.sh", f, pid], capture_output=True, text=True)
    what = [l.strip() for l in p.stdout.splitlines() if l.strip().startswith("what:")][:1]
    rel = pid + "/" + os.path.basename(f)
    ok = (p.returncode == 1) != (rel in EXPECTED_UNDETECTED)
    bad += 0 if ok else 1
    print("%-55s exit=%d %s%s" % (rel, p.returncode, (what[0][6:] if what else "")[:80], "" if ok else "   <-- UNEXPECTED"), flush=True)
sys.exit(1 if bad else 0)
