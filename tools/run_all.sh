#!/bin/sh
# usage: tools/run_all.sh [tier] [seed]  - every check once on /repo as it is; prints one line per check
tier=${1:-quick}; seed=${2:-0}
cd /verif
for i in 01 02 03 04 05 06 07 08 09 10 11 12 13 14 15 16 17 18 19 20; do
  out=$(VERIF_SEED=$seed ./check C$i --tier $tier 2>&1); rc=$?
  echo "C$i rc=$rc $(echo "$out" | grep -E '^(PASS|FAIL|MACHINERY)' | tail -1 | cut -c1-150)"
  [ $rc -ne 0 ] && echo "$out" | grep -E "what:|MACHINERY|Error" | head -5
done
