#!/bin/sh
# usage: run_baseline.sh <worktree>   -> prints PASS if every test of the offline baseline still passes
wt=$(realpath "$1")
out=$(mktemp /dev/shm/junit.XXXXXX.xml)
cd "$wt" && PYTHONPATH="$wt" PYTHONDONTWRITEBYTECODE=1 timeout 900 /venv/bin/python -m pytest -q -p no:cacheprovider --timeout=300 --continue-on-collection-errors --junitxml="$out" tests >/dev/null 2>&1
/venv/bin/python - "$out" <<'PY'
import sys, json, xml.etree.ElementTree as ET
base = set(json.load(open('/root/.vp/BASELINE.json'))['stable_pass'])
ok = set()
for tc in ET.parse(sys.argv[1]).getroot().iter('testcase'):
    name = tc.get('classname') + '::' + tc.get('name')
    if not any(c.tag in ('failure', 'error', 'skipped') for c in tc):
        ok.add(name)
missing = sorted(base - ok)
print("PASS: all %d baseline tests pass" % len(base) if not missing else "FAIL: baseline tests now failing: %s" % missing)
PY
rm -f "$out"
