#!/bin/sh
# usage: tools/try_patch.sh <patch.diff> <Cxx> [more check args]   -- applies the patch to /repo, runs the check, reverts
patch=$(realpath "$1"); shift
id=$1; shift
cd /verif
if ! git -C /repo diff --quiet; then echo "/repo is dirty"; exit 3; fi
git -C /repo apply "$patch" || { echo "patch does not apply"; exit 3; }
./check "$id" "$@" > /dev/shm/try_patch.$$.log 2>&1
rc=$?
git -C /repo checkout -- . 
grep -E "^(VIOLATION|KNOWN-FINDING|PASS|FAIL|MACHINERY|DRIFT)" /dev/shm/try_patch.$$.log | head -12
grep -A4 "^VIOLATION" /dev/shm/try_patch.$$.log | grep -E "what:" | head -3
rm -f /dev/shm/try_patch.$$.log
echo "exit=$rc"
exit $rc
