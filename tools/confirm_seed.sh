#!/bin/sh
# usage: tools/confirm_seed.sh <seed_dir with patch.diff demo.py meta.json> <Cxx> <name>
# confirms the seeded change in a scratch worktree (demo passes before / fails after, baseline passes), runs the property's
# quick check against it on /repo (applied and reverted), and files it under /verif/seeded/<name>/
sd=$(realpath "$1"); id=$2; name=$3
wt=/tmp/wt4/confirm.$$
git -C /repo worktree add -q --detach $wt HEAD || exit 3
trap 'git -C /repo worktree remove --force $wt' EXIT
PYTHONPATH=$wt /venv/bin/python $sd/demo.py >/dev/null 2>&1; before=$?
git -C $wt apply $sd/patch.diff || { echo "PATCH DOES NOT APPLY"; exit 3; }
PYTHONPATH=$wt /venv/bin/python $sd/demo.py >/dev/null 2>&1; after=$?
base=$(/verif/tools/run_baseline.sh $wt)
echo "demo before=$before after=$after baseline: $base"
cd /verif
out=$(tools/try_patch.sh $sd/patch.diff $id 2>&1); rc=$?
echo "$out" | tail -4
mkdir -p seeded/$name
cp $sd/patch.diff $sd/demo.py seeded/$name/
/venv/bin/python - "$sd/meta.json" "seeded/$name/meta.json" "$id" "$before" "$after" "$base" "$rc" <<'PY'
import json, sys
src, dst, pid, before, after, base, rc = sys.argv[1:]
try:
    m = json.load(open(src))
except Exception:
    m = {}
m["property"] = pid
m["confirmed"] = {"demo_exit_unpatched": int(before), "demo_exit_patched": int(after), "baseline": base,
                  "commands": ["PYTHONPATH=<scratch worktree> /venv/bin/python demo.py (before/after git apply patch.diff)",
                               "pytest baseline (77 offline tests) in the scratch worktree",
                               "git -C /repo apply patch.diff; ./check %s --tier quick; git -C /repo checkout -- ." % pid]}
m["check_exit"] = int(rc)
m["detected"] = int(rc) == 1
json.dump(m, open(dst, "w"), indent=1)
PY
echo "== $name: check exit $rc"
