----------------------------- MODULE Multipart -----------------------------
(***************************************************************************)
(* baize/multipart.py MultipartDecoder (receive_data / next_event) and the *)
(* event loop of baize/multipart_helper.py parse_stream/parse_async_stream *)
(* (both are the same loop; the async one awaits the file sink).           *)
(*                                                                         *)
(* Bytes are abstracted to symbols:  r CR, n LF, d '-', b c boundary       *)
(* characters, s blank, x any other content byte, h / g one byte of a      *)
(* field / file part header.  A FORM is a sequence of parts [kind,content];*)
(* Init picks a form and sets body = Encode(form), so the expected result  *)
(* IS the chosen form - no second decoder is needed as an oracle.          *)
(*                                                                         *)
(* The three regular expressions of the decoder are transcribed with the   *)
(* engine's semantics made explicit: leftmost match, ordered alternation   *)
(* (CRLF before LF before CR), greedy blanks, optional trailing line break.*)
(*                                                                         *)
(* HoldFix = TRUE : while no complete "--boundary" is buffered, hold back   *)
(*   only from the first CR/LF within the last |"--boundary"|+2 symbols    *)
(*   (what the code does now).                                             *)
(* HoldFix = FALSE: the original rule - hold back from the earliest of the *)
(*   last CR / last LF, however far back (unbounded buffering; witness).   *)
(* OpenFix = TRUE : while the text "--boundary" is buffered but no          *)
(*   delimiter LINE is complete, hold back only a delimiter line that is   *)
(*   still open at the end of the buffer (line break, "--boundary", then   *)
(*   one '-' or blanks up to the end), else as under HoldFix.              *)
(* OpenFix = FALSE: the original rule for that branch (earliest of last CR *)
(*   / last LF): part data "LF--boundaryX..." without a further line break *)
(*   is buffered whole (witness).                                          *)
(***************************************************************************)
EXTENDS Naturals, Sequences, FiniteSets

CONSTANTS Bnd,          \* boundary, a sequence of symbols from {"b","c","d"}
          Forms,        \* set of forms to explore; form = Seq([kind |-> "field"|"file", content |-> Seq(sym)])
          Preambles,    \* set of preambles (symbol sequences without line-break+delimiter), <<>> = none
          Epilogues,    \* set of what follows the close-delimiter "--boundary--": <<"r","n">> (what clients send), <<>> (RFC 2046: the line
                        \* break belongs to the optional epilogue), transport padding, epilogue text
          MaxChunk,     \* receive_data() gets 0..MaxChunk symbols at a time
          Limits,       \* set of [parts |-> max_form_parts, mem |-> max_form_memory_size]  (Unlimited = 99)
          HoldFix, OpenFix,
          PreFix        \* TRUE: the first delimiter may lack its line break only at the very start of the body (the code);
                        \* FALSE: anywhere in the preamble (the original: a preamble line "... --boundary" is taken for a delimiter; witness)

VARIABLES form, pre, lim,      \* the scenario (fixed)
          body, pos,           \* encoded body and how much of it has been fed
          st, buf, drained,    \* decoder: state, buffer, "the helper has pulled events until NEED_DATA"
          cur, curKind, items, \* helper: accumulator of the current part, its kind, finished parts
          nparts, mem, result, \* helper: form_parts_count, form_memory_size_count, "" | "413"
          maxheld              \* largest buffer length seen in state DATA right after a drain
vars == <<form, pre, lim, body, pos, st, buf, drained, cur, curKind, items, nparts, mem, result, maxheld>>

TheForms == Forms
Delim == <<"d", "d">> \o Bnd
CRLF == <<"r", "n">>
Window == Len(Delim) + 2        \* len(boundary) + 4 bytes in the code

\* ---------------------------------------------------------------- encoding (RFC 7578, CRLF line breaks)
HeaderOf(p) == IF p.kind = "field" THEN <<"h", "h">> ELSE <<"g", "g", "g">>
RECURSIVE EncodeParts(_)
EncodeParts(ps) == IF ps = <<>> THEN <<>>
                   ELSE Delim \o CRLF \o HeaderOf(Head(ps)) \o CRLF \o CRLF \o Head(ps).content \o CRLF \o EncodeParts(Tail(ps))
Encode(f, p, ep) == (IF p = <<>> THEN <<>> ELSE p \o CRLF) \o EncodeParts(f) \o Delim \o <<"d", "d">> \o ep

\* ---------------------------------------------------------------- regex emulation on symbol sequences
At(s, i) == IF i >= 1 /\ i <= Len(s) THEN s[i] ELSE "$"
LBLen(s, i) == IF At(s, i) = "r" /\ At(s, i + 1) = "n" THEN 2
               ELSE IF At(s, i) \in {"r", "n"} THEN 1 ELSE 0
RECURSIVE SkipWs(_, _)
SkipWs(s, i) == IF At(s, i) = "s" THEN SkipWs(s, i + 1) ELSE i
HasDelimAt(s, i) == i + Len(Delim) - 1 <= Len(s) /\ SubSeq(s, i, i + Len(Delim) - 1) = Delim
\* "--" boundary ( "--" ws* LB? | ws* LB ) starting at i: <<end + 1, final>> or <<0, FALSE>>
TailMatch(s, i) ==
  IF ~HasDelimAt(s, i) THEN <<0, FALSE>>
  ELSE LET j == i + Len(Delim) IN
       IF At(s, j) = "d" /\ At(s, j + 1) = "d"
         THEN LET k == SkipWs(s, j + 2) IN <<k + LBLen(s, k), TRUE>>
         ELSE LET k == SkipWs(s, j) IN
              IF LBLen(s, k) > 0 THEN <<k + LBLen(s, k), FALSE>> ELSE <<0, FALSE>>
NoMatch == [s |-> 0, e |-> 0, f |-> FALSE]
MatchAt(s, i, optLB) ==
  LET l == LBLen(s, i) IN
  IF l > 0 /\ TailMatch(s, i + l)[1] > 0 THEN [s |-> i, e |-> TailMatch(s, i + l)[1], f |-> TailMatch(s, i + l)[2]]
  ELSE IF optLB /\ TailMatch(s, i)[1] > 0 THEN [s |-> i, e |-> TailMatch(s, i)[1], f |-> TailMatch(s, i)[2]]
  ELSE NoMatch
MinOf(S) == CHOOSE x \in S : \A y \in S : x <= y
MaxOf(S) == CHOOSE x \in S : \A y \in S : x >= y
Search(s, optLB) ==
  LET hits == {i \in 1..Len(s) : MatchAt(s, i, optLB).s > 0} IN
  IF hits = {} THEN NoMatch ELSE MatchAt(s, MinOf(hits), optLB)
\* the preamble's regex: (?:\A | LB) "--" boundary ...   (nothing is removed from the buffer before the first delimiter, so \A is the start of the body)
SearchPre(s) ==
  LET opt(i) == IF PreFix THEN i = 1 ELSE TRUE
      hits == {i \in 1..Len(s) : MatchAt(s, i, opt(i)).s > 0} IN
  IF hits = {} THEN NoMatch ELSE MatchAt(s, MinOf(hits), opt(MinOf(hits)))
HasDelim(s) == \E i \in 1..Len(s) : HasDelimAt(s, i)
\* BLANK_LINE_RE = CRLF CRLF | CR CR | LF LF ; returns <<start, end + 1>> or <<0, 0>>
BlankAt(s, i) == IF i + 3 <= Len(s) /\ SubSeq(s, i, i + 3) = <<"r", "n", "r", "n">> THEN 4
                 ELSE IF i + 1 <= Len(s) /\ ((s[i] = "r" /\ s[i + 1] = "r") \/ (s[i] = "n" /\ s[i + 1] = "n")) THEN 2 ELSE 0
BlankSearch(s) == LET hits == {i \in 1..Len(s) : BlankAt(s, i) > 0} IN
                  IF hits = {} THEN <<0, 0>> ELSE <<MinOf(hits), MinOf(hits) + BlankAt(s, MinOf(hits))>>
\* number of symbols before min(last CR, last LF); Len(s) if there is neither
LastIdx(s, ch) == LET hits == {i \in 1..Len(s) : s[i] = ch} IN IF hits = {} THEN Len(s) + 1 ELSE MaxOf(hits)
MinN(a, b) == IF a < b THEN a ELSE b
LastNewline(s) == MinN(LastIdx(s, "n"), LastIdx(s, "r")) - 1
\* number of symbols before the first CR/LF inside the last Window symbols; Len(s) if there is none
PartialStart(s) ==
  LET from == IF Len(s) > Window THEN Len(s) - Window + 1 ELSE 1
      hits == {i \in from..Len(s) : s[i] \in {"r", "n"}} IN
  IF hits = {} THEN Len(s) ELSE MinOf(hits) - 1
\* number of symbols before a delimiter line that is still open at the end of s; 0 - 1 = none  (regex: LB "--" boundary ( "-" | ws* ) \Z)
OpenAt(s, i) == LET l == LBLen(s, i)
                    j == i + l + Len(Delim) IN      \* first position after the delimiter text
                /\ l > 0 /\ HasDelimAt(s, i + l)
                /\ \/ j = Len(s) + 1
                   \/ (j = Len(s) /\ s[j] = "d")
                   \/ \A k \in j..Len(s) : s[k] = "s"
OpenStart(s) == LET hits == {i \in 1..Len(s) : OpenAt(s, i)} IN
                IF hits = {} THEN PartialStart(s) ELSE MinOf(hits) - 1
UndecidedHold(s) == IF OpenFix THEN OpenStart(s) ELSE LastNewline(s)
Take(s, k) == SubSeq(s, 1, k)
Drop(s, k) == SubSeq(s, k + 1, Len(s))

\* ---------------------------------------------------------------- behaviour
Init == /\ form \in TheForms /\ pre \in Preambles /\ lim \in Limits
        /\ \E ep \in Epilogues : body = Encode(form, pre, ep)
        /\ pos = 0
        /\ st = "PREAMBLE" /\ buf = <<>> /\ drained = TRUE
        /\ cur = <<>> /\ curKind = "none" /\ items = <<>> /\ nparts = 0 /\ mem = 0 /\ result = "" /\ maxheld = 0

Scenario == <<form, pre, lim, body>>

\* receive_data(chunk): the next k symbols of the body (k = 0: an empty chunk)
Feed(k) == /\ drained /\ result = "" /\ pos < Len(body) /\ k <= Len(body) - pos
           /\ buf' = buf \o SubSeq(body, pos + 1, pos + k) /\ pos' = pos + k /\ drained' = FALSE
           /\ UNCHANGED <<form, pre, lim, body, st, cur, curKind, items, nparts, mem, result, maxheld>>

NeedData == /\ drained' = TRUE
            /\ maxheld' = IF st = "DATA" /\ Len(buf) > maxheld THEN Len(buf) ELSE maxheld
            /\ UNCHANGED <<form, pre, lim, body, pos, st, buf, cur, curKind, items, nparts, mem, result>>

StepPreamble ==
  /\ ~drained /\ result = "" /\ st = "PREAMBLE"
  /\ LET m == SearchPre(buf) IN
     IF m.s > 0 THEN /\ st' = IF m.f THEN "EPILOGUE" ELSE "PART"
                     /\ buf' = Drop(buf, m.e - 1)
                     /\ UNCHANGED <<form, pre, lim, body, pos, drained, cur, curKind, items, nparts, mem, result, maxheld>>
                ELSE NeedData

StepPart ==
  /\ ~drained /\ result = "" /\ st = "PART"
  /\ LET m == BlankSearch(buf) IN
     IF m[1] > 0 THEN /\ curKind' = IF \E i \in 1..(m[1] - 1) : buf[i] = "g" THEN "file" ELSE "field"
                      /\ buf' = Drop(buf, m[2] - 1) /\ st' = "DATA" /\ cur' = <<>>
                      /\ UNCHANGED <<form, pre, lim, body, pos, drained, items, nparts, mem, result, maxheld>>
                 ELSE NeedData

\* the helper's reaction to Data(data, more_data)
OnData(data, more, st2, buf2) ==
  LET mem2 == IF curKind = "field" THEN mem + Len(data) ELSE mem
      over == curKind = "field" /\ lim.mem < 99 /\ mem2 > lim.mem
      np2 == IF more THEN nparts ELSE nparts + 1
      overParts == ~over /\ ~more /\ np2 > lim.parts IN
  /\ st' = st2 /\ buf' = buf2 /\ mem' = mem2
  /\ IF over THEN result' = "413" /\ UNCHANGED <<cur, items, nparts>>
     ELSE /\ cur' = IF more THEN cur \o data ELSE <<>>
          /\ items' = IF more THEN items ELSE Append(items, [kind |-> curKind, content |-> cur \o data])
          /\ nparts' = np2
          /\ result' = IF overParts THEN "413" ELSE ""
  /\ UNCHANGED <<form, pre, lim, body, pos, drained, curKind, maxheld>>

StepData ==
  /\ ~drained /\ result = "" /\ st = "DATA"
  /\ IF ~HasDelim(buf)
       THEN LET hold == IF HoldFix THEN PartialStart(buf) ELSE LastNewline(buf) IN
            IF hold > 0 THEN OnData(Take(buf, hold), TRUE, st, Drop(buf, hold)) ELSE NeedData
       ELSE LET m == Search(buf, FALSE) IN
            IF m.s > 0 THEN OnData(Take(buf, m.s - 1), FALSE, IF m.f THEN "EPILOGUE" ELSE "PART", Drop(buf, m.e - 1))
            ELSE LET hold == UndecidedHold(buf) IN
                 IF hold > 0 THEN OnData(Take(buf, hold), TRUE, st, Drop(buf, hold)) ELSE NeedData

\* EPILOGUE: nothing more to emit until the input is complete (the helpers never signal completion)
StepEpilogue == /\ ~drained /\ result = "" /\ st = "EPILOGUE" /\ NeedData

Next == (\E k \in 0..MaxChunk : Feed(k)) \/ StepPreamble \/ StepPart \/ StepData \/ StepEpilogue
Spec == Init /\ [][Next]_vars

\* ---------------------------------------------------------------- properties
IsPrefix(a, b) == Len(a) <= Len(b) /\ SubSeq(b, 1, Len(a)) = a
Unlimited == lim.parts >= 99 /\ lim.mem >= 99
AllFed == pos = Len(body) /\ drained

\* nothing is ever emitted that would have to be taken back
PrefixOK == result = "" =>
  /\ IsPrefix(items, form)
  /\ (st = "DATA" /\ Len(items) < Len(form)) => (curKind = form[Len(items) + 1].kind /\ IsPrefix(cur, form[Len(items) + 1].content))
\* at the end of the input the decoded parts are exactly the encoded ones, whatever the chunking
Exact == (AllFed /\ result = "") => (items = form /\ st = "EPILOGUE")
\* 413 exactly when a limit is exceeded
FieldTotal == LET F[i \in 0..Len(form)] == IF i = 0 THEN 0 ELSE F[i - 1] + (IF form[i].kind = "field" THEN Len(form[i].content) ELSE 0)
              IN F[Len(form)]
TooBig == Len(form) > lim.parts \/ (lim.mem < 99 /\ FieldTotal > lim.mem)
LimitExact == AllFed => ((result = "413") <=> TooBig)
NoEarly413 == result = "413" => TooBig
\* received but not yet released bytes stay bounded: one chunk + delimiter + small constant
BoundedHold == maxheld <= MaxChunk + Len(Delim) + 4
==========================================================================
