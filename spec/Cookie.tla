------------------------------ MODULE Cookie ------------------------------
(***************************************************************************)
(* baize/datastructures.py Cookie._quote / __str__ (response side),        *)
(* baize/requests.py cookies (request side: split at ';', first '=',       *)
(* strip, http.cookies._unquote), baize/responses.py set_cookie expiry.    *)
(*                                                                         *)
(* Characters are classes:                                                 *)
(*   "t"  token character (legal unquoted)      "k"  kept raw in quotes    *)
(*   "sp" space (kept raw in quotes, stripped outside)                     *)
(*   "o"  octal-escaped: ';' ',' control characters, non-ASCII Latin-1     *)
(*   "q"  double quote   "b"  backslash                                    *)
(* The serialised form is a sequence of output symbols:                    *)
(*   <<"raw", c>>  the character itself, <<"oct", c>>  \ooo,               *)
(*   <<"esc", c>>  backslash + character, DQ the delimiting quote          *)
(***************************************************************************)
EXTENDS Naturals, Sequences, FiniteSets, Integers

CONSTANTS MaxLen,        \* cookie values have 0..MaxLen characters
          Zones,         \* set of UTC offsets in seconds (east positive) - the server process's time zone
          Nows, Deltas   \* instants (epoch seconds) and requested expiry deltas

Classes == {"t", "k", "sp", "o", "q", "b", "d3"}     \* "d3": three octal digits (token characters that look like an escape after a backslash)
\* a character is <<class, id>> so that distinct characters of one class stay distinguishable
Chars == {<<c, i>> : c \in Classes, i \in 1..1}
Values == UNION {[1..n -> Chars] : n \in 0..MaxLen}

DQ == <<"dq", <<"q", 0>>>>      \* the delimiting double quote, same shape as the other output symbols
Legal(v) == v # <<>> /\ \A i \in 1..Len(v) : v[i][1] \in {"t", "d3"}
QuoteChar(c) == IF c[1] \in {"t", "k", "sp", "d3"} THEN <<"raw", c>> ELSE IF c[1] = "o" THEN <<"oct", c>> ELSE <<"esc", c>>
Quote(v) == IF Legal(v) THEN [i \in 1..Len(v) |-> <<"raw", v[i]>>]
            ELSE <<DQ>> \o [i \in 1..Len(v) |-> QuoteChar(v[i])] \o <<DQ>>

\* http.cookies._unquote: only a string that starts and ends with a quote is unquoted
Unquote(w) == IF Len(w) < 2 \/ w[1] # DQ \/ w[Len(w)] # DQ THEN [i \in 1..Len(w) |-> w[i][2]]
              ELSE [i \in 1..(Len(w) - 2) |-> w[i + 1][2]]

\* what travels in the header must not contain a raw separator or control character, and is ASCII
RawSafe(w) == \A i \in 1..Len(w) : w[i][1] = "raw" => w[i][2][1] \in {"t", "k", "sp", "d3"}
\* request side: value.strip() removes outer spaces - inside quotes they survive
Strip(w) == w   \* (a quoted string starts and ends with DQ; an unquoted legal one has no spaces)

VARIABLES v, other, phase, wire, back, now, zone, delta, expires
vars == <<v, other, phase, wire, back, now, zone, delta, expires>>

Init == /\ v \in Values /\ other \in {<<>>, <<<<"t", 1>>>>}
        /\ phase = "set" /\ wire = <<>> /\ back = <<>>
        /\ now \in Nows /\ zone \in Zones /\ delta \in Deltas /\ expires = 0

\* response.set_cookie(name, v, expires=delta): the Set-Cookie value part and the Expires instant (as GMT epoch seconds)
SetCookie == /\ phase = "set" /\ wire' = Quote(v)
             /\ expires' = now + delta          \* the repaired code formats the UTC instant, whatever the zone
             /\ phase' = "send" /\ UNCHANGED <<v, other, back, now, zone, delta>>
\* the client sends name=value back, alone or after another cookie; the server splits, strips, unquotes
Receive == /\ phase = "send" /\ back' = Unquote(Strip(wire))
           /\ phase' = "done" /\ UNCHANGED <<v, other, wire, now, zone, delta, expires>>
Next == SetCookie \/ Receive
Spec == Init /\ [][Next]_vars

\* ---------------------------------------------------------------- properties
OnePair == phase # "set" => RawSafe(wire)
RoundTrip == phase = "done" => back = v
ExpiresDenotes == phase # "set" => expires = now + delta
==========================================================================
