---------------------------- MODULE Conditional ----------------------------
(***************************************************************************)
(* baize/staticfiles.py if_none_match / if_modified_since,                 *)
(* baize/responses.py generate_etag, */staticfiles.py file_response        *)
(*                                                                         *)
(* A file (version, size, mtime, ctime) on a virtual clock counted in       *)
(* ticks (TPS ticks per second, so that sub-second changes exist), a       *)
(* history of 200-responses with the validators they carried, and          *)
(* conditional requests built from those validators.                       *)
(*   ETag           = hash of (mtime, size)      - sub-second precise      *)
(*   Last-Modified  = mtime rounded down to whole seconds                  *)
(* Decision of the code: If-None-Match present -> entity tags decide       *)
(* ("*", weak prefix ignored per list member); otherwise If-Modified-Since *)
(* compares whole seconds of the change time with the date sent.           *)
(* Every modification advances the clock by at least one tick, so two      *)
(* versions never share an mtime.  Restore puts different content of the   *)
(* same size in place with an OLDER (never used) mtime - cp -p, rsync -t,  *)
(* a backup unpacked - so only the change time moves forward; Chmod moves  *)
(* the change time alone.                                                  *)
(***************************************************************************)
EXTENDS Naturals, Sequences, TLC

CONSTANTS TPS,        \* ticks per second
          MaxSteps,   \* history length bound
          MaxResp

VARIABLES clock, file, resp, last, steps, used
vars == <<clock, file, resp, last, steps, used>>

Forms == {"etag", "weak", "listFirst", "listLast", "weakListLast", "star", "lm", "both", "bothRev", "staleEtag", "weakFirstThenTag", "listTwoLines"}
\* ("listTwoLines": the list sent as two If-None-Match header lines - the same list by RFC 7230 3.2.2)
\* ("bothRev": the same two validators with the date header first - header order must not matter)
Sec(t) == t \div TPS

Init == /\ clock = 2 * TPS
        /\ file = [ver |-> 1, size |-> 3, mtime |-> TPS, ctime |-> TPS]
        /\ resp = <<>> /\ last = [k |-> "none"] /\ steps = 0 /\ used = {TPS}

Tick(n) == /\ steps < MaxSteps /\ clock' = clock + n /\ steps' = steps + 1
           /\ last' = [k |-> "tick"] /\ UNCHANGED <<file, resp, used>>

Modify(newSize, newVer) ==
  /\ steps < MaxSteps /\ clock' = clock + 1 /\ steps' = steps + 1
  /\ file' = [ver |-> newVer, size |-> newSize, mtime |-> clock + 1, ctime |-> clock + 1]
  /\ used' = used \cup {clock + 1}
  /\ last' = [k |-> "modify"] /\ UNCHANGED resp
RewriteSameSize == Modify(file.size, file.ver + 1)
RewriteOtherSize == Modify(IF file.size = 3 THEN 5 ELSE 3, file.ver + 1)
Touch == Modify(file.size, file.ver)
\* other content, same size, an mtime d ticks OLDER than the current one (and never used before); ctime = now
Restore(d) ==
  /\ steps < MaxSteps /\ file.mtime >= d /\ (file.mtime - d) \notin used
  /\ clock' = clock + 1 /\ steps' = steps + 1 /\ used' = used \cup {file.mtime - d}
  /\ file' = [ver |-> file.ver + 1, size |-> file.size, mtime |-> file.mtime - d, ctime |-> clock + 1]
  /\ last' = [k |-> "modify"] /\ UNCHANGED resp
\* metadata change only
Chmod == /\ steps < MaxSteps /\ clock' = clock + 1 /\ steps' = steps + 1
         /\ file' = [file EXCEPT !.ctime = clock + 1]
         /\ last' = [k |-> "modify"] /\ UNCHANGED <<resp, used>>

Validators == [tag |-> <<file.mtime, file.size>>, lm |-> Sec(file.mtime)]
Full == [k |-> "resp", status |-> 200, ver |-> file.ver, tag |-> Validators.tag, lm |-> Validators.lm, ct |-> file.ctime]

Plain == /\ steps < MaxSteps /\ Len(resp) < MaxResp /\ steps' = steps + 1
         /\ resp' = Append(resp, Full) /\ last' = Full
         /\ UNCHANGED <<clock, file, used>>

\* the tags a form sends, given the validators of response j
TagsSent(j, f) ==
  CASE f = "etag" -> <<resp[j].tag>>
    [] f = "weak" -> <<resp[j].tag>>
    [] f = "listFirst" -> <<resp[j].tag, <<0, 0>>>>
    [] f = "listLast" -> <<<<0, 0>>, resp[j].tag>>
    [] f = "weakListLast" -> <<<<0, 0>>, resp[j].tag>>
    [] f = "weakFirstThenTag" -> <<<<0, 0>>, resp[j].tag>>
    [] f = "listTwoLines" -> <<resp[j].tag, <<0, 0>>>>
    [] f = "both" -> <<resp[j].tag>>
    [] f = "bothRev" -> <<resp[j].tag>>
    [] f = "staleEtag" -> <<<<0, 0>>>>
    [] OTHER -> <<>>
HasTags(f) == f \in Forms \ {"lm"}

\* the code's decision
NotModified(j, f) ==
  IF f = "star" THEN TRUE
  ELSE IF HasTags(f) THEN \E i \in 1..Len(TagsSent(j, f)) : TagsSent(j, f)[i] = Validators.tag
  ELSE Sec(file.ctime) <= resp[j].lm

Cond(j, f) ==
  /\ steps < MaxSteps /\ j \in 1..Len(resp) /\ steps' = steps + 1
  /\ last' = IF NotModified(j, f) THEN [k |-> "resp", status |-> 304, ver |-> 0, tag |-> <<0, 0>>, lm |-> 0, ct |-> 0, j |-> j, form |-> f]
             ELSE [Full EXCEPT !.k = "resp"] @@ [j |-> j, form |-> f]
  /\ resp' = IF NotModified(j, f) \/ Len(resp) >= MaxResp THEN resp ELSE Append(resp, Full)
  /\ UNCHANGED <<clock, file, used>>

Next == \/ \E n \in 1..(TPS + 1) : Tick(n)
        \/ RewriteSameSize \/ RewriteOtherSize \/ Touch \/ Plain
        \/ \E d \in 1..(TPS + 1) : Restore(d)
        \/ Chmod
        \/ \E j \in 1..MaxResp, f \in Forms : Cond(j, f)
Spec == Init /\ [][Next]_vars

\* ---------------------------------------------------------------- properties
IsCond == last.k = "resp" /\ "form" \in DOMAIN last
Sent == resp[last.j]
\* a 304 only if the file is unchanged since that response (entity tags), resp. not changed by a whole second (date only)
\* (a date-only request cannot reveal a change within the second of the date it carries)
NoStale == (IsCond /\ last.status = 304 /\ last.form \notin {"star"}) =>
             IF HasTags(last.form) THEN file.ver = Sent.ver /\ <<file.mtime, file.size>> = Sent.tag
             ELSE file.ver = Sent.ver \/ Sec(file.ctime) <= Sent.lm
\* after a change of size, or of the timestamps by at least a second: a full response with new content and validators
\* (a request that carries only a date cannot reveal a change of size within the same second - no server could tell)
FreshAfterChange == (IsCond /\ last.form \notin {"star", "staleEtag"} /\
                     ((HasTags(last.form) /\ file.size # Sent.tag[2]) \/ file.mtime >= Sent.tag[1] + TPS \/ (file.ver # Sent.ver /\ file.ctime >= Sent.ct + TPS))) =>
                       (last.status = 200 /\ last.ver = file.ver /\ last.tag = <<file.mtime, file.size>> /\ last.tag # Sent.tag)
\* while the file is unchanged, the ETag of a 200 revalidates in every syntactic form; "*" always matches
EtagRevalidates == (IsCond /\ <<file.mtime, file.size>> = Sent.tag /\ last.form \in Forms \ {"lm", "staleEtag"}) => last.status = 304
StarMatches == (IsCond /\ last.form = "star") => last.status = 304
DateRevalidates == (IsCond /\ last.form = "lm" /\ file.ctime = Sent.tag[1]) => last.status = 304
==========================================================================
