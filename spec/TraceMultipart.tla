--------------------------- MODULE TraceMultipart ---------------------------
(***************************************************************************)
(* Trace validation for Multipart.tla: recorded sessions of a real         *)
(* MultipartDecoder (receive_data / next_event logged at their return)     *)
(* far outside the exhaustive bounds - kilobyte bodies, many parts, random *)
(* chunk sizes, and the decoder sessions of the repository's own tests.    *)
(*                                                                         *)
(* TRACE_FILE: JSON array of                                               *)
(*   {body: [sym], hasForm, whole, drains: bool, maxChunk: n,               *)
(*    form: [{kind, content: [sym]}],                                       *)
(*    events: [{op: "feed", k} | {op: "eof"} |                              *)
(*             {op: "ev", ev, n, more, st, buflen}]}                       *)
(* Symbols: "r" CR, "n" LF, "d" '-', "s" blank, "h"/"g" a byte of a field  *)
(* / file part header, any other byte a token of its own ("x41").  The     *)
(* boundary constant Bnd is the image of the real boundary, so one TLC run *)
(* validates the traces of one boundary.                                   *)
(*                                                                         *)
(* Named deviations from Multipart.tla's Next (which models the helpers'   *)
(* usage): data may be fed before the previous events were drained         *)
(* (TFeed), next_event may be called again after NEED_DATA (TIdle), and    *)
(* the end of input may be signalled (TEof, TEpilogue, TMalformed) - the   *)
(* helpers never do that.                                                  *)
(***************************************************************************)
EXTENDS Multipart, Json, IOUtils, TLC, TLCExt

Traces == JsonDeserialize(IOEnv.TRACE_FILE)
NTraces == Len(Traces)

VARIABLES tid, l, complete
tvars == <<vars, tid, l, complete>>

ASSUME \A i \in 1..NTraces : TLCSet(100 + i, 0)

T == Traces[tid]
E == T.events[l]

TraceInit == /\ tid \in 1..NTraces /\ l = 1 /\ complete = FALSE
             /\ form = <<>> /\ pre = <<>> /\ lim = [parts |-> 1000000, mem |-> 99]   \* the form and the body stay in the
             /\ body = <<>> /\ pos = 0                                                \* trace record (T.form, T.body), not in the state
             /\ st = "PREAMBLE" /\ buf = <<>> /\ drained = TRUE
             /\ cur = <<>> /\ curKind = "none" /\ items = <<>> /\ nparts = 0 /\ mem = 0 /\ result = "" /\ maxheld = 0

IsEv(op) == l <= Len(T.events) /\ E.op = op /\ l' = l + 1 /\ UNCHANGED tid

\* receive_data(bytes): the next k symbols of the body, whether or not the events were drained
TFeed == /\ IsEv("feed") /\ ~complete
         /\ E.k <= Len(T.body) - pos
         /\ buf' = buf \o SubSeq(T.body, pos + 1, pos + E.k) /\ pos' = pos + E.k /\ drained' = FALSE
         /\ UNCHANGED <<form, pre, lim, body, st, cur, curKind, items, nparts, mem, result, maxheld, complete>>

\* receive_data(None)
TEof == /\ IsEv("eof") /\ complete' = TRUE /\ drained' = FALSE
        /\ UNCHANGED <<form, pre, lim, body, pos, st, buf, cur, curKind, items, nparts, mem, result, maxheld>>

StepAny == StepPreamble \/ StepPart \/ StepData \/ StepEpilogue

\* what the logged event says about the transition
EventMatches ==
  /\ st' = E.st /\ Len(buf') = E.buflen
  /\ (E.ev = "NeedData") <=> (drained' /\ ~drained)
  /\ (E.ev = "Preamble") => (st = "PREAMBLE" /\ ~drained' /\ E.n = SearchPre(buf).s - 1)
  /\ (E.ev \in {"Field", "File"}) => (st = "PART" /\ st' = "DATA" /\ curKind' = (IF E.ev = "File" THEN "file" ELSE "field"))
  /\ (E.ev = "Data") =>
        /\ st = "DATA" /\ ~drained'
        /\ LET more == Len(items') = Len(items)
               n == IF more THEN Len(cur') - Len(cur) ELSE Len(items'[Len(items')].content) - Len(cur) IN
           E.more = more /\ E.n = n
  /\ E.ev \in {"NeedData", "Preamble", "Field", "File", "Data"}

\* next_event() while the input is open (or closed but not yet in EPILOGUE / with something still to emit)
TEvent == /\ IsEv("ev") /\ ~drained /\ ~(complete /\ st \in {"EPILOGUE", "COMPLETE"})
          /\ StepAny
          /\ EventMatches
          /\ (complete => E.ev # "NeedData")
          /\ UNCHANGED complete

\* next_event() again although nothing was fed since NEED_DATA
TIdle == /\ IsEv("ev") /\ drained /\ ~complete /\ E.ev = "NeedData" /\ E.st = st /\ E.buflen = Len(buf)
         /\ UNCHANGED <<vars, complete>>

\* after the end of input: the rest of the buffer is the epilogue
TEpilogue == /\ IsEv("ev") /\ complete /\ st = "EPILOGUE" /\ E.ev = "Epilogue"
             /\ E.n = Len(buf) /\ E.st = "COMPLETE" /\ E.buflen = 0
             /\ st' = "COMPLETE" /\ buf' = <<>> /\ drained' = TRUE
             /\ UNCHANGED <<form, pre, lim, body, pos, cur, curKind, items, nparts, mem, result, maxheld, complete>>

\* after the end of input anything that would need more data is malformed (the exception is logged as an event)
WouldNeedData == \/ st = "COMPLETE"
                 \/ (st = "PREAMBLE" /\ SearchPre(buf).s = 0)
                 \/ (st = "PART" /\ BlankSearch(buf)[1] = 0)
                 \/ (st = "DATA" /\ (IF ~HasDelim(buf) THEN (IF HoldFix THEN PartialStart(buf) ELSE LastNewline(buf)) = 0
                                     ELSE Search(buf, FALSE).s = 0 /\ UndecidedHold(buf) = 0))
TMalformed == /\ IsEv("ev") /\ complete /\ E.ev = "Malformed" /\ WouldNeedData
              /\ E.st = st /\ E.buflen = Len(buf)
              /\ UNCHANGED <<vars, complete>>

TraceNext == TFeed \/ TEof \/ TEvent \/ TIdle \/ TEpilogue \/ TMalformed
TraceSpec == TraceInit /\ [][TraceNext]_tvars

\* the base module's properties on the states of recorded executions (when the driver knows the encoded form)
TPrefixOK == (T.hasForm /\ result = "") =>
  /\ IsPrefix(items, T.form)
  /\ (st = "DATA" /\ Len(items) < Len(T.form)) => (curKind = T.form[Len(items) + 1].kind /\ IsPrefix(cur, T.form[Len(items) + 1].content))
TExact == (T.hasForm /\ T.whole /\ pos = Len(T.body) /\ drained /\ result = "") => (items = T.form /\ st \in {"EPILOGUE", "COMPLETE"})
\* the helpers' usage (drain after every feed): what is held back stays bounded however long the parts are
THold == T.drains => maxheld <= T.maxChunk + Len(Delim) + 4

Progress == IF l - 1 > TLCGet(100 + tid) THEN TLCSet(100 + tid, l - 1) ELSE TRUE
Post == JsonSerialize(IOEnv.PREFIX_FILE, [i \in 1..NTraces |-> TLCGet(100 + i)])
==========================================================================
