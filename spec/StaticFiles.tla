---------------------------- MODULE StaticFiles ----------------------------
(***************************************************************************)
(* baize/staticfiles.py BaseFiles.ensure_absolute_path/check_path_is_file, *)
(* baize/wsgi|asgi/staticfiles.py Files.__call__, Pages.__call__           *)
(*                                                                         *)
(* The world is a tree of names below a top directory; the served root is  *)
(* <<"root">>; its siblings and the top hold secrets.  A request path is a *)
(* sequence of segments (the text between slashes; "" = empty segment, a   *)
(* trailing "" = trailing slash).  Resolution is LEXICAL: "" and "." are   *)
(* skipped, ".." pops, anything else - "..name" and "%2e%2e" included - is *)
(* a name.  One action per stage of the code: Resolve (join + abspath),    *)
(* Confine (the relpath test), Locate (stat, Pages' index/.html rules),    *)
(* and for a Pages redirect the follow-up request.                         *)
(***************************************************************************)
EXTENDS Naturals, Sequences, FiniteSets

CONSTANTS World,      \* set of <<path, kind>> ; path = sequence of names from the top, kind = "file" | "dir"
          Segs,       \* segment alphabet
          MaxDepth,   \* request paths have 0..MaxDepth segments
          HtmlOf,     \* set of <<name, name + ".html">> for the names that do not end in ".html"
          Apps        \* subset of {"Files", "Pages"}

VARIABLES app, segs, phase, stack, outcome, hops
vars == <<app, segs, phase, stack, outcome, hops>>

TheWorld == World
Root == <<"root">>
KindOf(p) == IF \E e \in TheWorld : e[1] = p THEN (CHOOSE e \in TheWorld : e[1] = p)[2]
             ELSE IF p = <<>> THEN "dir" ELSE "none"
SeqsUpTo(S, n) == UNION {[1..m -> S] : m \in 0..n}

\* lexical resolution below the root (os.path.join + os.path.abspath)
RECURSIVE Walk(_, _)
Walk(st, ss) == IF ss = <<>> THEN st
                ELSE LET s == Head(ss) IN
                     Walk(IF s \in {"", "."} THEN st
                          ELSE IF s = ".." THEN (IF st = <<>> \/ st[Len(st)] = ".." THEN Append(st, "..")   \* above the modelled top: stays outside for good
                                                 ELSE SubSeq(st, 1, Len(st) - 1))
                          ELSE Append(st, s), Tail(ss))
Resolved(ss) == Walk(Root, ss)
Inside(p) == Len(p) >= 1 /\ p[1] = "root"
TrailingSlash(ss) == ss = <<>> \/ ss[Len(ss)] = ""        \* "/" itself, or a path ending in "/"

HasHtml(name) == \E e \in HtmlOf : e[1] = name
WithHtml(name) == (CHOOSE e \in HtmlOf : e[1] = name)[2]
LastName(p) == p[Len(p)]

\* what the apps answer for a resolved, confined target
NotFound == [k |-> "404", p |-> <<>>]
FilesAnswer(t, slash) ==
  IF KindOf(t) = "file" /\ ~slash THEN [k |-> "file", p |-> t] ELSE NotFound
PagesAnswer(t, slash) ==
  LET cand == IF slash THEN Append(t, "index.html") ELSE t
      c2 == IF KindOf(cand) = "none" /\ cand # <<>> /\ HasHtml(LastName(cand))
              THEN SubSeq(cand, 1, Len(cand) - 1) \o <<WithHtml(LastName(cand))>> ELSE cand
  IN IF KindOf(c2) = "file" /\ (~slash \/ c2 # t) THEN [k |-> "file", p |-> c2]
     \* (only the requested path itself: a candidate "x.html" / "index.html" that happens to be a directory is not a directory URL.
     \*  The code before commit 6a3f767 tested the candidate: "/z" with a directory "z.html" was redirected, "/d2/" with a
     \*  directory "d2/index.html" was redirected for ever.)
     ELSE IF KindOf(t) = "dir" /\ ~slash THEN [k |-> "redirect", p |-> t]
     ELSE NotFound
Answer(a, ss) ==
  LET t == Resolved(ss) IN
  IF ~Inside(t) THEN NotFound
  ELSE IF a = "Files" THEN FilesAnswer(t, TrailingSlash(ss) /\ ss # <<>>) ELSE PagesAnswer(t, TrailingSlash(ss))

Init == /\ app \in Apps /\ segs \in SeqsUpTo(Segs, MaxDepth)
        /\ phase = "resolve" /\ stack = <<>> /\ outcome = [k |-> "pending", p |-> <<>>] /\ hops = 0

Resolve == /\ phase = "resolve"
           /\ stack' = Resolved(segs) /\ phase' = "confine"
           /\ UNCHANGED <<app, segs, outcome, hops>>

Confine == /\ phase = "confine"
           /\ IF Inside(stack) THEN phase' = "locate" /\ UNCHANGED outcome
                               ELSE phase' = "done" /\ outcome' = NotFound
           /\ UNCHANGED <<app, segs, stack, hops>>

Locate == /\ phase = "locate"
          /\ outcome' = Answer(app, segs)
          /\ phase' = IF Answer(app, segs).k = "redirect" /\ hops = 0 THEN "redirected" ELSE "done"
          /\ UNCHANGED <<app, segs, stack, hops>>

\* the client follows the redirect: the same URL plus "/"
Follow == /\ phase = "redirected"
          /\ segs' = Append(segs, "") /\ hops' = hops + 1 /\ phase' = "resolve"
          /\ UNCHANGED <<app, stack, outcome>>

Next == Resolve \/ Confine \/ Locate \/ Follow
Spec == Init /\ [][Next]_vars

\* ---------------------------------------------------------------- properties
Done == phase = "done"
\* whatever is served lies inside the directory and is a regular file
Confined == (Done /\ outcome.k = "file") => (Inside(outcome.p) /\ KindOf(outcome.p) = "file")
\* ... and it is the file the path resolves to (Pages: also its .html / index.html companions)
ExactFile == (Done /\ outcome.k = "file" /\ hops = 0) =>
   LET t == Resolved(segs) IN
   \/ outcome.p = t
   \/ app = "Pages" /\ TrailingSlash(segs) /\ outcome.p = Append(t, "index.html")
   \/ app = "Pages" /\ t # <<>> /\ HasHtml(LastName(t)) /\ KindOf(t) = "none"
        /\ outcome.p = SubSeq(t, 1, Len(t) - 1) \o <<WithHtml(LastName(t))>>
\* every regular file inside the directory is served at its own (canonical) path
OwnPath(p) == SubSeq(p, 2, Len(p))
Complete == \A e \in TheWorld : (e[2] = "file" /\ Inside(e[1]) /\ Len(e[1]) - 1 <= MaxDepth) =>
              \A a \in Apps : Answer(a, OwnPath(e[1])) = [k |-> "file", p |-> e[1]]
\* a redirect leads to the same URL plus "/", which serves that directory's index page when it has one
RedirectThenIndex == (Done /\ hops = 1) =>
   LET d == Resolved(segs) IN
   IF KindOf(Append(d, "index.html")) = "file" THEN outcome = [k |-> "file", p |-> Append(d, "index.html")]
   ELSE outcome = NotFound
NoRedirectLoop == hops <= 1 /\ (Done => outcome.k # "redirect")
\* only a directory URL is redirected (not a path whose ".html" / "index.html" candidate happens to be a directory)
RedirectOnlyDirs == hops = 1 => KindOf(Resolved(segs)) = "dir"
==========================================================================
