--------------------------- MODULE StreamAsgiTask ---------------------------
(***************************************************************************)
(* baize/asgi/responses.py: StreamingResponse.__call__ + wait_close with   *)
(* StreamResponse.render_stream - the plain ASGI stream at task level      *)
(* (two tasks; the event stream with its relay task is SseAsgi.tla).       *)
(*                                                                         *)
(*   main   : send start; spawn the watcher; loop { stop if the client     *)
(*            closed; chunk = await generator.asend(None) - which runs the *)
(*            user's async iterable inside main's own task -; send body }; *)
(*            finally: cancel the watcher, aclose render_stream (its       *)
(*            finally closes the user's iterable); final body              *)
(*   watcher: await receive() until http.disconnect -> _client_closed      *)
(*                                                                         *)
(* The user's producer runs in main's task: while it is waiting for its    *)
(* next item main can see nothing - a disconnect is noticed only at the    *)
(* next loop test.  That is why C06 bounds the return by "the producer's   *)
(* next step" for plain streams.                                           *)
(* One action per logged event; TraceStreamAsgiTask.tla validates          *)
(* recorded executions.                                                    *)
(***************************************************************************)
EXTENDS Naturals, Sequences

CONSTANTS MaxN,
          MaxFail     \* scenario: the failAt-th call of send() raises (failAt \in 0..MaxFail, 0 = never), as in SseAsgi.tla

VARIABLES failAt, sends, sfail,
          n, raiseAt,               \* scenario (raiseAt as in SseAsgi.tla)
          running, mpc, wpc,
          clientClosed, discDelivered, wCancelReq,
          rsStarted, rsFinished,    \* render_stream entered / its finally has run
          cur, produced, begun, closed, released,
          delivered, finalSent, mexc, outcome
vars == <<n, raiseAt, failAt, sends, sfail, running, mpc, wpc, clientClosed, discDelivered, wCancelReq, rsStarted, rsFinished, cur, produced, begun, closed, released,
          delivered, finalSent, mexc, outcome>>

Init == /\ n \in 0..MaxN /\ raiseAt \in 0..(MaxN + 1) /\ raiseAt <= n + 1
        /\ failAt \in 0..MaxFail /\ sends = 0 /\ sfail = FALSE
        /\ running = "main" /\ mpc = "init" /\ wpc = "none"
        /\ clientClosed = FALSE /\ discDelivered = FALSE /\ wCancelReq = FALSE
        /\ rsStarted = FALSE /\ rsFinished = FALSE /\ cur = 0 /\ produced = 0 /\ begun = FALSE /\ closed = 0 /\ released = FALSE
        /\ delivered = <<>> /\ finalSent = FALSE /\ mexc = FALSE /\ outcome = ""

Holds == running = "main"
Free == running = "none"

MSendStart == /\ Holds /\ mpc = "init" /\ sends' = 1
              /\ IF failAt = 1 THEN mpc' = "fail" /\ UNCHANGED running ELSE mpc' = "spawn" /\ running' = "none"
              /\ UNCHANGED <<n, raiseAt, failAt, wpc, clientClosed, discDelivered, wCancelReq, rsStarted, rsFinished, cur, produced, begun, closed, released, mexc, sfail, delivered, finalSent, outcome>>
MSpawn == /\ Free /\ mpc = "spawn" /\ wpc' = "ready" /\ mpc' = "top" /\ running' = "main"
          /\ UNCHANGED <<n, raiseAt, failAt, sends, sfail, clientClosed, discDelivered, wCancelReq, rsStarted, rsFinished, cur, produced, begun, closed, released,
                         delivered, finalSent, mexc, outcome>>
\* while not self._client_closed: chunk = await generator.asend(None) -> the user's __anext__ is awaited (may suspend)
MTop == /\ Holds /\ mpc = "top"
        /\ IF clientClosed THEN mpc' = "fin" /\ UNCHANGED <<rsStarted, begun, running>>
           ELSE mpc' = "anext" /\ rsStarted' = TRUE /\ begun' = TRUE /\ running' = "none"
        /\ UNCHANGED <<n, raiseAt, failAt, sends, sfail, wpc, clientClosed, discDelivered, wCancelReq, rsFinished, cur, produced, closed, released,
                       delivered, finalSent, mexc, outcome>>
\* the producer yields its next item ...
MItem == /\ Free /\ mpc = "anext" /\ produced < n /\ raiseAt # produced + 1
         /\ produced' = produced + 1 /\ cur' = produced + 1 /\ mpc' = "yield" /\ running' = "main"
         /\ UNCHANGED <<n, raiseAt, failAt, sends, sfail, wpc, clientClosed, discDelivered, wCancelReq, rsStarted, rsFinished, begun, closed, released,
                        delivered, finalSent, mexc, outcome>>
\* ... or finishes: its own cleanup has run; render_stream's finally then calls aclose() on it (nothing left to run)
MEnd == /\ Free /\ mpc = "anext" /\ produced = n /\ raiseAt = 0
        /\ closed' = closed + 1 /\ mpc' = "release" /\ running' = "main"
        /\ UNCHANGED <<n, raiseAt, failAt, sends, sfail, wpc, clientClosed, discDelivered, wCancelReq, rsStarted, rsFinished, cur, produced, begun, released,
                       delivered, finalSent, mexc, outcome>>
\* ... or raises: its cleanup has run, the exception passes through render_stream's finally
MProducerRaise == /\ Free /\ mpc = "anext" /\ raiseAt = produced + 1
                  /\ closed' = closed + 1 /\ mexc' = TRUE /\ mpc' = "release" /\ running' = "main"
                  /\ UNCHANGED <<n, raiseAt, failAt, sends, sfail, wpc, clientClosed, discDelivered, wCancelReq, rsStarted, rsFinished, cur, produced, begun, released,
                                 delivered, finalSent, outcome>>
\* render_stream's finally: await iterable.aclose() (a generator suspended at a yield runs its cleanup now)
GenSuspended == begun /\ closed = 0
\* ("release": reached from inside asend, __call__'s finally follows; "release2": reached from __call__'s finally through generator.aclose())
MRelease == /\ Holds /\ mpc \in {"release", "release2"}
            /\ released' = TRUE /\ rsFinished' = TRUE
            /\ closed' = IF GenSuspended THEN closed + 1 ELSE closed
            /\ mpc' = IF mpc = "release" THEN "fin" ELSE "fin2"
            /\ UNCHANGED <<n, raiseAt, failAt, sends, sfail, running, wpc, clientClosed, discDelivered, wCancelReq, rsStarted, cur, produced, begun,
                           delivered, finalSent, mexc, outcome>>
MSendBody == /\ Holds /\ mpc = "yield" /\ sends' = sends + 1
             /\ IF failAt = sends + 1 THEN sfail' = TRUE /\ mpc' = "fin" /\ UNCHANGED <<running, delivered>>     \* send() raises inside the try
                ELSE delivered' = Append(delivered, cur) /\ mpc' = "sent" /\ running' = "none" /\ UNCHANGED sfail
             /\ UNCHANGED <<n, raiseAt, failAt, wpc, clientClosed, discDelivered, wCancelReq, rsStarted, rsFinished, cur, produced, begun, closed, released, mexc, finalSent, outcome>>
MSent == /\ Free /\ mpc = "sent" /\ mpc' = "top" /\ running' = "main"
         /\ UNCHANGED <<n, raiseAt, failAt, sends, sfail, wpc, clientClosed, discDelivered, wCancelReq, rsStarted, rsFinished, cur, produced, begun, closed, released,
                        delivered, finalSent, mexc, outcome>>
\* finally of __call__: cancel the watcher ...
MFin == /\ Holds /\ mpc = "fin"
        /\ wCancelReq' = (wpc # "done")
        /\ mpc' = IF rsStarted /\ ~rsFinished THEN "release2" ELSE "fin2"     \* ... and aclose render_stream if it is suspended at its yield
        /\ UNCHANGED <<n, raiseAt, failAt, sends, sfail, running, wpc, clientClosed, discDelivered, rsStarted, rsFinished, cur, produced, begun, closed, released,
                       delivered, finalSent, mexc, outcome>>
MRaise == /\ Holds /\ mpc = "fin2" /\ mexc
          /\ outcome' = "raised" /\ mpc' = "done" /\ running' = "none"
          /\ UNCHANGED <<n, raiseAt, failAt, sends, sfail, wpc, clientClosed, discDelivered, wCancelReq, rsStarted, rsFinished, cur, produced, begun, closed, released,
                         delivered, finalSent, mexc>>
MSendFinal == /\ Holds /\ mpc = "fin2" /\ ~mexc /\ ~sfail /\ sends' = sends + 1
              /\ IF failAt = sends + 1 THEN mpc' = "fail" /\ UNCHANGED <<running, finalSent>>
                 ELSE finalSent' = TRUE /\ mpc' = "ret" /\ running' = "none"
              /\ UNCHANGED <<n, raiseAt, failAt, wpc, clientClosed, discDelivered, wCancelReq, rsStarted, rsFinished, cur, produced, begun, closed, released, mexc, sfail, delivered, outcome>>
MSendFailed == /\ Holds /\ (mpc = "fail" \/ (mpc = "fin2" /\ ~mexc /\ sfail))
               /\ outcome' = "sendfailed" /\ mpc' = "done" /\ running' = "none"
               /\ UNCHANGED <<n, raiseAt, failAt, wpc, clientClosed, discDelivered, wCancelReq, rsStarted, rsFinished, cur, produced, begun, closed, released, mexc, sends, sfail, delivered, finalSent>>
MReturn == /\ Free /\ mpc = "ret" /\ outcome' = "returned" /\ mpc' = "done"
           /\ UNCHANGED <<n, raiseAt, failAt, sends, sfail, running, wpc, clientClosed, discDelivered, wCancelReq, rsStarted, rsFinished, cur, produced, begun, closed, released,
                          delivered, finalSent, mexc>>

WStart == /\ Free /\ wpc = "ready" /\ wpc' = (IF wCancelReq THEN "done" ELSE "recv")
          /\ UNCHANGED <<n, raiseAt, failAt, sends, sfail, running, mpc, clientClosed, discDelivered, wCancelReq, rsStarted, rsFinished, cur, produced, begun, closed, released,
                         delivered, finalSent, mexc, outcome>>
WDisc == /\ Free /\ wpc = "recv" /\ ~wCancelReq
         /\ clientClosed' = TRUE /\ discDelivered' = TRUE /\ wpc' = "done"
         /\ UNCHANGED <<n, raiseAt, failAt, sends, sfail, running, mpc, wCancelReq, rsStarted, rsFinished, cur, produced, begun, closed, released,
                        delivered, finalSent, mexc, outcome>>
WCancelled == /\ Free /\ wpc = "recv" /\ wCancelReq /\ wpc' = "done"
              /\ UNCHANGED <<n, raiseAt, failAt, sends, sfail, running, mpc, clientClosed, discDelivered, wCancelReq, rsStarted, rsFinished, cur, produced, begun, closed, released,
                             delivered, finalSent, mexc, outcome>>

Next == MSendStart \/ MSpawn \/ MTop \/ MItem \/ MEnd \/ MProducerRaise \/ MRelease \/ MSendBody \/ MSent \/ MFin \/ MRaise \/ MSendFinal \/ MSendFailed \/ MReturn
        \/ WStart \/ WDisc \/ WCancelled
Spec == Init /\ [][Next]_vars
FairSpec == Spec /\ WF_vars(MSendStart \/ MSpawn \/ MTop \/ MItem \/ MEnd \/ MProducerRaise \/ MRelease \/ MSendBody \/ MSent \/ MFin \/ MRaise \/ MSendFinal \/ MSendFailed \/ MReturn)
                 /\ WF_vars(WStart \/ WCancelled)

RECURSIVE Iota(_)
Iota(k) == IF k = 0 THEN <<>> ELSE Append(Iota(k - 1), k)
IsPrefix(a, b) == Len(a) <= Len(b) /\ SubSeq(b, 1, Len(a)) = a
AllDone == mpc = "done" /\ wpc \in {"none", "done"}
DeliveredInOrder == IsPrefix(delivered, Iota(produced))
ClosedOnce == closed <= 1
Settled == AllDone => ((begun => closed = 1) /\ (rsStarted => released))
CompleteWhenUndisturbed == (outcome = "returned" /\ ~discDelivered) => (delivered = Iota(n) /\ finalSent /\ raiseAt = 0)
RaisedIsReported == (mpc = "done" /\ mexc) => outcome = "raised"
RaisedOnlyIfProducerRaised == outcome = "raised" => mexc
SendFailureReported == (mpc = "done" /\ (sfail \/ (failAt # 0 /\ sends >= failAt))) => outcome \in {"sendfailed", "raised"}
NothingAfterFailure == sends <= (IF failAt = 0 THEN sends ELSE failAt)
Terminates == <>[]AllDone
\* after the disconnect the call needs at most the producer's next step
ReturnsAfterNextStep == clientClosed ~> mpc = "done"
==========================================================================
