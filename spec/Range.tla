------------------------------ MODULE Range ------------------------------
(***************************************************************************)
(* baize/responses.py : FileResponseMixin.parse_range(header, size)        *)
(*                                                                         *)
(* Input: the file size and the list of range-specs of a `bytes=` header:  *)
(*   [k |-> "fl",   a |-> first, b |-> last]     first-last                *)
(*   [k |-> "from", a |-> first, b |-> 0]        first-                    *)
(*   [k |-> "suf",  a |-> 0,     b |-> n]        -n                        *)
(* Mechanism: the code's pipeline, one action per stage -                  *)
(*   Extract    start/end arithmetic with clipping (half-open ranges)      *)
(*   CheckSat   any start outside [0, size)            -> 416              *)
(*   CheckOrder any start >= end                       -> 400              *)
(*   Sort       ranges.sort()                                              *)
(*   MergeStep  one loop iteration: extend the last result or append       *)
(* The constant Fixed selects the repaired mechanism (TRUE, what the code  *)
(* does now) or the original one (FALSE: `start > end` test, insertion     *)
(* loop that merges into the first overlapping neighbour only); the        *)
(* original one is kept as a standing witness that the invariants can fail.*)
(***************************************************************************)
EXTENDS RangeOps

CONSTANTS MaxSize, MaxNum, MaxSpecs, Fixed

VARIABLES size, specs, pc, ranges, result, idx, outcome
vars == <<size, specs, pc, ranges, result, idx, outcome>>

Nums == 0..MaxNum
SpecSet == [k : {"fl"}, a : Nums, b : Nums] \cup [k : {"from"}, a : Nums, b : {0}] \cup [k : {"suf"}, a : {0}, b : Nums]
SeqsUpTo(S, n) == UNION {[1..m -> S] : m \in 1..n}

\* ---------------------------------------------------------------- property level
AnyMalformed == \E i \in 1..Len(specs) : Malformed(specs[i])
AnyUnsat == \E i \in 1..Len(specs) : Unsat(specs[i], size)
Allowed == (IF AnyMalformed THEN {"400"} ELSE {}) \cup (IF AnyUnsat THEN {"416"} ELSE {})
           \cup (IF ~AnyMalformed /\ ~AnyUnsat THEN {"ok"} ELSE {})

InResult(p) == \E i \in 1..Len(result) : result[i][1] <= p /\ p < result[i][2]
InSpecs(p) == \E i \in 1..Len(specs) : InDenote(specs[i], size, p)

\* membership in a finite union of intervals is piecewise constant between interval end points,
\* so agreement on these critical points is agreement everywhere (also for huge numbers)
Critical ==
  UNION { {result[i][1] - 1, result[i][1], result[i][2] - 1, result[i][2]} : i \in 1..Len(result) }
  \cup UNION { {specs[i].a - 1, specs[i].a, specs[i].b, specs[i].b + 1, size - specs[i].b - 1, size - specs[i].b} : i \in 1..Len(specs) }
  \cup {0, size - 1, size}

Done == pc = "done"
Classify == Done => outcome \in Allowed
CanonicalOut == (Done /\ outcome = "ok") =>
  /\ Len(result) >= 1
  /\ \A i \in 1..Len(result) : 0 <= result[i][1] /\ result[i][1] < result[i][2] /\ result[i][2] <= size
  /\ \A i \in 1..(Len(result) - 1) : result[i][2] < result[i + 1][1]     \* ascending, disjoint, not adjacent
ExactUnion == (Done /\ outcome = "ok") => \A p \in Critical : InResult(p) <=> InSpecs(p)
Rejected == (Done /\ outcome # "ok") => result = <<>>

\* ---------------------------------------------------------------- mechanism
Extracted(s) == ExtractedOf(s, size)

Init == /\ size \in 0..MaxSize
        /\ specs \in SeqsUpTo(SpecSet, MaxSpecs)
        /\ pc = "extract" /\ ranges = <<>> /\ result = <<>> /\ idx = 1 /\ outcome = "none"

Extract == /\ pc = "extract"
           /\ ranges' = [i \in 1..Len(specs) |-> Extracted(specs[i])]
           /\ pc' = "sat"
           /\ UNCHANGED <<size, specs, result, idx, outcome>>

CheckSat == /\ pc = "sat"
            /\ IF \E i \in 1..Len(ranges) : ~(0 <= ranges[i][1] /\ ranges[i][1] < size)
                 THEN pc' = "done" /\ outcome' = "416"
                 ELSE pc' = "order" /\ UNCHANGED outcome
            /\ UNCHANGED <<size, specs, ranges, result, idx>>

CheckOrder == /\ pc = "order"
              /\ IF \E i \in 1..Len(ranges) : (IF Fixed THEN ranges[i][1] >= ranges[i][2] ELSE ranges[i][1] > ranges[i][2])
                   THEN pc' = "done" /\ outcome' = "400" /\ UNCHANGED result
                   ELSE IF Len(ranges) = 1
                     THEN pc' = "done" /\ outcome' = "ok" /\ result' = ranges
                     ELSE pc' = (IF Fixed THEN "sort" ELSE "merge") /\ UNCHANGED <<outcome, result>>
              /\ UNCHANGED <<size, specs, ranges, idx>>

Sort == /\ pc = "sort"
        /\ ranges' = SortSeq(ranges)
        /\ pc' = "merge"
        /\ UNCHANGED <<size, specs, result, idx, outcome>>

MergeStep == /\ pc = "merge"
             /\ IF idx <= Len(ranges)
                  THEN /\ result' = IF Fixed THEN MergeFixed(result, ranges[idx]) ELSE MergeOrig(result, ranges[idx], 1)
                       /\ idx' = idx + 1
                       /\ UNCHANGED <<pc, outcome>>
                  ELSE /\ pc' = "done" /\ outcome' = "ok"
                       /\ UNCHANGED <<result, idx>>
             /\ UNCHANGED <<size, specs, ranges>>

Next == Extract \/ CheckSat \/ CheckOrder \/ Sort \/ MergeStep
Spec == Init /\ [][Next]_vars
==========================================================================
