------------------------------ MODULE Mount ------------------------------
(***************************************************************************)
(* baize/routing.py BaseSubpaths.search + */routing.py Subpaths.__call__   *)
(*                                                                         *)
(* A request (root, path) walks down a tree of mount tables.  Paths and    *)
(* prefixes are sequences of symbols ("/" and letters), so that "/ab" and  *)
(* "/a/b" and "/a" are different prefixes that are prefixes of each other  *)
(* as strings - the segment-boundary rule is about exactly that.           *)
(*   Descend : first entry whose prefix equals the path or is followed by  *)
(*             "/" in it; root' = root + prefix; path' = path - prefix     *)
(*   NotFound: no entry matches -> 404, request untouched                  *)
(*   Arrive  : a leaf application sees (root, path)                        *)
(***************************************************************************)
EXTENDS Naturals, Sequences, FiniteSets

CONSTANTS Tables,    \* SEQUENCE of mount trees: node = [kind |-> "mount", table |-> Seq([prefix, child])] | [kind |-> "leaf"]
          Paths,     \* set of request paths (symbol sequences)
          Roots      \* set of initial root paths

VARIABLES root, path, trail, result, root0, path0, tree   \* tree: index into Tables
vars == <<root, path, trail, result, root0, path0, tree>>

\* the node the request is currently at: follow the trail of selected entries
RECURSIVE NodeAt(_, _)
NodeAt(n, tr) == IF tr = <<>> THEN n ELSE NodeAt(n.table[tr[1]].child, Tail(tr))
\* (TLC re-evaluates a constant bound with `<-` at every reference; a zero-arity alias is evaluated once)
TheTables == Tables
node == NodeAt(TheTables[tree], trail)

IsPrefixAt(p, s) == Len(s) >= Len(p) /\ SubSeq(s, 1, Len(p)) = p
\* the code: path.startswith(prefix + "/") or path == prefix
Match(p, s) == s = p \/ (IsPrefixAt(p, s) /\ Len(s) > Len(p) /\ s[Len(p) + 1] = "/")
MinOf(S) == CHOOSE x \in S : \A y \in S : x <= y
First(t, s) == LET S == {i \in 1..Len(t) : Match(t[i].prefix, s)} IN IF S = {} THEN 0 ELSE MinOf(S)

Init == /\ tree \in 1..Len(Tables)
        /\ path0 \in Paths /\ path = path0
        /\ root0 \in Roots /\ root = root0
        /\ trail = <<>> /\ result = "walking"

Descend == /\ result = "walking" /\ node.kind = "mount"
           /\ LET i == First(node.table, path) IN
              /\ i > 0
              /\ root' = root \o node.table[i].prefix
              /\ path' = SubSeq(path, Len(node.table[i].prefix) + 1, Len(path))
              /\ trail' = Append(trail, i)
           /\ UNCHANGED <<result, root0, path0, tree>>

NotFound == /\ result = "walking" /\ node.kind = "mount"
            /\ First(node.table, path) = 0
            /\ result' = "404"
            /\ UNCHANGED <<root, path, trail, root0, path0, tree>>

Arrive == /\ result = "walking" /\ node.kind = "leaf"
          /\ result' = "leaf"
          /\ UNCHANGED <<root, path, trail, root0, path0, tree>>

Next == Descend \/ NotFound \/ Arrive
Spec == Init /\ [][Next]_vars

\* ------------------------------------------------------------- properties
\* root path + path is unchanged, whatever the nesting
Preserved == root \o path = root0 \o path0

\* dispatch happens on a segment boundary: what is left is empty or starts with "/"
\* (so "/ab" is never handed to the "/a" entry)
Boundary == [][trail' # trail => (path' = <<>> \/ path'[1] = "/")]_vars

\* the selected entry is the first one that qualifies by the statement's own wording
Qualifies(p, s) == IsPrefixAt(p, s) /\ (Len(s) = Len(p) \/ s[Len(p) + 1] = "/")
FirstMatch == [][trail' # trail =>
                  LET i == trail'[Len(trail')] IN
                  /\ Qualifies(node.table[i].prefix, path)
                  /\ \A j \in 1..(i - 1) : ~Qualifies(node.table[j].prefix, path)]_vars

\* 404 exactly when nothing qualifies, and then the request is untouched by that mount
NotFoundOnlyIfNone == [][result' = "404" =>
                           /\ \A j \in 1..Len(node.table) : ~Qualifies(node.table[j].prefix, path)
                           /\ root' = root /\ path' = path]_vars

\* the "" default entry catches everything that is empty or starts with "/"
DefaultEntry == (result = "404" /\ (path = <<>> \/ path[1] = "/")) =>
                   \A j \in 1..Len(node.table) : node.table[j].prefix # <<>>
==========================================================================
