------------------------- MODULE TraceStreamAsgi -------------------------
(* Trace validation for StreamAsgi.tla: TRACE_FILE = [{c: scenario, events: [{e, i, t, x}, ...]}, ...] *)
EXTENDS StreamAsgi, Json, IOUtils, TLC, TLCExt

Traces == JsonDeserialize(IOEnv.TRACE_FILE)
NTraces == Len(Traces)
VARIABLES tid, l
tvars == <<c, now, yielded, delivered, pingsSent, finalSent, closedCount, closedAt, returned, retAt, retExc, discSeen, begun, discAt, released, tid, l>>
ASSUME \A i \in 1..NTraces : TLCSet(100 + i, 0)
T == Traces[tid]
Ev == T.events[l]

TraceInit == /\ tid \in 1..NTraces /\ l = 1 /\ Start(Traces[tid].c)

Step(name, A) == l <= Len(T.events) /\ Ev.e = name /\ A /\ l' = l + 1 /\ UNCHANGED tid

TraceNext == \/ Step("begin", Begin(Ev.t))
             \/ Step("yield", Yield(Ev.i, Ev.t))
             \/ Step("body", Body(Ev.i, Ev.t))
             \/ Step("ping", Ping(Ev.t))
             \/ Step("disc", Disc(Ev.t))
             \/ Step("final", Final(Ev.t))
             \/ Step("closed", Closed(Ev.t))
             \/ Step("release", Release(Ev.t))
             \/ Step("return", Return(Ev.t, Ev.x))
             \/ Step("settled", Settled(Ev.i))
TraceSpec == TraceInit /\ [][TraceNext]_tvars

Progress == IF l - 1 > TLCGet(100 + tid) THEN TLCSet(100 + tid, l - 1) ELSE TRUE
Post == JsonSerialize(IOEnv.PREFIX_FILE, [i \in 1..NTraces |-> TLCGet(100 + i)])
==========================================================================
