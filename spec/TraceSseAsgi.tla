--------------------------- MODULE TraceSseAsgi ---------------------------
(***************************************************************************)
(* Trace validation for SseAsgi.tla.  An execution of the real ASGI        *)
(* SendEventResponse under the virtual-time loop is logged from outside    *)
(* (the `asyncio` name inside baize.asgi.responses is a proxy: queue       *)
(* operations, task creation and cancellation, wait_for time-outs; the     *)
(* user's iterable and the server callables log their own events).         *)
(* TRACE_FILE: JSON array of {n, raiseAt, events: [{e, x, r}, ...]}.        *)
(* One logged event = one action of SseAsgi.tla, with its arguments bound; *)
(* the few steps that log nothing (loop tests, task start-up, a cancelled  *)
(* task that never ran) are silent actions of the trace spec.              *)
(***************************************************************************)
EXTENDS SseAsgi, Json, IOUtils, TLC, TLCExt

Traces == JsonDeserialize(IOEnv.TRACE_FILE)
NTraces == Len(Traces)
VARIABLES tid, l
tvars == <<vars, tid, l>>
ASSUME \A i \in 1..NTraces : TLCSet(100 + i, 0)
T == Traces[tid]
E == T.events[l]

TraceInit == /\ tid \in 1..NTraces /\ l = 1
             /\ Init /\ n = T.n /\ raiseAt = T.raiseAt /\ failAt = T.failAt

Ev(name) == l <= Len(T.events) /\ E.e = name /\ l' = l + 1 /\ UNCHANGED tid
Silent == UNCHANGED <<tid, l>>

TraceNext ==
  \* ---- main
  \/ (Ev("send_start") /\ MSendStart /\ failAt # 1)
  \/ (Ev("send_fail") /\ MSendStart /\ failAt = 1)
  \/ (Ev("send_fail") /\ MSendBody /\ failAt = sends + 1)
  \/ (Ev("send_fail") /\ MSendFinal /\ failAt = sends + 1)
  \/ (Ev("sendfailed") /\ MSendFailed)
  \/ (Ev("spawn_wait") /\ MSpawn)
  \/ (Ev("spawn_push") /\ MTop /\ ~rsStarted /\ rsStarted')
  \/ (Silent /\ MTop /\ rsStarted)
  \/ (Silent /\ MTop /\ ~rsStarted /\ clientClosed)
  \/ (Ev("get_wait") /\ MLoop /\ mpc' = "waitGet")
  \/ (Ev("get") /\ (MLoop \/ MWake) /\ q # <<>> /\ Head(q) = E.x)
  \/ (Silent /\ MLoop /\ ppc = "done" /\ q = <<>>)
  \/ (Ev("timeout") /\ MTimeout)
  \/ (Ev("send_body") /\ MSendBody /\ cur = E.x /\ cur # Ping /\ failAt # sends + 1)
  \/ (Ev("send_ping") /\ MSendBody /\ cur = Ping /\ failAt # sends + 1)
  \/ (Silent /\ MSent)
  \/ (Ev("cancel_push") /\ MRsFin /\ E.r = (ppc # "done") /\ E.x = Len(q'))
  \/ (Ev("cancel_wait") /\ MFin)
  \/ (Ev("cancel_push") /\ MAclose /\ rsStarted /\ ~rsFinished /\ E.r = (ppc # "done") /\ E.x = Len(q'))
  \/ (Silent /\ MAclose /\ ~(rsStarted /\ ~rsFinished))
  \/ (Ev("send_final") /\ MSendFinal /\ failAt # sends + 1)
  \/ (Ev("return") /\ MReturn)
  \/ (Ev("raise") /\ MRaise)
  \* ---- push
  \/ (Ev("aiter") /\ PStart /\ ~cancelReq)
  \/ (Silent /\ PStart /\ cancelReq)
  \/ (Ev("anext") /\ PCheck /\ ~shouldStop)
  \/ (Silent /\ PCheck /\ shouldStop)
  \/ (Ev("item") /\ PItem /\ produced' = E.x)
  \/ (Ev("closed") /\ E.r = "end" /\ PEnd)
  \/ (Ev("closed") /\ E.r = "raise" /\ PRaise)
  \/ (Ev("closed") /\ E.r = "cancel" /\ PCancelAnext)
  \/ (Ev("put_wait") /\ E.x # None /\ PPut /\ ppc' = "putWait" /\ pending = E.x)
  \/ (Ev("put_wait") /\ E.x = None /\ PFinally /\ ppc' = "noneWait")
  \/ (Ev("put") /\ E.x # None /\ (PPut \/ PPutWake) /\ ppc' = "check" /\ pending = E.x)
  \/ (Ev("put") /\ E.x = None /\ (PFinally \/ PNoneWake) /\ ppc' = "aclose")
  \/ (Ev("put_cancelled") /\ E.x # None /\ PCancelPut)
  \/ (Ev("put_cancelled") /\ E.x = None /\ PCancelNone)
  \/ (Ev("release") /\ PAclose /\ E.r = GenSuspended)
  \* ---- watcher
  \/ (Silent /\ WStart)
  \/ (Ev("disc") /\ WDisc)
  \/ (Silent /\ WCancelled)

TraceSpec == TraceInit /\ [][TraceNext]_tvars

Progress == IF l - 1 > TLCGet(100 + tid) THEN TLCSet(100 + tid, l - 1) ELSE TRUE
Post == JsonSerialize(IOEnv.PREFIX_FILE, [i \in 1..NTraces |-> TLCGet(100 + i)])
==========================================================================
