----------------------------- MODULE StreamWsgi -----------------------------
(***************************************************************************)
(* baize/wsgi/responses.py : StreamingResponse.__call__ / StreamResponse   *)
(* (`yield from self.iterable`): the plain, thread-free WSGI stream.       *)
(* The server pulls items with next() and may call close() at any point;   *)
(* closing the response generator must close the user's generator at once  *)
(* (generator delegation), so that its cleanup runs exactly once.          *)
(***************************************************************************)
EXTENDS Naturals, Sequences

CONSTANTS MaxN

VARIABLES n, raiseAt,      \* the user's generator: n items, raises instead of item raiseAt (0 = never)
          pos,             \* items delivered
          gen,             \* "unstarted" | "suspended" | "finished"
          cleaned,         \* how often the generator's cleanup ran
          outcome          \* "open" | "exhausted" | "closed" | "raised"
vars == <<n, raiseAt, pos, gen, cleaned, outcome>>

Init == /\ n \in 0..MaxN /\ raiseAt \in 0..(n + 1) /\ pos = 0 /\ gen = "unstarted" /\ cleaned = 0 /\ outcome = "open"

\* next(): start_response at the first call, then the next item / StopIteration / the producer's exception
SrvNext == /\ outcome = "open"
           /\ IF raiseAt = pos + 1 THEN gen' = "finished" /\ cleaned' = cleaned + 1 /\ outcome' = "raised" /\ UNCHANGED pos
              ELSE IF pos < n THEN pos' = pos + 1 /\ gen' = "suspended" /\ UNCHANGED <<cleaned, outcome>>
              ELSE gen' = "finished" /\ cleaned' = cleaned + 1 /\ outcome' = "exhausted" /\ UNCHANGED pos
           /\ UNCHANGED <<n, raiseAt>>

\* close(): GeneratorExit travels through `yield from` into the user's generator
SrvClose == /\ outcome = "open"
            /\ outcome' = "closed"
            /\ IF gen = "suspended" THEN gen' = "finished" /\ cleaned' = cleaned + 1 ELSE UNCHANGED <<gen, cleaned>>
            /\ UNCHANGED <<n, raiseAt, pos>>

Next == SrvNext \/ SrvClose
Spec == Init /\ [][Next]_vars

ClosedOnce == cleaned <= 1 /\ (outcome # "open" => (gen # "suspended" /\ (gen = "finished" => cleaned = 1)))
InOrder == pos <= n
==========================================================================
