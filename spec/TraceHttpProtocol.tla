------------------------ MODULE TraceHttpProtocol ------------------------
(***************************************************************************)
(* Every response executed anywhere in the harness has its raw send()      *)
(* messages / start_response calls + yielded items logged; each recorded   *)
(* sequence must be accepted, event by event, by the protocol recogniser   *)
(* of HttpProtocol.tla, and must be complete when the call ended normally. *)
(* Trace: {iface, ended, events: [{k, ok, more, empty}, ...]}              *)
(***************************************************************************)
EXTENDS HttpProtocol, Json, IOUtils, TLC, TLCExt

Traces == JsonDeserialize(IOEnv.TRACE_FILE)
NTraces == Len(Traces)
VARIABLES tid, l, q
tvars == <<iface, plan, fault, sent, pc, ended, tid, l, q>>
ASSUME \A i \in 1..NTraces : TLCSet(100 + i, 0)
T == Traces[tid]

TraceInit == /\ tid \in 1..NTraces /\ l = 1 /\ q = "init"
             /\ iface = T.iface /\ plan = 0 /\ fault = [kind |-> "none", at |-> 0]
             /\ sent = <<>> /\ pc = "start" /\ ended = T.ended

\* consume one recorded event if the recogniser accepts it
Consume == /\ l <= Len(T.events)
           /\ LET e == T.events[l]
                  q2 == IF iface = "asgi" THEN AsgiStep(q, e) ELSE WsgiStep(q, e) IN
              /\ q2 # "bad"
              /\ q' = q2 /\ sent' = Append(sent, e)
           /\ l' = l + 1
           /\ UNCHANGED <<iface, plan, fault, pc, ended, tid>>

\* the end marker is one more "event": a normally ended call must have emitted a complete sequence
Finish == /\ l = Len(T.events) + 1
          /\ (ended = "returned" => q = (IF iface = "asgi" THEN "complete" ELSE "started"))
          /\ l' = l + 1
          /\ UNCHANGED <<iface, plan, fault, sent, pc, ended, tid, q>>

TraceNext == Consume \/ Finish
TraceSpec == TraceInit /\ [][TraceNext]_tvars

Progress == IF l - 1 > TLCGet(100 + tid) THEN TLCSet(100 + tid, l - 1) ELSE TRUE
Post == JsonSerialize(IOEnv.PREFIX_FILE, [i \in 1..NTraces |-> TLCGet(100 + i)])
==========================================================================
