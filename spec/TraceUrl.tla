----------------------------- MODULE TraceUrl -----------------------------
(***************************************************************************)
(* Trace validation for Url.tla: chains of replace() calls on one URL      *)
(* (the exhaustive model applies a single replace to every base URL; a     *)
(* chain feeds every result back in: brackets, userinfo and default ports  *)
(* that one edit produces are the input of the next).                      *)
(* TRACE_FILE: JSON array of {init: components, events: [{kw: {component:  *)
(* new value}, out: components observed on the result}, ...]} with the     *)
(* module's tokens ("none" = absent); one event per replace() call, logged *)
(* at its return.                                                          *)
(* The module's variables are reused: url = the URL the call was made on,  *)
(* edit = its keyword arguments, out = the OBSERVED result.  Strict=FALSE: *)
(* the invariant TReplaced (ReplacedExactly without its "something         *)
(* changed" guard) judges every observed step; Strict=TRUE: the result     *)
(* must be Replace(url, edit) itself.                                      *)
(***************************************************************************)
EXTENDS Url, Json, IOUtils, TLC, TLCExt

CONSTANT Strict

Traces == JsonDeserialize(IOEnv.TRACE_FILE)
NTraces == Len(Traces)

VARIABLES tid, l
tvars == <<vars, tid, l>>

ASSUME \A i \in 1..NTraces : TLCSet(100 + i, 0)

T == Traces[tid]
Ev == T.events[l]

TraceInit == /\ tid \in 1..NTraces /\ l = 1
             /\ mode = "edit" /\ url = Traces[tid].init /\ out = url /\ edit = <<>>
             /\ inp = [scheme |-> None, server |-> <<None, None>>, hostHeader |-> None, root |-> None, path |-> None, query |-> None]

TStep == /\ l <= Len(T.events)
         /\ url' = out /\ edit' = Ev.kw /\ out' = Ev.out
         /\ Strict => Ev.out = Replace(out, Ev.kw)
         /\ l' = l + 1 /\ UNCHANGED <<mode, inp, tid>>

TraceSpec == TraceInit /\ [][TStep]_tvars

TReplaced == (l > 1) =>
   /\ \A k \in DOMAIN edit \ {"password", "user"} : out[k] = edit[k]
   /\ \A k \in {"scheme", "host", "port", "path", "query", "fragment"} \ DOMAIN edit : out[k] = url[k]
   /\ (out.password # None => out.user # None)
   /\ ("user" \in DOMAIN edit => out.user = edit["user"])
   /\ (("user" \in DOMAIN edit /\ edit["user"] = None) => out.password = None)
   /\ ("user" \notin DOMAIN edit => out.user = url.user)
   /\ (("password" \in DOMAIN edit /\ out.user # None) => out.password = edit["password"])
   /\ (("password" \notin DOMAIN edit /\ "user" \notin DOMAIN edit) => out.password = url.password)

Progress == IF l - 1 > TLCGet(100 + tid) THEN TLCSet(100 + tid, l - 1) ELSE TRUE
Post == JsonSerialize(IOEnv.PREFIX_FILE, [i \in 1..NTraces |-> TLCGet(100 + i)])
==========================================================================
