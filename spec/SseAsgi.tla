------------------------------ MODULE SseAsgi ------------------------------
(***************************************************************************)
(* baize/asgi/responses.py: StreamingResponse.__call__ + wait_close and     *)
(* SendEventResponse.render_stream / push - the THREE asyncio tasks of an  *)
(* ASGI event stream at task level (StreamAsgi.tla is the timed property   *)
(* automaton over the externally visible events; this module is the        *)
(* mechanism).                                                             *)
(*                                                                         *)
(*   main   : send start; spawn the watcher; loop { stop if the client     *)
(*            closed; asend -> render_stream: wait_for(q.get(), ping) ->   *)
(*            event | None | timeout(ping); send body }; finally: cancel   *)
(*            the watcher, aclose render_stream (its finally: should_stop, *)
(*            drain q, cancel push or re-raise its exception); final body  *)
(*   push   : loop { item = await anext(user iterable); await q.put(item) }*)
(*            finally: await q.put(None); aclose the user's iterable       *)
(*   watcher: await receive() until http.disconnect -> _client_closed      *)
(*                                                                         *)
(* asyncio is cooperative: a task runs from one suspension to the next     *)
(* without interference.  `running` is the task that holds the thread;     *)
(* it is released ("none") exactly at the awaits that can suspend:         *)
(* send(), q.get() on an empty queue, anext(), q.put() on a full queue,    *)
(* receive().  Which ready task runs next is left open (asyncio's FIFO     *)
(* order is one of the choices), as is WHEN timers fire: the ping timeout, *)
(* the producer's delays, the client's disconnect.                         *)
(* One action per logged event (queue operations, sends, generator         *)
(* events, cancellations), so recorded executions are validated step by    *)
(* step (TraceSseAsgi.tla).                                                *)
(***************************************************************************)
EXTENDS Naturals, Sequences, FiniteSets

CONSTANTS MaxN,       \* the user's generator yields 0..MaxN items
          MaxPings,
          MaxFail,    \* scenario: the failAt-th call of send() raises (the server lost the connection), failAt \in 0..MaxFail, 0 = never
          Drain       \* TRUE: render_stream's finally empties the queue before cancelling push (the code); FALSE: it does not (witness:
                      \* push then blocks for ever in its final put)

None == 0             \* the sentinel in the queue (items are 1..N)

VARIABLES failAt, sends, sfail,    \* scenario: which send() raises; send() calls so far; a body send has raised (the exception is in flight)
          n, raiseAt,              \* scenario: number of items; the generator raises INSTEAD of item raiseAt (n+1: instead of finishing; 0: never)
          running,                 \* "none" | "main" | "push" | "wait"
          mpc, ppc, wpc,           \* program counters
          q, shouldStop, clientClosed,
          rsStarted, rsFinished,   \* render_stream: first asend happened / its finally ran
          cur,                     \* what render_stream is about to yield (item or "ping" = MaxN + 1)
          pending,                 \* the item push holds while put() is blocked
          produced, begun, closed, \* user's generator: items yielded, body entered, times its cleanup ran
          released,                \* aclose() was called on the user's iterable
          cancelReq, wCancelReq,   \* Task.cancel() requested for push / watcher (delivered when the task next runs)
          pexc, pcancelled,        \* push ended with the producer's exception / by cancellation
          delivered, pings, finalSent, discDelivered,
          mexc, outcome            \* main holds the producer's exception; "" | "returned" | "raised"
vars == <<n, raiseAt, failAt, sends, sfail, running, mpc, ppc, wpc, q, shouldStop, clientClosed, rsStarted, rsFinished, cur, pending, produced, begun, closed,
          released, cancelReq, wCancelReq, pexc, pcancelled, delivered, pings, finalSent, discDelivered, mexc, outcome>>

Ping == MaxN + 1

Init == /\ n \in 0..MaxN /\ raiseAt \in 0..(MaxN + 1) /\ raiseAt <= n + 1
        /\ failAt \in 0..MaxFail /\ sends = 0 /\ sfail = FALSE
        /\ running = "main" /\ mpc = "init" /\ ppc = "none" /\ wpc = "none"
        /\ q = <<>> /\ shouldStop = FALSE /\ clientClosed = FALSE /\ rsStarted = FALSE /\ rsFinished = FALSE
        /\ cur = 0 /\ pending = 0 /\ produced = 0 /\ begun = FALSE /\ closed = 0 /\ released = FALSE
        /\ cancelReq = FALSE /\ wCancelReq = FALSE /\ pexc = FALSE /\ pcancelled = FALSE
        /\ delivered = <<>> /\ pings = 0 /\ finalSent = FALSE /\ discDelivered = FALSE /\ mexc = FALSE /\ outcome = ""

Holds(t) == running = t
Free == running = "none"

\* ------------------------------------------------------------------ main
MU == <<n, raiseAt, failAt, sends, sfail, ppc, wpc, q, shouldStop, clientClosed, rsStarted, rsFinished, cur, pending, produced, begun, closed, released,
        cancelReq, wCancelReq, pexc, pcancelled, delivered, pings, finalSent, discDelivered, mexc, outcome>>

\* await send(http.response.start)
MSendStart == /\ Holds("main") /\ mpc = "init" /\ sends' = 1
              /\ IF failAt = 1 THEN mpc' = "fail" /\ UNCHANGED running      \* send() raises: the exception leaves __call__ (nothing was started yet)
                 ELSE mpc' = "spawn" /\ running' = "none"
              /\ UNCHANGED <<n, raiseAt, failAt, ppc, wpc, q, shouldStop, clientClosed, rsStarted, rsFinished, cur, pending, produced, begun, closed, released,
                             cancelReq, wCancelReq, pexc, pcancelled, discDelivered, mexc, sfail, delivered, pings, finalSent, outcome>>
\* back from the send: ensure_future(wait_close), generator = render_stream()
MSpawn == /\ Free /\ mpc = "spawn"
          /\ wpc' = "ready" /\ mpc' = "top" /\ running' = "main"
          /\ UNCHANGED <<n, raiseAt, failAt, sends, sfail, ppc, q, shouldStop, clientClosed, rsStarted, rsFinished, cur, pending, produced, begun, closed, released,
                         cancelReq, wCancelReq, pexc, pcancelled, delivered, pings, finalSent, discDelivered, mexc, outcome>>
\* while not self._client_closed: chunk = await generator.asend(None)   (first asend: queue and push task are created)
MTop == /\ Holds("main") /\ mpc = "top"
        /\ IF clientClosed THEN mpc' = "fin" /\ UNCHANGED <<rsStarted, ppc>>
           ELSE /\ mpc' = "loop" /\ rsStarted' = TRUE
                /\ ppc' = IF rsStarted THEN ppc ELSE "ready"
        /\ UNCHANGED <<n, raiseAt, failAt, sends, sfail, running, wpc, q, shouldStop, clientClosed, rsFinished, cur, pending, produced, begun, closed, released,
                       cancelReq, wCancelReq, pexc, pcancelled, delivered, pings, finalSent, discDelivered, mexc, outcome>>
\* while not (push_future.done() and q.empty()): await wait_for(q.get(), ping_interval)
Got(item) == IF item = None THEN mpc' = "rsfin" /\ UNCHANGED cur ELSE mpc' = "yield" /\ cur' = item
MLoop == /\ Holds("main") /\ mpc = "loop"
         /\ IF ppc = "done" /\ q = <<>> THEN mpc' = "rsfin" /\ UNCHANGED <<q, cur, running>>
            ELSE IF q # <<>> THEN Got(Head(q)) /\ q' = Tail(q) /\ UNCHANGED running
            ELSE mpc' = "waitGet" /\ running' = "none" /\ UNCHANGED <<q, cur>>
         /\ UNCHANGED <<n, raiseAt, failAt, sends, sfail, ppc, wpc, shouldStop, clientClosed, rsStarted, rsFinished, pending, produced, begun, closed, released,
                        cancelReq, wCancelReq, pexc, pcancelled, delivered, pings, finalSent, discDelivered, mexc, outcome>>
\* the getter is woken: something was put
MWake == /\ Free /\ mpc = "waitGet" /\ q # <<>>
         /\ Got(Head(q)) /\ q' = Tail(q) /\ running' = "main"
         /\ UNCHANGED <<n, raiseAt, failAt, sends, sfail, ppc, wpc, shouldStop, clientClosed, rsStarted, rsFinished, pending, produced, begun, closed, released,
                        cancelReq, wCancelReq, pexc, pcancelled, delivered, pings, finalSent, discDelivered, mexc, outcome>>
\* the ping timer fires first: TimeoutError -> yield the ping comment (an item put meanwhile stays in the queue)
\* (the model bounds the number of pings, but the timer always gets one more chance once the client has gone)
MTimeout == /\ Free /\ mpc = "waitGet" /\ (pings < MaxPings \/ (clientClosed /\ pings < MaxPings + 1))
            /\ cur' = Ping /\ mpc' = "yield" /\ running' = "main"
            /\ UNCHANGED <<n, raiseAt, failAt, sends, sfail, ppc, wpc, q, shouldStop, clientClosed, rsStarted, rsFinished, pending, produced, begun, closed, released,
                           cancelReq, wCancelReq, pexc, pcancelled, delivered, pings, finalSent, discDelivered, mexc, outcome>>
\* await send(body chunk, more_body=True)
MSendBody == /\ Holds("main") /\ mpc = "yield" /\ sends' = sends + 1
             /\ IF failAt = sends + 1
                  THEN \* send() raises inside the try: __call__'s finally follows (render_stream is suspended at its yield)
                       sfail' = TRUE /\ mpc' = "fin" /\ UNCHANGED <<running, delivered, pings>>
                  ELSE /\ IF cur = Ping THEN pings' = pings + 1 /\ UNCHANGED delivered ELSE delivered' = Append(delivered, cur) /\ UNCHANGED pings
                       /\ mpc' = "sent" /\ running' = "none" /\ UNCHANGED sfail
             /\ UNCHANGED <<n, raiseAt, failAt, ppc, wpc, q, shouldStop, clientClosed, rsStarted, rsFinished, cur, pending, produced, begun, closed, released,
                             cancelReq, wCancelReq, pexc, pcancelled, discDelivered, mexc, finalSent, outcome>>
MSent == /\ Free /\ mpc = "sent" /\ mpc' = "top" /\ running' = "main" /\ UNCHANGED MU

\* render_stream's finally: should_stop = True; drain q; cancel push, or re-raise what it died of.  No await inside: one step.
RsFinally == /\ shouldStop' = TRUE /\ q' = (IF Drain THEN <<>> ELSE q) /\ rsFinished' = TRUE
             /\ IF ppc = "done" THEN mexc' = (pexc /\ ~pcancelled) /\ UNCHANGED cancelReq
                ELSE cancelReq' = TRUE /\ UNCHANGED mexc
\* the loop of render_stream ended (None taken, or push done and queue empty): its finally runs inside asend
MRsFin == /\ Holds("main") /\ mpc = "rsfin"
          /\ RsFinally /\ mpc' = "fin"
          /\ UNCHANGED <<n, raiseAt, failAt, sends, sfail, running, ppc, wpc, clientClosed, rsStarted, cur, pending, produced, begun, closed, released,
                         wCancelReq, pexc, pcancelled, delivered, pings, finalSent, discDelivered, outcome>>
\* finally of __call__: wait_close_future.cancel() ...
MFin == /\ Holds("main") /\ mpc = "fin"
        /\ wCancelReq' = (wpc # "done") /\ mpc' = "aclose"
        /\ UNCHANGED <<n, raiseAt, failAt, sends, sfail, running, ppc, wpc, q, shouldStop, clientClosed, rsStarted, rsFinished, cur, pending, produced, begun, closed, released,
                       cancelReq, pexc, pcancelled, delivered, pings, finalSent, discDelivered, mexc, outcome>>
\* ... await generator.aclose(): render_stream's finally runs now if it is suspended at a yield (nothing to do if it finished or never started)
MAclose == /\ Holds("main") /\ mpc = "aclose"
           /\ IF rsStarted /\ ~rsFinished THEN RsFinally ELSE UNCHANGED <<shouldStop, q, rsFinished, mexc, cancelReq>>
           /\ mpc' = "fin2"
           /\ UNCHANGED <<n, raiseAt, failAt, sends, sfail, running, ppc, wpc, clientClosed, rsStarted, cur, pending, produced, begun, closed, released,
                          wCancelReq, pexc, pcancelled, delivered, pings, finalSent, discDelivered, outcome>>
\* the producer's exception leaves __call__; otherwise the final empty body is sent
MRaise == /\ Holds("main") /\ mpc = "fin2" /\ mexc
          /\ outcome' = "raised" /\ mpc' = "done" /\ running' = "none"
          /\ UNCHANGED <<n, raiseAt, failAt, sends, sfail, ppc, wpc, q, shouldStop, clientClosed, rsStarted, rsFinished, cur, pending, produced, begun, closed, released,
                         cancelReq, wCancelReq, pexc, pcancelled, delivered, pings, finalSent, discDelivered, mexc>>
MSendFinal == /\ Holds("main") /\ mpc = "fin2" /\ ~mexc /\ ~sfail /\ sends' = sends + 1
              /\ IF failAt = sends + 1 THEN mpc' = "fail" /\ UNCHANGED <<running, finalSent>>
                 ELSE finalSent' = TRUE /\ mpc' = "ret" /\ running' = "none"
              /\ UNCHANGED <<n, raiseAt, failAt, ppc, wpc, q, shouldStop, clientClosed, rsStarted, rsFinished, cur, pending, produced, begun, closed, released,
                             cancelReq, wCancelReq, pexc, pcancelled, discDelivered, mexc, sfail, delivered, pings, outcome>>
\* the failure of send() leaves __call__ (after the finally block, unless the relay's exception replaced it there: MRaise)
MSendFailed == /\ Holds("main") /\ (mpc = "fail" \/ (mpc = "fin2" /\ ~mexc /\ sfail))
               /\ outcome' = "sendfailed" /\ mpc' = "done" /\ running' = "none"
               /\ UNCHANGED <<n, raiseAt, failAt, ppc, wpc, q, shouldStop, clientClosed, rsStarted, rsFinished, cur, pending, produced, begun, closed, released,
                             cancelReq, wCancelReq, pexc, pcancelled, discDelivered, mexc, sends, sfail, delivered, pings, finalSent>>
MReturn == /\ Free /\ mpc = "ret"
           /\ outcome' = "returned" /\ mpc' = "done"
           /\ UNCHANGED <<n, raiseAt, failAt, sends, sfail, running, ppc, wpc, q, shouldStop, clientClosed, rsStarted, rsFinished, cur, pending, produced, begun, closed, released,
                          cancelReq, wCancelReq, pexc, pcancelled, delivered, pings, finalSent, discDelivered, mexc>>

\* ------------------------------------------------------------------ push
PU == <<n, raiseAt, failAt, sends, sfail, mpc, wpc, clientClosed, rsStarted, rsFinished, cur, wCancelReq, delivered, pings, finalSent, discDelivered, mexc, outcome>>

\* the task gets its first turn (a task cancelled before that never runs its body)
PStart == /\ Free /\ ppc = "ready"
          /\ IF cancelReq THEN ppc' = "done" /\ pcancelled' = TRUE /\ UNCHANGED running
             ELSE ppc' = "check" /\ running' = "push" /\ UNCHANGED pcancelled
          /\ cancelReq' = FALSE
          /\ UNCHANGED <<q, shouldStop, pending, produced, begun, closed, released, pexc>> /\ UNCHANGED PU
\* while not should_stop: await i.__anext__()
PCheck == /\ Holds("push") /\ ppc = "check"
          /\ IF shouldStop THEN ppc' = "finally" /\ UNCHANGED <<running, begun>>
             ELSE ppc' = "anext" /\ running' = "none" /\ begun' = TRUE
          /\ UNCHANGED <<q, shouldStop, pending, produced, closed, released, cancelReq, pexc, pcancelled>> /\ UNCHANGED PU
\* the generator yields its next item
PItem == /\ Free /\ ppc = "anext" /\ ~cancelReq /\ produced < n /\ raiseAt # produced + 1
         /\ produced' = produced + 1 /\ pending' = produced + 1 /\ ppc' = "put" /\ running' = "push"
         /\ UNCHANGED <<q, shouldStop, begun, closed, released, cancelReq, pexc, pcancelled>> /\ UNCHANGED PU
\* ... or finishes (StopAsyncIteration: should_stop = True; its cleanup has run) ...
PEnd == /\ Free /\ ppc = "anext" /\ ~cancelReq /\ produced = n /\ raiseAt = 0
        /\ shouldStop' = TRUE /\ closed' = closed + 1 /\ ppc' = "finally" /\ running' = "push"
        /\ UNCHANGED <<q, pending, produced, begun, released, cancelReq, pexc, pcancelled>> /\ UNCHANGED PU
\* ... or raises (its cleanup has run; the exception travels through push's finally)
PRaise == /\ Free /\ ppc = "anext" /\ ~cancelReq /\ raiseAt = produced + 1
          /\ pexc' = TRUE /\ closed' = closed + 1 /\ ppc' = "finally" /\ running' = "push"
          /\ UNCHANGED <<q, shouldStop, pending, produced, begun, released, cancelReq, pcancelled>> /\ UNCHANGED PU
\* await q.put(item): immediate when there is room, else the task waits for room
PPut == /\ Holds("push") /\ ppc = "put"
        /\ IF Len(q) < 1 THEN q' = Append(q, pending) /\ ppc' = "check" /\ UNCHANGED running
           ELSE ppc' = "putWait" /\ running' = "none" /\ UNCHANGED q
        /\ UNCHANGED <<shouldStop, pending, produced, begun, closed, released, cancelReq, pexc, pcancelled>> /\ UNCHANGED PU
PPutWake == /\ Free /\ ppc = "putWait" /\ ~cancelReq /\ Len(q) < 1
            /\ q' = Append(q, pending) /\ ppc' = "check" /\ running' = "push"
            /\ UNCHANGED <<shouldStop, pending, produced, begun, closed, released, cancelReq, pexc, pcancelled>> /\ UNCHANGED PU
\* CancelledError delivered at the await the task is suspended in (a cancellation request is delivered once)
\*   in anext: it travels through the user's generator (its cleanup runs), then through push's finally
PCancelAnext == /\ Free /\ ppc = "anext" /\ cancelReq
                /\ closed' = closed + 1 /\ pcancelled' = TRUE /\ ppc' = "finally" /\ running' = "push" /\ cancelReq' = FALSE
                /\ UNCHANGED <<q, shouldStop, pending, produced, begun, released, pexc>> /\ UNCHANGED PU
\*   in q.put(item): the item is not put
PCancelPut == /\ Free /\ ppc = "putWait" /\ cancelReq
              /\ pcancelled' = TRUE /\ ppc' = "finally" /\ running' = "push" /\ cancelReq' = FALSE
              /\ UNCHANGED <<q, shouldStop, pending, produced, begun, closed, released, pexc>> /\ UNCHANGED PU
\* finally: await q.put(None)
PFinally == /\ Holds("push") /\ ppc = "finally"
            /\ IF Len(q) < 1 THEN q' = Append(q, None) /\ ppc' = "aclose" /\ UNCHANGED running
               ELSE ppc' = "noneWait" /\ running' = "none" /\ UNCHANGED q
            /\ UNCHANGED <<shouldStop, pending, produced, begun, closed, released, cancelReq, pexc, pcancelled>> /\ UNCHANGED PU
PNoneWake == /\ Free /\ ppc = "noneWait" /\ ~cancelReq /\ Len(q) < 1
             /\ q' = Append(q, None) /\ ppc' = "aclose" /\ running' = "push"
             /\ UNCHANGED <<shouldStop, pending, produced, begun, closed, released, cancelReq, pexc, pcancelled>> /\ UNCHANGED PU
\*   cancelled inside the finally block: the rest of the block (the aclose of the user's iterable) is skipped
PCancelNone == /\ Free /\ ppc = "noneWait" /\ cancelReq
               /\ pcancelled' = TRUE /\ ppc' = "done" /\ cancelReq' = FALSE
               /\ UNCHANGED <<running, q, shouldStop, pending, produced, begun, closed, released, pexc>> /\ UNCHANGED PU
\* g.aclose(): a generator suspended at a yield runs its cleanup now; a finished or never started one has nothing to run
GenSuspended == begun /\ closed = 0
PAclose == /\ Holds("push") /\ ppc = "aclose"
           /\ released' = TRUE /\ closed' = IF GenSuspended THEN closed + 1 ELSE closed
           /\ ppc' = "done" /\ running' = "none"
           /\ UNCHANGED <<q, shouldStop, pending, produced, begun, cancelReq, pexc, pcancelled>> /\ UNCHANGED PU

\* ------------------------------------------------------------------ watcher and client
WU == <<n, raiseAt, failAt, sends, sfail, mpc, ppc, q, shouldStop, rsStarted, rsFinished, cur, pending, produced, begun, closed, released, cancelReq, pexc, pcancelled,
        delivered, pings, finalSent, mexc, outcome>>
WStart == /\ Free /\ wpc = "ready"
          /\ wpc' = IF wCancelReq THEN "done" ELSE "recv"
          /\ UNCHANGED <<running, clientClosed, wCancelReq, discDelivered>> /\ UNCHANGED WU
\* receive() returns http.disconnect
WDisc == /\ Free /\ wpc = "recv" /\ ~wCancelReq
         /\ clientClosed' = TRUE /\ discDelivered' = TRUE /\ wpc' = "done"
         /\ UNCHANGED <<running, wCancelReq>> /\ UNCHANGED WU
WCancelled == /\ Free /\ wpc = "recv" /\ wCancelReq
              /\ wpc' = "done"
              /\ UNCHANGED <<running, clientClosed, wCancelReq, discDelivered>> /\ UNCHANGED WU

Next == \/ MSendStart \/ MSpawn \/ MTop \/ MLoop \/ MWake \/ MTimeout \/ MSendBody \/ MSent \/ MRsFin \/ MFin \/ MAclose \/ MRaise \/ MSendFinal \/ MSendFailed \/ MReturn
        \/ PStart \/ PCheck \/ PItem \/ PEnd \/ PRaise \/ PPut \/ PPutWake \/ PCancelAnext \/ PCancelPut \/ PFinally \/ PNoneWake \/ PCancelNone \/ PAclose
        \/ WStart \/ WDisc \/ WCancelled
Spec == Init /\ [][Next]_vars
\* fairness: every task that can run eventually does; the client and the ping timer are not obliged to act,
\* the producer is (a generator that never yields again keeps a plain stream open by design; here the ping bounds the wait)
TaskFairness == /\ WF_vars(MSendStart \/ MSpawn \/ MTop \/ MLoop \/ MWake \/ MSendBody \/ MSent \/ MRsFin \/ MFin \/ MAclose \/ MRaise \/ MSendFinal \/ MSendFailed \/ MReturn)
            /\ WF_vars(PStart \/ PCheck \/ PItem \/ PEnd \/ PRaise \/ PPut \/ PPutWake \/ PCancelAnext \/ PCancelPut \/ PFinally \/ PNoneWake \/ PCancelNone \/ PAclose)
            /\ WF_vars(WStart \/ WCancelled)
FairSpec == Spec /\ TaskFairness
\* the same without any obligation on the producer, but with the ping timer firing: what C06 says about event streams
ProgressNoProducer ==
            /\ WF_vars(MSendStart \/ MSpawn \/ MTop \/ MLoop \/ MWake \/ MTimeout \/ MSendBody \/ MSent \/ MRsFin \/ MFin \/ MAclose \/ MRaise \/ MSendFinal \/ MSendFailed \/ MReturn)
            /\ WF_vars(PStart \/ PCheck \/ PPut \/ PPutWake \/ PCancelAnext \/ PCancelPut \/ PFinally \/ PNoneWake \/ PCancelNone \/ PAclose)
            /\ WF_vars(WStart \/ WCancelled)
FairSpecNoProducer == Spec /\ ProgressNoProducer

\* ------------------------------------------------------------------ properties
RECURSIVE Iota(_)
Iota(k) == IF k = 0 THEN <<>> ELSE Append(Iota(k - 1), k)
IsPrefix(a, b) == Len(a) <= Len(b) /\ SubSeq(b, 1, Len(a)) = a
AllDone == mpc = "done" /\ ppc \in {"none", "done"} /\ wpc \in {"none", "done"}

TypeOK == /\ running \in {"none", "main", "push", "wait"} /\ Len(q) <= 1 /\ closed \in 0..2 /\ produced <= n
\* everything delivered was yielded, in order, once
DeliveredInOrder == IsPrefix(delivered, Iota(produced))
\* the user's cleanup never runs twice
ClosedOnce == closed <= 1
\* when all three tasks are finished: a generator whose body was entered has been cleaned up exactly once
Settled == AllDone => (begun => closed = 1)
\* undisturbed (no disconnect delivered): every item arrives, then the final body; a producer's exception is reported
CompleteWhenUndisturbed == (outcome = "returned" /\ ~discDelivered) => (delivered = Iota(n) /\ finalSent /\ raiseAt = 0)
RaisedIsReported == (mpc = "done" /\ ~discDelivered /\ raiseAt # 0 /\ outcome # "sendfailed") => outcome = "raised"
\* a failed send() is reported to the server (or the producer's exception, if the relay died of it meanwhile), never swallowed
SendFailureReported == (mpc = "done" /\ (sfail \/ (failAt # 0 /\ sends >= failAt))) => outcome \in {"sendfailed", "raised"}
\* ... and nothing is sent after it
NothingAfterFailure == sends <= (IF failAt = 0 THEN sends ELSE failAt)
RaisedOnlyIfProducerRaised == outcome = "raised" => pexc
NothingAfterFinal == finalSent => mpc \in {"ret", "done"}
\* the thread is held by at most the task whose turn it is
Cooperative == (running = "push" => ppc \in {"check", "put", "finally", "aclose"}) /\ (running = "main" => mpc \in {"init", "top", "loop", "yield", "rsfin", "fin", "aclose", "fin2", "fail"})
\* liveness: the call ends and nothing stays pending, whatever the client and the timers do
Terminates == <>[]AllDone
\* once the disconnect is delivered the call ends without needing the producer: main is never waiting on push alone
ReturnsAfterDisconnect == clientClosed ~> mpc = "done"
PingBound == pings <= MaxPings + 1
==========================================================================
