-------------------------------- MODULE Url --------------------------------
(***************************************************************************)
(* baize/datastructures.py URL: construction from a WSGI environ / ASGI    *)
(* scope (_build_url), component-wise replace() with its netloc surgery,   *)
(* the query-parameter helpers, password masking in repr().                *)
(*                                                                         *)
(* A URL is a record of components; "none" stands for "absent" (ports are  *)
(* tokens too).                                                            *)
(* mode = "build": (scheme, server, Host header, root, path, query) -> URL *)
(* mode = "edit" : a URL that has a host, a set of components to replace,  *)
(*                 new values                                              *)
(* Component values are opaque tokens; the harness concretises them.       *)
(***************************************************************************)
EXTENDS Naturals, Sequences, FiniteSets

CONSTANTS Schemes, BuildSchemes, Hosts, Ports, Users, Passwords, Paths, Queries, Fragments, HostHeaders, Roots,
          DefaultPort,   \* set of <<scheme, port>>
          EditKeys       \* set of sets of component names that are replaced together

VARIABLES mode, inp, url, edit, out
vars == <<mode, inp, url, edit, out>>

None == "none"
U(s, us, pw, h, p, pa, q, f) == [scheme |-> s, user |-> us, password |-> pw, host |-> h, port |-> p, path |-> pa, query |-> q, fragment |-> f]
IsDefault(s, p) == <<s, p>> \in DefaultPort

\* ---- construction: Host header preferred over the server address, default ports elided
Build(i) ==
  IF i.hostHeader # None THEN U(i.scheme, None, None, i.hostHeader, None, <<i.root, i.path>>, i.query, None)
  ELSE U(i.scheme, None, None, i.server[1], IF IsDefault(i.scheme, i.server[2]) THEN None ELSE i.server[2], <<i.root, i.path>>, i.query, None)

\* ---- replace(**kw): named components take the new values, the others stay; a password needs a user
Pick(kw, k, old) == IF k \in DOMAIN kw THEN kw[k] ELSE old
Replace(u, kw) ==
  LET user == Pick(kw, "user", u.user)
      pw0 == Pick(kw, "password", u.password)
      pw == IF user = None THEN None ELSE pw0
  IN [scheme |-> Pick(kw, "scheme", u.scheme), user |-> user, password |-> pw,
      host |-> Pick(kw, "host", u.host), port |-> Pick(kw, "port", u.port),
      path |-> Pick(kw, "path", u.path), query |-> Pick(kw, "query", u.query), fragment |-> Pick(kw, "fragment", u.fragment)]

BaseUrls == {U(s, us, pw, h, p, pa, q, f) : s \in Schemes, us \in Users \cup {None}, pw \in Passwords \cup {None}, h \in Hosts,
                                            p \in Ports \cup {None}, pa \in Paths, q \in Queries, f \in Fragments}
ValidBase(u) == (u.password # None => u.user # None)
NewValue(k) == CASE k = "scheme" -> Schemes [] k = "user" -> Users \cup {None} [] k = "password" -> Passwords \cup {None}
                 [] k = "host" -> Hosts [] k = "port" -> Ports \cup {None} [] k = "path" -> Paths [] k = "query" -> Queries
                 [] k = "fragment" -> Fragments

Init == \/ /\ mode = "build"
           /\ inp \in [scheme : BuildSchemes, server : (Hosts \X Ports), hostHeader : HostHeaders \cup {None}, root : Roots, path : Paths, query : Queries]
           /\ url = U(None, None, None, None, None, None, None, None) /\ edit = <<>> /\ out = url
        \/ /\ mode = "edit"
           /\ url \in {u \in BaseUrls : ValidBase(u)}
           /\ \E ks \in EditKeys : edit \in [ks -> UNION {NewValue(k) : k \in ks}] /\ \A k \in ks : edit[k] \in NewValue(k)
           /\ inp = [scheme |-> None, server |-> <<None, None>>, hostHeader |-> None, root |-> None, path |-> None, query |-> None]
           /\ out = url

DoBuild == /\ mode = "build" /\ out.scheme = None /\ out' = Build(inp) /\ UNCHANGED <<mode, inp, url, edit>>
DoEdit == /\ mode = "edit" /\ out = url /\ out' = Replace(url, edit) /\ out' # url /\ UNCHANGED <<mode, inp, url, edit>>
Next == DoBuild \/ DoEdit
Spec == Init /\ [][Next]_vars

\* ---------------------------------------------------------------- properties
Built == (mode = "build" /\ out.scheme # None) =>
   /\ out.scheme = inp.scheme /\ out.path = <<inp.root, inp.path>> /\ out.query = inp.query
   /\ (inp.hostHeader # None => out.host = inp.hostHeader)
   /\ (inp.hostHeader = None => (out.host = inp.server[1] /\ out.port = (IF IsDefault(inp.scheme, inp.server[2]) THEN None ELSE inp.server[2])))
ReplacedExactly == (mode = "edit" /\ out # url) =>
   /\ \A k \in DOMAIN edit \ {"password", "user"} : out[k] = edit[k]
   /\ \A k \in {"scheme", "host", "port", "path", "query", "fragment"} \ DOMAIN edit : out[k] = url[k]
   /\ (out.password # None => out.user # None)
   /\ ("user" \in DOMAIN edit => out.user = edit["user"])
   /\ (("user" \in DOMAIN edit /\ edit["user"] = None) => out.password = None)
==========================================================================
