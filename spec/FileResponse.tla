-------------------------- MODULE FileResponse --------------------------
(***************************************************************************)
(* baize/wsgi/responses.py FileResponse, baize/asgi/responses.py           *)
(* FileResponse (fake_sendfile and zero-copy), baize/responses.py          *)
(* generate_multipart / judge_if_range.                                    *)
(*                                                                         *)
(* A case c fixes the file size, the chunk size, the interface ("wsgi",    *)
(* "asgi", "zerocopy"), the method, the Range specs (hasRange FALSE = no   *)
(* Range header), the If-Range kind and the lengths of boundary and        *)
(* content type.  Decide chooses status/headers and a PLAN (literal pieces *)
(* and file slices); then one EmitStep per yielded item / send() call      *)
(* follows the real loops of each interface:                               *)
(*   wsgi      for here in range(start, end, chunk): read(min(chunk, ...)) *)
(*   asgi      fake_sendfile: uncounted (read until a short read - which   *)
(*             sends a final EMPTY body when size is a multiple of chunk)  *)
(*             and counted (length = min(chunk, count - here))             *)
(*   zerocopy  one message (offset, count, more_body) per sendfile call    *)
(* The declared multipart length is the code's closed formula; what is     *)
(* emitted is counted from the pieces, so LengthTruthful checks one        *)
(* against the other, digit-count steps included.                          *)
(***************************************************************************)
EXTENDS RangeOps

CONSTANTS Cases   \* set of case records

VARIABLES c, pc, status, clen, crange, multi, plan, pi, here, ev
vars == <<c, pc, status, clen, crange, multi, plan, pi, here, ev>>

TheCases == Cases

Digits(n) == IF n < 10 THEN 1 ELSE IF n < 100 THEN 2 ELSE IF n < 1000 THEN 3 ELSE IF n < 10000 THEN 4
             ELSE IF n < 100000 THEN 5 ELSE IF n < 1000000 THEN 6 ELSE 7

\* Range is honoured only when If-Range is absent or equals the current ETag / Last-Modified
Honoured(k) == k \in {"absent", "etag", "date"}

\* "--{boundary}\nContent-Type: {ct}\nContent-Range: bytes {s}-{e-1}/{size}\n\n"
PartHeaderLen(s, e) == 2 + c.bl + 1 + 14 + c.ctl + 1 + 21 + Digits(s) + 1 + Digits(e - 1) + 1 + Digits(c.size) + 1 + 1
ClosingLen == 2 + c.bl + 3
\* generate_multipart's formula
StaticHeaderPartLen == 44 + c.bl + c.ctl + Digits(c.size)
RECURSIVE SumParts(_)
SumParts(rs) == IF rs = <<>> THEN 0
                ELSE (Digits(Head(rs)[1]) + Digits(Head(rs)[2] - 1) + StaticHeaderPartLen) + (Head(rs)[2] - Head(rs)[1]) + SumParts(Tail(rs))
DeclaredMultipart(rs) == SumParts(rs) + (5 + c.bl)

Lit(n) == [t |-> "lit", a |-> 0, b |-> n, counted |-> FALSE, final |-> FALSE]
File(a, b, counted, final) == [t |-> "file", a |-> a, b |-> b, counted |-> counted, final |-> final]
RECURSIVE MultiPlan(_)
MultiPlan(rs) == IF rs = <<>> THEN <<[Lit(ClosingLen) EXCEPT !.final = TRUE]>>
                 ELSE <<Lit(PartHeaderLen(Head(rs)[1], Head(rs)[2])), File(Head(rs)[1], Head(rs)[2], TRUE, FALSE), Lit(1)>>
                      \o MultiPlan(Tail(rs))

Init == /\ c \in TheCases
        /\ pc = "decide" /\ status = 0 /\ clen = 0 - 1 /\ crange = <<>> /\ multi = FALSE
        /\ plan = <<>> /\ pi = 1 /\ here = 0 /\ ev = <<>>

Head_ == c.method = "HEAD"
HeadPlan == <<[Lit(0) EXCEPT !.final = TRUE]>>

Decide ==
  /\ pc = "decide"
  /\ IF ~c.hasRange \/ ~Honoured(c.ifr)
       THEN /\ status' = 200 /\ clen' = c.size /\ crange' = <<>> /\ multi' = FALSE
            /\ plan' = IF Head_ THEN HeadPlan ELSE <<File(0, c.size, FALSE, TRUE)>>
       ELSE LET p == ParseFn(c.specs, c.size) IN
            IF p.o = "416"
              THEN /\ status' = 416 /\ clen' = 0 - 1 /\ crange' = <<"unsat", c.size>> /\ multi' = FALSE
                   /\ plan' = <<[Lit(0) EXCEPT !.final = TRUE]>>
            ELSE IF p.o = "400"
              THEN /\ status' = 400 /\ clen' = 0 - 1 /\ crange' = <<>> /\ multi' = FALSE
                   /\ plan' = <<[Lit(IF Head_ THEN 0 ELSE c.msglen) EXCEPT !.final = TRUE]>>
            ELSE IF Len(p.r) = 1
              THEN /\ status' = 206 /\ clen' = p.r[1][2] - p.r[1][1] /\ multi' = FALSE
                   /\ crange' = <<"range", p.r[1][1], p.r[1][2] - 1, c.size>>
                   /\ plan' = IF Head_ THEN HeadPlan ELSE <<File(p.r[1][1], p.r[1][2], TRUE, TRUE)>>
              ELSE /\ status' = 206 /\ clen' = DeclaredMultipart(p.r) /\ multi' = TRUE /\ crange' = <<>>
                   /\ plan' = IF Head_ THEN HeadPlan ELSE MultiPlan(p.r)
  /\ pc' = "emit" /\ pi' = 1 /\ here' = 0 - 1
  /\ UNCHANGED <<c, ev>>

Item == plan[pi]
Event(n, a, more) == [n |-> n, a |-> a, more |-> more]
\* `more` of the LAST piece of an item: false only for the final item of the response
NextItem == /\ pi' = pi + 1 /\ here' = 0 - 1
SameItem(h) == /\ pi' = pi /\ here' = h

EmitStep ==
  /\ pc = "emit" /\ pi <= Len(plan)
  /\ LET it == Item IN
     IF it.t = "lit"
       THEN /\ ev' = Append(ev, Event(it.b, 0 - 1, ~it.final)) /\ NextItem
     ELSE IF c.iface = "zerocopy"
       THEN \* one message per sendfile call: (offset, count, more_body)
            /\ ev' = Append(ev, [n |-> IF it.counted THEN it.b - it.a ELSE 0 - 1, a |-> IF it.counted THEN it.a ELSE 0 - 1, more |-> ~it.final])
            /\ NextItem
     ELSE IF c.iface = "wsgi"
       THEN \* for here in range(a, b, chunk): yield read(min(chunk, b - here)); an empty range yields nothing
            LET h == IF here < 0 THEN it.a ELSE here IN
            IF h >= it.b THEN /\ UNCHANGED ev /\ NextItem
            ELSE LET n == MinI(c.chunk, it.b - h) IN
                 /\ ev' = Append(ev, Event(n, h, TRUE))
                 /\ IF h + c.chunk >= it.b THEN NextItem ELSE SameItem(h + c.chunk)
     ELSE IF ~it.counted
       THEN \* fake_sendfile, count is None: read(chunk) until a short read
            LET h == IF here < 0 THEN it.a ELSE here
                n == MinI(c.chunk, it.b - h) IN
            IF n = c.chunk THEN /\ ev' = Append(ev, Event(n, h, TRUE)) /\ SameItem(h + n)
                           ELSE /\ ev' = Append(ev, Event(n, h, ~it.final)) /\ NextItem
       ELSE \* fake_sendfile, counted: length = min(chunk, count - here); stop when length == count - here
            LET h == IF here < 0 THEN it.a ELSE here
                n == MinI(c.chunk, it.b - h)
                stop == n = it.b - h IN
            /\ ev' = Append(ev, Event(n, h, IF stop THEN ~it.final ELSE TRUE))
            /\ IF stop THEN NextItem ELSE SameItem(h + n)
  /\ UNCHANGED <<c, pc, status, clen, crange, multi, plan>>

Finish == /\ pc = "emit" /\ pi > Len(plan)
          /\ pc' = "done"
          /\ UNCHANGED <<c, status, clen, crange, multi, plan, pi, here, ev>>

Next == Decide \/ EmitStep \/ Finish
Spec == Init /\ [][Next]_vars

\* ---------------------------------------------------------------- properties
Done == pc = "done"
Parsed == ParseFn(c.specs, c.size)
UseRange == c.hasRange /\ Honoured(c.ifr)

StatusOK == Done =>
  status = IF ~UseRange THEN 200
           ELSE IF Parsed.o = "ok" THEN 206 ELSE IF Parsed.o = "400" THEN 400 ELSE 416

RECURSIVE SumLen(_)
SumLen(s) == IF s = <<>> THEN 0 ELSE (IF Head(s).n < 0 THEN c.size ELSE Head(s).n) + SumLen(Tail(s))
\* the declared Content-Length equals the bytes sent (HEAD: nothing is sent)
LengthTruthful == Done => /\ (clen >= 0 /\ ~Head_) => clen = SumLen(ev)
                          /\ Head_ => SumLen(ev) = 0
                          /\ status \in {200, 206} => clen >= 0

\* the file bytes sent, as a sequence of maximal intervals (adjacent pieces joined; literals break)
RECURSIVE FileIntervals(_, _)
FileIntervals(s, acc) ==
  IF s = <<>> THEN acc
  ELSE LET e == Head(s) IN
       IF e.a < 0 /\ e.n >= 0 THEN FileIntervals(Tail(s), IF e.n = 0 THEN acc ELSE Append(acc, <<0 - 1, e.n>>))  \* literal
       ELSE LET a == IF e.a < 0 THEN 0 ELSE e.a
                b == IF e.n < 0 THEN c.size ELSE a + e.n IN
            IF a = b THEN FileIntervals(Tail(s), acc)
            ELSE IF acc # <<>> /\ acc[Len(acc)][1] >= 0 /\ acc[Len(acc)][2] = a
              THEN FileIntervals(Tail(s), [acc EXCEPT ![Len(acc)] = <<acc[Len(acc)][1], b>>])
              ELSE FileIntervals(Tail(s), Append(acc, <<a, b>>))
FileOnly(s) == SelectSeq(s, LAMBDA x : x[1] >= 0)
ExpectedIntervals ==
  IF Head_ \/ status \in {400, 416} THEN <<>>
  ELSE IF status = 200 THEN (IF c.size = 0 THEN <<>> ELSE <<<<0, c.size>>>>)
  ELSE Parsed.r
BodyExact == Done => FileOnly(FileIntervals(ev, <<>>)) = ExpectedIntervals

\* multipart structure: header, slice, "\n" per range, then the closing delimiter
MultipartShape == (Done /\ multi /\ ~Head_) =>
  LET iv == FileIntervals(ev, <<>>) IN
  /\ Len(iv) = 3 * Len(Parsed.r) + 1
  /\ \A k \in 1..Len(Parsed.r) :
        /\ iv[3 * k - 2] = <<0 - 1, PartHeaderLen(Parsed.r[k][1], Parsed.r[k][2])>>
        /\ iv[3 * k - 1] = Parsed.r[k]
        /\ iv[3 * k] = <<0 - 1, 1>>
  /\ iv[Len(iv)] = <<0 - 1, ClosingLen>>

UnsatHeader == Done => (status = 416 <=> crange = <<"unsat", c.size>>)
RangeHeader == (Done /\ status = 206 /\ ~multi) => crange = <<"range", Parsed.r[1][1], Parsed.r[1][2] - 1, c.size>>

\* ASGI: only the last body event has more_body = false
LastOnlyFinal == (Done /\ c.iface # "wsgi") =>
  /\ Len(ev) >= 1 /\ ~ev[Len(ev)].more
  /\ \A k \in 1..(Len(ev) - 1) : ev[k].more
==========================================================================
