---------------------------- MODULE RangeOps ----------------------------
(***************************************************************************)
(* Pure operators shared by Range.tla (the parse_range pipeline as a state *)
(* machine) and FileResponse.tla (which uses the parse result).            *)
(***************************************************************************)
EXTENDS Integers, Sequences, FiniteSets

MinI(x, y) == IF x < y THEN x ELSE y
MaxI(x, y) == IF x > y THEN x ELSE y

\* does spec s (for a file of `sz` bytes) denote byte position p ?
InDenote(s, sz, p) ==
  /\ p >= 0 /\ p < sz
  /\ CASE s.k = "fl" -> s.a <= p /\ p <= s.b
       [] s.k = "from" -> s.a <= p
       [] s.k = "suf" -> p >= sz - s.b
Malformed(s) == s.k = "fl" /\ s.a > s.b
Unsat(s, sz) == CASE s.k = "suf" -> s.b = 0 \/ s.b > sz
                  [] OTHER -> s.a >= sz

\* (int(a) if a else size - int(b),  int(b) + 1 if a and b and int(b) < size else size)
ExtractedOf(s, sz) ==
  CASE s.k = "fl" -> <<s.a, IF s.b < sz THEN s.b + 1 ELSE sz>>
    [] s.k = "from" -> <<s.a, sz>>
    [] s.k = "suf" -> <<sz - s.b, sz>>

\* ranges.sort(): lexicographic order on (start, end)
Less(x, y) == x[1] < y[1] \/ (x[1] = y[1] /\ x[2] < y[2])
RECURSIVE InsertSorted(_, _)
InsertSorted(s, x) == IF s = <<>> THEN <<x>>
                      ELSE IF Less(x, Head(s)) THEN <<x>> \o s ELSE <<Head(s)>> \o InsertSorted(Tail(s), x)
RECURSIVE SortSeq(_)
SortSeq(s) == IF s = <<>> THEN <<>> ELSE InsertSorted(SortSeq(Tail(s)), Head(s))

\* repaired loop body: ranges are sorted, so only the last result range can touch the next one
MergeFixed(r, x) ==
  IF r # <<>> /\ x[1] <= r[Len(r)][2]
    THEN [r EXCEPT ![Len(r)] = <<r[Len(r)][1], MaxI(x[2], r[Len(r)][2])>>]
    ELSE Append(r, x)

\* original loop body: scan result; skip while start > p_end; insert before if end < p_start;
\* otherwise merge into THAT entry only (later entries are never revisited)
RECURSIVE MergeOrig(_, _, _)
MergeOrig(r, x, p) ==
  IF p > Len(r) THEN Append(r, x)
  ELSE IF x[1] > r[p][2] THEN MergeOrig(r, x, p + 1)
  ELSE IF x[2] < r[p][1] THEN SubSeq(r, 1, p - 1) \o <<x>> \o SubSeq(r, p, Len(r))
  ELSE [r EXCEPT ![p] = <<MinI(x[1], r[p][1]), MaxI(x[2], r[p][2])>>]

\* the whole (repaired) pipeline as a function: [o |-> "ok" | "400" | "416", r |-> ranges]
RECURSIVE MergeAll(_, _)
MergeAll(acc, s) == IF s = <<>> THEN acc ELSE MergeAll(MergeFixed(acc, Head(s)), Tail(s))
ParseFn(sp, sz) ==
  LET ex == [i \in 1..Len(sp) |-> ExtractedOf(sp[i], sz)] IN
  IF \E i \in 1..Len(ex) : ~(0 <= ex[i][1] /\ ex[i][1] < sz) THEN [o |-> "416", r |-> <<>>]
  ELSE IF \E i \in 1..Len(ex) : ex[i][1] >= ex[i][2] THEN [o |-> "400", r |-> <<>>]
  ELSE IF Len(ex) = 1 THEN [o |-> "ok", r |-> ex]
  ELSE [o |-> "ok", r |-> MergeAll(<<>>, SortSeq(ex))]
==========================================================================
