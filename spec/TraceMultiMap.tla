------------------------- MODULE TraceMultiMap -------------------------
(***************************************************************************)
(* Trace validation for MultiMap.tla.  TRACE_FILE: JSON array of           *)
(* {init: [[k,v],...], events: [{op,k,v,vs,m,hd, items, dict, ret},...]},  *)
(* one event per mutator call logged at its return with the full           *)
(* projected state (item list and dict order) and the outcome.             *)
(***************************************************************************)
EXTENDS MultiMap, Json, IOUtils, TLC, TLCExt

Traces == JsonDeserialize(IOEnv.TRACE_FILE)
NTraces == Len(Traces)

VARIABLES tid, l
tvars == <<lst, dct, ret, tid, l>>

ASSUME \A i \in 1..NTraces : TLCSet(100 + i, 0)

T == Traces[tid]
Ev == T.events[l]

TraceInit == /\ tid \in 1..NTraces /\ l = 1
             /\ lst = Traces[tid].init
             /\ dct = DictOf(lst)
             /\ ret = <<"init">>

Matches == lst' = Ev.items /\ dct' = Ev.dict /\ ret' = Ev.ret

Step(name, A) == /\ l <= Len(T.events) /\ Ev.op = name
                 /\ A /\ Matches
                 /\ l' = l + 1 /\ UNCHANGED tid

TraceNext == \/ Step("SetItem", SetItem(Ev.k, Ev.v))
             \/ Step("DelItem", DelItem(Ev.k))
             \/ Step("SetList", SetList(Ev.k, Ev.vs))
             \/ Step("PopList", PopList(Ev.k))
             \/ Step("AppendOp", AppendOp(Ev.k, Ev.v))
             \/ Step("Pop", Pop(Ev.k, Ev.hd))
             \/ Step("PopItem", PopItem)
             \/ Step("Clear", Clear)
             \/ Step("SetDefault", SetDefault(Ev.k, Ev.v))
             \/ Step("Update", Update(Ev.m))

TraceSpec == TraceInit /\ [][TraceNext]_tvars

Progress == IF l - 1 > TLCGet(100 + tid) THEN TLCSet(100 + tid, l - 1) ELSE TRUE
Post == JsonSerialize(IOEnv.PREFIX_FILE, [i \in 1..NTraces |-> TLCGet(100 + i)])
==========================================================================
