--------------------------- MODULE TraceRange ---------------------------
(***************************************************************************)
(* Trace validation for Range.tla: each recorded call of the real          *)
(* parse_range (size, specs -> outcome, result) must be the end state of   *)
(* the specification's pipeline on the same input, and the invariants      *)
(* Classify / CanonicalOut / ExactUnion are evaluated on it - with the     *)
(* trace's own (large) numbers.                                            *)
(***************************************************************************)
EXTENDS Range, Json, IOUtils, TLC, TLCExt

Traces == JsonDeserialize(IOEnv.TRACE_FILE)
NTraces == Len(Traces)
VARIABLES tid, l
tvars == <<size, specs, pc, ranges, result, idx, outcome, tid, l>>
ASSUME \A i \in 1..NTraces : TLCSet(100 + i, 0)
T == Traces[tid]

TraceInit == /\ tid \in 1..NTraces /\ l = 1
             /\ size = T.size /\ specs = T.specs
             /\ pc = "extract" /\ ranges = <<>> /\ result = <<>> /\ idx = 1 /\ outcome = "none"

Internal == l = 1 /\ Next /\ UNCHANGED <<tid, l>>
Accept == /\ l = 1 /\ pc = "done"
          /\ outcome = T.events[1].outcome /\ result = T.events[1].result
          /\ l' = 2 /\ UNCHANGED <<size, specs, pc, ranges, result, idx, outcome, tid>>
TraceNext == Internal \/ Accept
TraceSpec == TraceInit /\ [][TraceNext]_tvars

Progress == IF l - 1 > TLCGet(100 + tid) THEN TLCSet(100 + tid, l - 1) ELSE TRUE
Post == JsonSerialize(IOEnv.PREFIX_FILE, [i \in 1..NTraces |-> TLCGet(100 + i)])
==========================================================================
