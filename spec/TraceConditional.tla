------------------------- MODULE TraceConditional -------------------------
(***************************************************************************)
(* Trace validation for Conditional.tla: long recorded histories (tens of  *)
(* modifications and requests, far beyond the exhaustive bound) of the     *)
(* real static-file applications on the virtual file clock.                *)
(*                                                                         *)
(* TRACE_FILE: JSON array of {events: [...]}; one event per environment    *)
(* action (Tick n / Mod size newver / Restore d / Chmod - the arguments    *)
(* the driver used) and one per request, logged at the return of the call  *)
(* with what the response carried:                                         *)
(*   status, ver (version number read from the body, 0 for no body),       *)
(*   eid (identity of the ETag text: 1, 2, ... in order of first           *)
(*   appearance, 0 = none), lm (Last-Modified in whole seconds of the      *)
(*   virtual clock), empty (body length 0)                                 *)
(*                                                                         *)
(* Two readings, chosen by Strict:                                         *)
(*  FALSE (observation): the file actions are the module's; a request step *)
(*    writes what was OBSERVED into `last` / `resp`, and the module's      *)
(*    invariants (NoStale, FreshAfterChange, EtagRevalidates, StarMatches, *)
(*    DateRevalidates) and the trace-level ones below judge it in every    *)
(*    state: a failure is a violation of the property.                     *)
(*  TRUE (mechanism): additionally the observed status must be the one the *)
(*    module's decision rule (NotModified) computes and Last-Modified must *)
(*    be the whole seconds of mtime: a rejected trace is drift.            *)
(*                                                                         *)
(* ETag texts are opaque: eid e stands for the abstract tag it was first   *)
(* seen with (the file's <<mtime, size>> at that moment); a new text for a *)
(* tag that already has one stands for an artificial tag <<e, 0>>, so that *)
(* "same validators" / "new validators" mean the same in both worlds.      *)
(***************************************************************************)
EXTENDS Conditional, Json, IOUtils, TLCExt

CONSTANT Strict

Traces == JsonDeserialize(IOEnv.TRACE_FILE)
NTraces == Len(Traces)

VARIABLES tid, l, eids
tvars == <<vars, tid, l, eids>>

ASSUME \A i \in 1..NTraces : TLCSet(100 + i, 0)

T == Traces[tid]
Ev == T.events[l]

TraceInit == /\ tid \in 1..NTraces /\ l = 1 /\ eids = <<>>
             /\ Init

Cur == <<file.mtime, file.size>>
\* the abstract tag an observed ETag text stands for
TagOf(e) == IF e = 0 THEN <<0, 0>>
            ELSE IF e \in 1..Len(eids) THEN eids[e]
            ELSE IF \E i \in 1..Len(eids) : eids[i] = Cur THEN <<e, 0>> ELSE Cur
Consume(name) == /\ l <= Len(T.events) /\ Ev.a = name /\ l' = l + 1 /\ UNCHANGED tid

TTick == Consume("Tick") /\ Tick(Ev.n) /\ UNCHANGED eids
TMod == Consume("Mod") /\ Modify(Ev.size, IF Ev.newver THEN file.ver + 1 ELSE file.ver) /\ UNCHANGED eids
TRestore == Consume("Restore") /\ Restore(Ev.d) /\ UNCHANGED eids
TChmod == Consume("Chmod") /\ Chmod /\ UNCHANGED eids

\* what a response carried, as a record of the module's shape (the fields the invariants read) plus the observation `empty`
Observed(extra) ==
  IF Ev.status = 200
    THEN [k |-> "resp", status |-> 200, ver |-> Ev.ver, tag |-> TagOf(Ev.eid), lm |-> Ev.lm, ct |-> file.ctime, empty |-> Ev.empty] @@ extra
    ELSE [k |-> "resp", status |-> Ev.status, ver |-> 0, tag |-> <<0, 0>>, lm |-> 0, ct |-> 0, empty |-> Ev.empty] @@ extra
Learn == eids' = IF Ev.status = 200 /\ Ev.eid = Len(eids) + 1 THEN Append(eids, TagOf(Ev.eid)) ELSE eids
Record(o) == resp' = IF Ev.status = 200 THEN Append(resp, [x \in {"k", "status", "ver", "tag", "lm", "ct"} |-> o[x]]) ELSE resp

TPlain == /\ Consume("Plain")
          /\ LET o == Observed([plain |-> TRUE]) IN last' = o /\ Record(o)
          /\ Learn /\ steps' = steps + 1 /\ UNCHANGED <<clock, file, used>>
          /\ Strict => (Ev.status = 200 /\ Ev.ver = file.ver /\ Ev.lm = Validators.lm /\ TagOf(Ev.eid) = Cur)

TCond == /\ Consume("Cond") /\ Ev.j \in 1..Len(resp) /\ Ev.f \in Forms
         /\ LET o == Observed([j |-> Ev.j, form |-> Ev.f]) IN last' = o /\ Record(o)
         /\ Learn /\ steps' = steps + 1 /\ UNCHANGED <<clock, file, used>>
         /\ Strict => /\ Ev.status = (IF NotModified(Ev.j, Ev.f) THEN 304 ELSE 200)
                      /\ Ev.status = 200 => (Ev.ver = file.ver /\ Ev.lm = Validators.lm /\ TagOf(Ev.eid) = Cur)

TraceNext == TTick \/ TMod \/ TRestore \/ TChmod \/ TPlain \/ TCond
TraceSpec == TraceInit /\ [][TraceNext]_tvars

\* ---------------------------------------------------------------- trace-level properties (observation mode)
IsResp == last.k = "resp"
\* a request without validators: the current content
TPlainOK == (IsResp /\ "plain" \in DOMAIN last) => (last.status = 200 /\ last.ver = file.ver /\ ~last.empty)
\* only 200 and 304 exist for an existing file; a 304 has no body, a 200 has one
TStatusOK == IsResp => (last.status \in {200, 304} /\ (last.status = 304 => last.empty) /\ (last.status = 200 => ~last.empty))
\* a full answer to a conditional request carries the current content
TBodyCurrent == (IsCond /\ last.status = 200) => last.ver = file.ver
\* every full response carries an entity tag
TTagged == (IsResp /\ last.status = 200) => last.tag # <<0, 0>>

Progress == IF l - 1 > TLCGet(100 + tid) THEN TLCSet(100 + tid, l - 1) ELSE TRUE
Post == JsonSerialize(IOEnv.PREFIX_FILE, [i \in 1..NTraces |-> TLCGet(100 + i)])
==========================================================================
