------------------------------- MODULE Robust -------------------------------
(***************************************************************************)
(* The accessor layer as seen by a client: an input CHANNEL (path, query,  *)
(* Host, Cookie, Accept, Content-Type, Content-Length, Date, Referer,      *)
(* Range, If-Range, If-None-Match, If-Modified-Since, body) carries a      *)
(* value built from FRAGMENTS (valid tokens, delimiters, quotes, blanks,   *)
(* non-ASCII Latin-1, NUL, a 5000-digit number, '[', invalid UTF-8, ...);   *)
(* an ENTRY POINT of the library is applied to it.  The statement allows   *)
(* exactly four kinds of outcome; anything else "escapes" and would become *)
(* a 500.  The model cannot predict which allowed outcome a noisy input    *)
(* gets - it enumerates the space and fixes the class-level oracle.        *)
(***************************************************************************)
EXTENDS Naturals, Sequences, FiniteSets

CONSTANTS Channels,      \* set of channel names
          FragmentsOf,   \* set of <<channel, fragment>>
          EntriesOf,     \* set of <<channel, entry point>>
          MaxLen

VARIABLES channel, value, entry, outcome
vars == <<channel, value, entry, outcome>>

Allowed == {"value", "http4xx", "disconnect", "consumed"}
Frags(c) == {p[2] : p \in {q \in FragmentsOf : q[1] = c}}
Entries(c) == {p[2] : p \in {q \in EntriesOf : q[1] = c}}
SeqsUpTo(S, n) == UNION {[1..m -> S] : m \in 0..n}

Init == /\ channel \in Channels
        /\ value \in SeqsUpTo(Frags(channel), MaxLen)
        /\ entry \in Entries(channel)
        /\ outcome = "pending"
\* the library is called: it must end in one of the allowed ways
Call == /\ outcome = "pending" /\ outcome' \in Allowed /\ UNCHANGED <<channel, value, entry>>
Next == Call
Spec == Init /\ [][Next]_vars
OutcomeAllowed == outcome \in Allowed \cup {"pending"}
==========================================================================
