--------------------------- MODULE HttpProtocol ---------------------------
(***************************************************************************)
(* The two server-gateway protocols as recognisers over event records, and *)
(* an emitter process (what every baize response does: start, body events, *)
(* final body) composed with an environment that injects faults.           *)
(*                                                                         *)
(* ASGI event records (fields made explicit by the harness from the raw    *)
(* message):                                                               *)
(*   [k |-> "start", ok |-> status is int /\ header names are lower-case   *)
(*                         bytes /\ values are bytes]                      *)
(*   [k |-> "body",  ok |-> body is bytes, more |-> more_body]             *)
(*   [k |-> "other", ...]    any other message type                        *)
(* WSGI event records:                                                     *)
(*   [k |-> "start", ok |-> 'NNN reason' status /\ native Latin-1 header   *)
(*                         strings, no control characters, no hop-by-hop]  *)
(*   [k |-> "item",  ok |-> item is bytes, empty |-> BOOLEAN]              *)
(* A sequence is LEGAL when the recogniser never reaches "bad"; it is      *)
(* COMPLETE in "complete" (ASGI) / "started"-or-"streaming" (WSGI).        *)
(***************************************************************************)
EXTENDS Naturals, Sequences

\* ---------------------------------------------------------------- recognisers
AsgiStep(q, e) ==
  IF q = "init" THEN (IF e.k = "start" /\ e.ok THEN "started" ELSE "bad")
  ELSE IF q \in {"started", "streaming"}
    THEN IF e.k = "body" /\ e.ok THEN (IF e.more THEN "streaming" ELSE "complete") ELSE "bad"
  ELSE "bad"      \* nothing after the final body, nothing after an error

WsgiStep(q, e) ==
  IF q = "init" THEN (IF e.k = "start" THEN (IF e.ok THEN "started" ELSE "bad")
                      ELSE IF e.k = "item" /\ e.ok /\ e.empty THEN "init"     \* no body bytes yet
                      ELSE "bad")                                             \* body bytes before start_response
  ELSE IF q = "started" THEN (IF e.k = "item" /\ e.ok THEN "started" ELSE "bad")   \* a second start is illegal
  ELSE "bad"

RECURSIVE Run(_, _, _)
Run(iface, q, s) == IF s = <<>> THEN q
                    ELSE Run(iface, IF iface = "asgi" THEN AsgiStep(q, Head(s)) ELSE WsgiStep(q, Head(s)), Tail(s))

\* ---------------------------------------------------------------- emitter + environment
CONSTANTS MaxBodies   \* a response sends 0..MaxBodies intermediate body events before the final one

VARIABLES iface,     \* "asgi" | "wsgi"
          plan,      \* number of intermediate (more_body = TRUE / non-final) pieces the producer will supply
          fault,     \* [kind |-> "none"|"sendfail"|"disconnect"|"producer"|"close", at |-> n]
          sent,      \* emitted event records
          pc,        \* "start" | "body" | "final" | "end"
          ended      \* "running" | "returned" | "raised" | "closed"
vars == <<iface, plan, fault, sent, pc, ended>>

FaultKinds == {"none", "sendfail", "disconnect", "producer", "close"}
Init == /\ iface \in {"asgi", "wsgi"} /\ plan \in 0..MaxBodies
        /\ fault \in [kind : FaultKinds, at : 0..(MaxBodies + 2)]
        /\ (fault.kind \in {"disconnect", "sendfail"} => iface = "asgi")
        /\ (fault.kind = "close" => iface = "wsgi")
        /\ sent = <<>> /\ pc = "start" /\ ended = "running"

NSent == Len(sent)
Start == [k |-> "start", ok |-> TRUE, more |-> FALSE, empty |-> FALSE]
Body(more) == IF iface = "asgi" THEN [k |-> "body", ok |-> TRUE, more |-> more, empty |-> FALSE]
              ELSE [k |-> "item", ok |-> TRUE, more |-> FALSE, empty |-> FALSE]
Intermediate == Len(SelectSeq(sent, LAMBDA e : e.k # "start"))

\* the n-th send() raises: the exception propagates, nothing more is emitted
SendFails == fault.kind = "sendfail" /\ NSent + 1 = fault.at
\* the server stops iterating and calls close() after `at` items (WSGI)
Closed == fault.kind = "close" /\ Intermediate >= fault.at /\ pc # "start"
\* the producer raises instead of supplying piece number `at`
ProducerRaises == fault.kind = "producer" /\ pc = "body" /\ Intermediate + 1 = fault.at
\* the client has disconnected after `at` sends: the streaming loop stops producing
Disconnected == fault.kind = "disconnect" /\ NSent >= fault.at

EmitStart == /\ pc = "start" /\ ended = "running"
             /\ IF SendFails THEN ended' = "raised" /\ UNCHANGED <<sent, pc>>
                ELSE sent' = Append(sent, Start) /\ pc' = "body" /\ UNCHANGED ended
             /\ UNCHANGED <<iface, plan, fault>>

EmitBody == /\ pc = "body" /\ ended = "running"
            /\ IF Closed THEN ended' = "closed" /\ UNCHANGED <<sent, pc>>
               ELSE IF ProducerRaises THEN ended' = "raised" /\ UNCHANGED <<sent, pc>>
               ELSE IF Intermediate >= plan \/ Disconnected THEN pc' = "final" /\ UNCHANGED <<sent, ended>>
               ELSE IF SendFails THEN ended' = "raised" /\ UNCHANGED <<sent, pc>>
               ELSE sent' = Append(sent, Body(TRUE)) /\ UNCHANGED <<pc, ended>>
            /\ UNCHANGED <<iface, plan, fault>>

\* ASGI sends a final body event; a WSGI iterable simply ends
EmitFinal == /\ pc = "final" /\ ended = "running"
             /\ IF iface = "wsgi" THEN ended' = "returned" /\ pc' = "end" /\ UNCHANGED sent
                ELSE IF SendFails THEN ended' = "raised" /\ UNCHANGED <<sent, pc>>
                ELSE sent' = Append(sent, Body(FALSE)) /\ pc' = "end" /\ ended' = "returned"
             /\ UNCHANGED <<iface, plan, fault>>

Next == EmitStart \/ EmitBody \/ EmitFinal
Spec == Init /\ [][Next]_vars

\* ---------------------------------------------------------------- properties
LegalPrefix == Run(iface, "init", sent) # "bad"
LegalComplete == ended = "returned" =>
                   Run(iface, "init", sent) = (IF iface = "asgi" THEN "complete" ELSE "started")
==========================================================================
