------------------------- MODULE TraceWebSocket -------------------------
(***************************************************************************)
(* Trace validation for WebSocket.tla: is every recorded execution of the  *)
(* real baize.asgi.WebSocket a behaviour of the specification?             *)
(*                                                                         *)
(* The file named by the environment variable TRACE_FILE holds a JSON      *)
(* array of traces {script: [...], events: [{op, arg, cs, ast, rpos,       *)
(* nfwd, last, ngot, ret}, ...]}; one event per public call, logged at its *)
(* return (error path included).  All traces are validated in one TLC run: *)
(* `tid` picks the trace, `l` is the position in it.  Register 100+tid     *)
(* keeps the longest prefix of trace tid that the specification explains.  *)
(***************************************************************************)
EXTENDS WebSocket, Json, IOUtils, TLC, TLCExt

Traces == JsonDeserialize(IOEnv.TRACE_FILE)
NTraces == Len(Traces)

VARIABLES tid, l
tvars == <<cs, ast, script, rpos, fwd, got, ret, failAt, tid, l>>

ASSUME \A i \in 1..NTraces : TLCSet(100 + i, 0)

T == Traces[tid]
Ev == T.events[l]

TraceInit == /\ tid \in 1..NTraces /\ l = 1
             /\ cs = "CONNECTING" /\ ast = "CONNECTING"
             /\ script = Traces[tid].script /\ failAt = Traces[tid].failAt
             /\ rpos = 0 /\ fwd = <<>> /\ got = <<>> /\ ret = "init"

\* the logged post-state must be the specification's post-state
Matches == /\ cs' = Ev.cs /\ ast' = Ev.ast /\ rpos' = Ev.rpos /\ ret' = Ev.ret
           /\ Len(fwd') = Ev.nfwd
           /\ (Ev.nfwd > 0 => fwd'[Ev.nfwd] = Ev.last)
           /\ Len(got') = Ev.ngot

Step(name, A) == /\ l <= Len(T.events) /\ Ev.op = name
                 /\ A /\ Matches
                 /\ l' = l + 1 /\ UNCHANGED tid

TraceNext == \/ Step("Receive", Receive)
             \/ Step("ReceiveText", ReceiveTyped("text"))
             \/ Step("ReceiveBytes", ReceiveTyped("bytes"))
             \/ \E t \in {"accept", "close", "send"} :
                   Step("SendRaw", l <= Len(T.events) /\ Ev.arg = t /\ DoSend(t))
             \/ Step("SendText", DoSend("send"))
             \/ Step("SendBytes", DoSend("send"))
             \/ Step("Accept", Accept)
             \/ Step("Close", Close)

TraceSpec == TraceInit /\ [][TraceNext]_tvars

Progress == IF l - 1 > TLCGet(100 + tid) THEN TLCSet(100 + tid, l - 1) ELSE TRUE

Post == JsonSerialize(IOEnv.PREFIX_FILE, [i \in 1..NTraces |-> TLCGet(100 + i)])
==========================================================================
