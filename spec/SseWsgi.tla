------------------------------ MODULE SseWsgi ------------------------------
(***************************************************************************)
(* baize/wsgi/responses.py : SendEventResponse.render_stream               *)
(*                                                                         *)
(* Three parties share a one-slot queue `q`, the flag `stop` and the       *)
(* future of the push ("relay") thread:                                    *)
(*   relay     pool thread running push(): put(next(i)) until stop, then   *)
(*             put(None) and close the user's generator                    *)
(*   consumer  the response generator: get(timeout=ping) -> yield; in its  *)
(*             finally: stop, cancel-or-drain, wait for the relay          *)
(*   server    calls next() / close() on the response iterable, or stops   *)
(*             calling                                                     *)
(* Grain of atomicity = the points at which a thread can block or be       *)
(* pre-empted observably: every queue operation, the future's cancel /     *)
(* exception, each yield of the user's generator, each server call.  These *)
(* are exactly the control points of harness/sched.py, so every transition *)
(* here can be forced onto the real threads.                               *)
(*                                                                         *)
(* Fixed = TRUE : the repaired finally block (drain until the final None   *)
(*                arrives), which is what the code does now.               *)
(* Fixed = FALSE: the original one (drain once, then wait) - kept as the   *)
(*                standing witness: TLC must find its deadlock.            *)
(***************************************************************************)
EXTENDS Naturals, Sequences, FiniteSets

CONSTANTS MaxN,     \* the user's generator yields n \in 0..MaxN items before it is exhausted
          Fixed,
          CancelFirst   \* TRUE: the finally block first tries push_future.cancel() (the code); FALSE: it drains and joins
                        \* unconditionally (witness: with every pool worker busy the relay never starts and close() never returns)

VARIABLES n,          \* items the user's generator would yield (fixed per behaviour)
          raiseAt,    \* 0: never; k > 0: the generator raises instead of yielding item k (fixed per behaviour)
          cleanupRaises, \* the generator's cleanup code itself raises when it is closed while suspended (fixed per behaviour)
          q,          \* queue content: <<>> or <<item>> ; item k in 1..n, 0 stands for None
          stop,       \* should_stop
          rpc,        \* relay: "none" (not submitted) | "queued" | "atYield" | "atExhausted" | "atRaise" | "atPut" | "atPutNone" | "atClose" | "done"
          held,       \* item the relay is about to put
          produced,   \* items the generator has yielded so far
          gen,        \* user's generator: "unstarted" | "suspended" | "finished"
          genClosed,  \* how many times its cleanup (finally) ran
          fut,        \* "none" | "pending" | "running" | "done" | "failed" | "cancelled"
          cpc,        \* consumer: "unstarted" | "get" | "yielded" | "drain" | "join" | "ret"
          got,        \* got_sentinel
          delivered,  \* items handed to the server, in order
          pings,      \* ping comments handed to the server (bounded by the state constraint)
          closing     \* the finally block was entered through close()
vars == <<n, raiseAt, cleanupRaises, q, stop, rpc, held, produced, gen, genClosed, fut, cpc, got, delivered, pings, closing>>

\* how the server's last call ended: "open" (iterable still usable / call in progress), "exhausted"
\* (StopIteration), "closed" (close() returned), "raised" (the producer's own exception came out)
outcome == IF cpc # "ret" THEN "open"
           ELSE IF fut = "failed" THEN "raised" ELSE IF closing THEN "closed" ELSE "exhausted"

Init == /\ n \in 0..MaxN /\ raiseAt \in 0..n /\ cleanupRaises \in BOOLEAN
        /\ q = <<>> /\ stop = FALSE /\ rpc = "none" /\ held = 0 /\ produced = 0
        /\ gen = "unstarted" /\ genClosed = 0 /\ fut = "none"
        /\ cpc = "unstarted" /\ got = FALSE /\ delivered = <<>> /\ pings = 0 /\ closing = FALSE

RelayDone == fut \in {"done", "failed", "cancelled"}

\* ---------------------------------------------------------------- relay thread
\* advance the user's generator to its next control point (called with the relay in push())
GenAdvance(p) ==   \* p = number already produced
  IF raiseAt > 0 /\ p + 1 = raiseAt THEN "atRaise"
  ELSE IF p < n THEN "atYield" ELSE "atExhausted"

\* the pool thread starts push(): i = iter(iterable); `while not should_stop` ; next(i)
RelayStart == /\ UNCHANGED <<n, raiseAt, cleanupRaises>> /\ rpc = "queued" /\ fut = "pending"
              /\ fut' = "running"
              /\ IF stop THEN rpc' = "atPutNone" /\ UNCHANGED gen
                         ELSE rpc' = GenAdvance(produced) /\ gen' = "suspended"
              /\ UNCHANGED <<q, stop, held, produced, genClosed, cpc, got, delivered, pings, closing>>

\* the generator yields its next item; the relay arrives at q.put(item)
RelayYield == /\ UNCHANGED <<n, raiseAt, cleanupRaises>> /\ rpc = "atYield"
              /\ produced' = produced + 1 /\ held' = produced + 1 /\ rpc' = "atPut"
              /\ UNCHANGED <<q, stop, gen, genClosed, fut, cpc, got, delivered, pings, closing>>

\* q.put(item) succeeds (blocks while the slot is taken); then the loop test and next(i)
RelayPut == /\ UNCHANGED <<n, raiseAt, cleanupRaises>> /\ rpc = "atPut" /\ q = <<>>
            /\ q' = <<held>>
            /\ rpc' = IF stop THEN "atPutNone" ELSE GenAdvance(produced)
            /\ UNCHANGED <<stop, held, produced, gen, genClosed, fut, cpc, got, delivered, pings, closing>>

\* StopIteration: the generator's own finally has run; should_stop = True; on to the final put
RelayExhausted == /\ UNCHANGED <<n, raiseAt, cleanupRaises>> /\ rpc = "atExhausted"
                  /\ gen' = "finished" /\ genClosed' = genClosed + 1
                  /\ stop' = TRUE /\ rpc' = "atPutNone"
                  /\ UNCHANGED <<q, held, produced, fut, cpc, got, delivered, pings, closing>>

\* the generator raises: its finally has run, the exception leaves the loop, push()'s finally starts
RelayRaise == /\ UNCHANGED <<n, raiseAt, cleanupRaises>> /\ rpc = "atRaise"
              /\ gen' = "finished" /\ genClosed' = genClosed + 1
              /\ rpc' = "atPutNone" /\ fut' = "failed"   \* (recorded now, visible once the thread is done)
              /\ UNCHANGED <<q, stop, held, produced, cpc, got, delivered, pings, closing>>

\* finally: q.put(None) (blocking) ...
RelayPutNone == /\ UNCHANGED <<n, raiseAt, cleanupRaises>> /\ rpc = "atPutNone" /\ q = <<>>
                /\ q' = <<0>>
                /\ rpc' = "atClose"
                /\ UNCHANGED <<stop, held, produced, gen, genClosed, fut, cpc, got, delivered, pings, closing>>

\* ... then g.close() - which runs the generator's cleanup if it is still suspended - and the thread ends
RelayClose == /\ UNCHANGED <<n, raiseAt, cleanupRaises>> /\ rpc = "atClose"
              /\ rpc' = "done"
              /\ IF gen = "suspended" THEN gen' = "finished" /\ genClosed' = genClosed + 1
                                      ELSE UNCHANGED <<gen, genClosed>>
              /\ fut' = IF fut = "failed" \/ (gen = "suspended" /\ cleanupRaises) THEN "failed" ELSE "done"
              /\ UNCHANGED <<q, stop, held, produced, cpc, got, delivered, pings, closing>>

ThreadOver == rpc = "done"     \* push_future.done() for a started thread

\* ---------------------------------------------------------------- consumer, driven by the server
\* push_future.exception() blocks only while the thread is still running
JoinOrRet == IF rpc = "done" THEN "ret" ELSE "join"

\* what the finally block does up to its first blocking point
Finally(gotNow) ==
  /\ stop' = TRUE
  /\ IF CancelFirst /\ fut = "pending"
       THEN /\ fut' = "cancelled" /\ rpc' = "done" /\ cpc' = "ret" /\ got' = gotNow    \* cancel() succeeded
            /\ UNCHANGED <<q>>
       ELSE /\ UNCHANGED <<fut, rpc>>
            /\ IF Fixed
                 THEN IF gotNow THEN cpc' = JoinOrRet /\ got' = gotNow /\ UNCHANGED q
                                ELSE cpc' = "drain" /\ got' = gotNow /\ UNCHANGED q
                 ELSE \* original: `while not q.empty(): q.get_nowait()` once, then wait for the thread
                      /\ q' = <<>> /\ cpc' = JoinOrRet /\ got' = gotNow

\* first next(): start_response, submit push(), enter the loop -> q.get(timeout)
SrvFirstNext == /\ UNCHANGED <<n, raiseAt, cleanupRaises>> /\ cpc = "unstarted"
                /\ rpc' = "queued" /\ fut' = "pending" /\ cpc' = "get"
                /\ UNCHANGED <<q, stop, held, produced, gen, genClosed, got, delivered, pings, closing>>

\* next() on the suspended generator: loop test, then q.get(timeout)
SrvNext == /\ UNCHANGED <<n, raiseAt, cleanupRaises>> /\ cpc = "yielded"
           /\ IF ThreadOver /\ q = <<>>
                THEN Finally(got) /\ UNCHANGED <<held, produced, gen, genClosed, delivered, pings, closing>>
                ELSE cpc' = "get" /\ UNCHANGED <<q, stop, rpc, held, produced, gen, genClosed, fut, got, delivered, pings, closing>>

\* q.get(timeout) returns an item
ConsGet == /\ UNCHANGED <<n, raiseAt, cleanupRaises>> /\ cpc = "get" /\ q # <<>>
           /\ IF q[1] = 0
                THEN /\ q' = <<>> /\ stop' = TRUE /\ got' = TRUE /\ cpc' = JoinOrRet    \* break -> finally; cancel() fails; no drain
                     /\ UNCHANGED <<delivered, rpc, fut>>
                ELSE /\ q' = <<>> /\ delivered' = Append(delivered, q[1]) /\ cpc' = "yielded"
                     /\ UNCHANGED <<stop, got, rpc, fut>>
           /\ UNCHANGED <<held, produced, gen, genClosed, pings, closing>>

\* q.get(timeout) times out: a ping comment is yielded
ConsTimeout == /\ UNCHANGED <<n, raiseAt, cleanupRaises>> /\ cpc = "get" /\ q = <<>>
               /\ pings' = pings + 1 /\ cpc' = "yielded"
               /\ UNCHANGED <<q, stop, rpc, held, produced, gen, genClosed, fut, got, delivered, closing>>

\* close() on the response iterable
SrvClose == /\ UNCHANGED <<n, raiseAt, cleanupRaises>> /\ cpc \in {"unstarted", "yielded"}
            /\ closing' = TRUE
            /\ IF cpc = "unstarted"
                 THEN /\ cpc' = "ret"
                      /\ UNCHANGED <<q, stop, rpc, fut, got>>
                 ELSE Finally(got)
            /\ UNCHANGED <<held, produced, gen, genClosed, delivered, pings>>

\* repaired finally: `while not got_sentinel: got_sentinel = q.get() is None`
ConsDrain == /\ UNCHANGED <<n, raiseAt, cleanupRaises>> /\ cpc = "drain" /\ q # <<>>
             /\ q' = <<>>
             /\ IF q[1] = 0 THEN got' = TRUE /\ cpc' = JoinOrRet ELSE UNCHANGED <<got, cpc>>
             /\ UNCHANGED <<stop, rpc, held, produced, gen, genClosed, fut, delivered, pings, closing>>

\* push_future.exception(): returns once the thread is over; the producer's exception is re-raised
ConsJoin == /\ UNCHANGED <<n, raiseAt, cleanupRaises>> /\ cpc = "join" /\ ThreadOver
            /\ cpc' = "ret"
            /\ UNCHANGED <<q, stop, rpc, held, produced, gen, genClosed, fut, got, delivered, pings, closing>>

Relay == RelayStart \/ RelayYield \/ RelayPut \/ RelayExhausted \/ RelayRaise \/ RelayPutNone \/ RelayClose
Consumer == ConsGet \/ ConsTimeout \/ ConsDrain \/ ConsJoin
Server == SrvFirstNext \/ SrvNext \/ SrvClose
Next == Relay \/ Consumer \/ Server

Spec == Init /\ [][Next]_vars
FairSpec == Spec /\ WF_vars(Relay) /\ WF_vars(ConsGet \/ ConsDrain \/ ConsJoin)

\* the class-wide pool has ten workers: with ten other streams alive this stream's relay job stays queued.  No fairness for
\* RelayStart then - the call must return all the same once the server closes the iterable.
FairSpecNoPool == Spec /\ WF_vars(RelayYield \/ RelayPut \/ RelayExhausted \/ RelayRaise \/ RelayPutNone \/ RelayClose)
                       /\ WF_vars(ConsGet \/ ConsDrain \/ ConsJoin)
CloseReturns == closing ~> (cpc = "ret")

Bound == pings <= 2

\* ---------------------------------------------------------------- properties
InCall == cpc \in {"get", "drain", "join"}
\* a server call in progress can always make progress: some step of the consumer or the relay is enabled
NoStuck == InCall => (ENABLED Consumer \/ ENABLED Relay)
\* once the finally block runs, the call returns
Terminates == (cpc \in {"drain", "join"}) ~> (cpc = "ret")

\* cleanup of the user's generator runs at most once; after the call has ended the generator is not
\* left suspended, no pool thread is alive, and a started generator was cleaned up exactly once
ClosedOnce == /\ genClosed <= 1
              /\ cpc = "ret" =>
                    /\ gen # "suspended"
                    /\ (gen = "finished" => genClosed = 1)
                    /\ rpc \in {"none", "done"}
NoLeak == cpc = "ret" => (fut \in {"none", "done", "failed", "cancelled"} /\ rpc \in {"none", "done"})

\* everything delivered was yielded, in order, without loss or duplication
Delivered == /\ \A k \in 1..Len(delivered) : delivered[k] = k
             /\ Len(delivered) <= produced
\* a producer failure is reported, not swallowed
RaisedIsReported == (cpc = "ret" /\ fut = "failed") => outcome = "raised"
==========================================================================
