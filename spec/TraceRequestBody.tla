------------------------- MODULE TraceRequestBody -------------------------
(***************************************************************************)
(* Trace validation for RequestBody.tla.  An execution of the real ASGI    *)
(* Request under the virtual-time loop logs one event per finished access: *)
(* which task, how it ended (ok / RuntimeError / ClientDisconnect /        *)
(* HTTPError) and how many server messages receive() had handed out by     *)
(* then.  Everything else - when the server makes a message available,     *)
(* when a shared body / json / form computation gets its turn, a task that *)
(* suspends - is not observable from outside and is a silent step of the   *)
(* trace spec; TLC searches for an interleaving of RequestBody.tla that    *)
(* explains the logged order of results and message counts.                *)
(* TRACE_FILE: JSON array of {sc: scenario, events: [{t, r, rx}, ...]}.     *)
(***************************************************************************)
EXTENDS RequestBody, Json, IOUtils, TLC, TLCExt

Traces == JsonDeserialize(IOEnv.TRACE_FILE)
NTraces == Len(Traces)
VARIABLES tid, l
tvars == <<vars, tid, l>>
ASSUME \A i \in 1..NTraces : TLCSet(100 + i, 0)
T == Traces[tid]
E == T.events[l]

TraceInit == /\ tid \in 1..NTraces /\ l = 1
             /\ sc = T.sc
             /\ avail = IF sc.atomic THEN NMsgs ELSE 0
             /\ rx = 0 /\ consumed = FALSE /\ reader = "none" /\ got = 0
             /\ fut = [f \in {"body", "json", "form"} |-> "absent"]
             /\ tk = [t \in 1..Len(T.sc.progs) |-> [pc |-> 1, st |-> "ready", res |-> <<>>]]

Silent == UNCHANGED <<tid, l>>
Finishes(t) == Len(tk'[t].res) = Len(tk[t].res) + 1

TraceNext ==
  \/ (Silent /\ Deliver)
  \/ (Silent /\ \E f \in {"body", "json", "form"} : FutStart(f) \/ FutMsg(f) \/ FutBody(f))
  \/ (Silent /\ \E t \in Tasks : (TaskStep(t) \/ TaskMsg(t)) /\ ~Finishes(t))
  \/ (/\ l <= Len(T.events) /\ l' = l + 1 /\ UNCHANGED tid
      /\ LET t == E.t IN
         /\ t \in Tasks
         /\ (TaskStep(t) \/ TaskWake(t) \/ TaskMsg(t)) /\ Finishes(t)
         /\ tk'[t].res[Len(tk'[t].res)] = E.r
         /\ rx' = E.rx)

TraceSpec == TraceInit /\ [][TraceNext]_tvars
Progress == IF l - 1 > TLCGet(100 + tid) THEN TLCSet(100 + tid, l - 1) ELSE TRUE
Post == JsonSerialize(IOEnv.PREFIX_FILE, [i \in 1..NTraces |-> TLCGet(100 + i)])
==========================================================================
