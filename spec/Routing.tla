----------------------------- MODULE Routing -----------------------------
(***************************************************************************)
(* baize/routing.py : convertors, compile_path, Route.matches,             *)
(* BaseRouter.search; */routing.py Router.__call__                         *)
(*                                                                         *)
(* Property level.  A path is a sequence of characters; a route pattern a  *)
(* sequence of elements, each a literal character or a placeholder         *)
(* {name:type}.  A pattern matches a path iff the WHOLE path can be split  *)
(* so that literals appear verbatim and every placeholder takes a string   *)
(* of its type's language.  The router tries the routes in declaration     *)
(* order (one TryRoute step per route, as BaseRouter.search does) and      *)
(* answers 404 when none matches.                                          *)
(*                                                                         *)
(* Characters are symbols; the harness maps "N" to a newline and "U" to a  *)
(* non-ASCII decimal digit, every other symbol to itself.                  *)
(***************************************************************************)
EXTENDS Naturals, Sequences, FiniteSets

CONSTANTS Patterns,   \* SEQUENCE of patterns; pattern = Seq([t |-> "lit", c |-> char] | [t |-> "ph", ty |-> type])
          Tables,     \* SEQUENCE of route tables; table = Seq(index into Patterns)
          PathList,   \* SEQUENCE of paths; path = Seq(char)
          Cases       \* set of <<table index, path index>> to explore

VARIABLES tab, pth, i, chosen, splits
vars == <<tab, pth, i, chosen, splits>>

ThePatterns == Patterns
TheTables == Tables
ThePaths == PathList

Digits == {"0", "1", "2", "3", "4", "5", "6", "7", "8", "9"}
HexLower == {"a", "b", "c", "d", "e", "f"}
DigitVal(c) == CASE c = "0" -> 0 [] c = "1" -> 1 [] c = "2" -> 2 [] c = "3" -> 3 [] c = "4" -> 4
                 [] c = "5" -> 5 [] c = "6" -> 6 [] c = "7" -> 7 [] c = "8" -> 8 [] c = "9" -> 9

AllIn(s, S) == \A k \in 1..Len(s) : s[k] \in S

\* ---------------------------------------------------------------- the languages of the statement
IsStr(s) == s # <<>> /\ \A k \in 1..Len(s) : s[k] # "/"
IsInt(s) == s # <<>> /\ AllIn(s, Digits)
IsDecimal(s) ==
  LET dots == {k \in 1..Len(s) : s[k] = "."} IN
  \/ IsInt(s)
  \/ /\ Cardinality(dots) = 1
     /\ LET p == CHOOSE k \in dots : TRUE IN
        /\ p > 1 /\ p < Len(s)
        /\ IsInt(SubSeq(s, 1, p - 1)) /\ IsInt(SubSeq(s, p + 1, Len(s)))
IsUuid(s) == /\ Len(s) = 36
             /\ \A k \in 1..36 : IF k \in {9, 14, 19, 24} THEN s[k] = "-" ELSE s[k] \in Digits \cup HexLower
Num2(a, b) == 10 * DigitVal(a) + DigitVal(b)
Year(s) == 1000 * DigitVal(s[1]) + 100 * DigitVal(s[2]) + 10 * DigitVal(s[3]) + DigitVal(s[4])
Leap(y) == (y % 4 = 0 /\ y % 100 # 0) \/ y % 400 = 0
DaysIn(y, m) == IF m \in {4, 6, 9, 11} THEN 30 ELSE IF m = 2 THEN (IF Leap(y) THEN 29 ELSE 28) ELSE 31
IsDateShape(s) == /\ Len(s) = 10 /\ s[5] = "-" /\ s[8] = "-"
                  /\ \A k \in {1, 2, 3, 4, 6, 7, 9, 10} : s[k] \in Digits
\* "date: YYYY-MM-DD ... converted to the value they denote": it has to denote a calendar date
IsDate(s) == /\ IsDateShape(s)
             /\ LET y == Year(s) m == Num2(s[6], s[7]) d == Num2(s[9], s[10]) IN
                y >= 1 /\ m \in 1..12 /\ d >= 1 /\ d <= DaysIn(y, m)

InLang(ty, s) == CASE ty = "str" -> IsStr(s)
                   [] ty = "int" -> IsInt(s)
                   [] ty = "decimal" -> IsDecimal(s)
                   [] ty = "uuid" -> IsUuid(s)
                   [] ty = "date" -> IsDate(s)
                   [] ty = "any" -> TRUE

\* ---------------------------------------------------------------- matching = existence of a split
\* the set of parameter-text lists with which pat[k..] matches path[pos..] exactly
RECURSIVE SplitsFrom(_, _, _, _)
SplitsFrom(pat, k, path, pos) ==
  IF k > Len(pat) THEN (IF pos = Len(path) + 1 THEN {<<>>} ELSE {})
  ELSE LET e == pat[k] IN
       IF e.t = "lit"
         THEN IF pos <= Len(path) /\ path[pos] = e.c THEN SplitsFrom(pat, k + 1, path, pos + 1) ELSE {}
         ELSE UNION { { <<SubSeq(path, pos, en)>> \o r : r \in SplitsFrom(pat, k + 1, path, en + 1) } :
                      en \in { x \in (pos - 1)..Len(path) : InLang(e.ty, SubSeq(path, pos, x)) } }

AllSplits(p, s) == SplitsFrom(p, 1, s, 1)
Matches(p, s) == AllSplits(p, s) # {}

\* ---------------------------------------------------------------- the router
Table == TheTables[tab]
Path == ThePaths[pth]
Pat(j) == ThePatterns[Table[j]]

TheCases == Cases
Init == /\ \E c \in TheCases : tab = c[1] /\ pth = c[2]
        /\ i = 1 /\ chosen = 0 /\ splits = {}

TryRoute == /\ chosen = 0 /\ i <= Len(Table)
            /\ LET sp == AllSplits(Pat(i), Path) IN
               IF sp # {} THEN chosen' = i /\ splits' = sp /\ i' = i
                          ELSE i' = i + 1 /\ UNCHANGED <<chosen, splits>>
            /\ UNCHANGED <<tab, pth>>

NoRoute == /\ chosen = 0 /\ i > Len(Table)
           /\ chosen' = 0 - 1
           /\ UNCHANGED <<tab, pth, i, splits>>

Next == TryRoute \/ NoRoute
Spec == Init /\ [][Next]_vars

\* ---------------------------------------------------------------- properties
FirstMatching ==
  /\ chosen > 0 => (Matches(Pat(chosen), Path) /\ \A j \in 1..(chosen - 1) : ~Matches(Pat(j), Path))
  /\ chosen < 0 => \A j \in 1..Len(Table) : ~Matches(Pat(j), Path)

\* every reported split is a split of the whole path: re-assembling literals and parameter
\* texts gives the path back, and each text is in its placeholder's language
RECURSIVE Assemble(_, _)
Assemble(p, sp) == IF p = <<>> THEN <<>>
                   ELSE IF Head(p).t = "lit" THEN <<Head(p).c>> \o Assemble(Tail(p), sp)
                   ELSE Head(sp) \o Assemble(Tail(p), Tail(sp))
PlaceholderTypes(p) == LET q == SelectSeq(p, LAMBDA e : e.t = "ph") IN [k \in 1..Len(q) |-> q[k].ty]
SplitsSound ==
  chosen > 0 => \A sp \in splits :
     /\ Assemble(Pat(chosen), sp) = Path
     /\ Len(sp) = Len(PlaceholderTypes(Pat(chosen)))
     /\ \A k \in 1..Len(sp) : InLang(PlaceholderTypes(Pat(chosen))[k], sp[k])
==========================================================================
