--------------------------- MODULE TraceSseWire ---------------------------
(***************************************************************************)
(* Trace validation for SseWire.tla: long sequences of events (the         *)
(* exhaustive model stops at 2-3 events of at most one character) through  *)
(* the real build_bytes_from_sse / SendEventResponse, with ping comments   *)
(* in between.                                                             *)
(* TRACE_FILE: JSON array of {events: [{k: "event", e: <event record over  *)
(* character classes>, wire: <everything the client has received so far,   *)
(* as class symbols>} | {k: "ping", wire: ...}]}; one entry per yielded     *)
(* event / ping, logged when its bytes have been produced.                 *)
(* Strict = FALSE: the step writes the OBSERVED wire into `wire` and the   *)
(* module's client (Parse) reads it: RoundTrip judges the implementation's *)
(* bytes.  Strict = TRUE: the observed wire must be the module's own       *)
(* Encode / Ping appended to the previous one.                             *)
(***************************************************************************)
EXTENDS SseWire, Json, IOUtils, TLC, TLCExt

CONSTANT Strict

Traces == JsonDeserialize(IOEnv.TRACE_FILE)
NTraces == Len(Traces)

VARIABLES tid, l
tvars == <<vars, tid, l>>

ASSUME \A i \in 1..NTraces : TLCSet(100 + i, 0)

T == Traces[tid]
Ev == T.events[l]

TraceInit == /\ tid \in 1..NTraces /\ l = 1 /\ Init

TYield == /\ l <= Len(T.events) /\ Ev.k = "event"
          /\ yielded' = Append(yielded, Ev.e) /\ wire' = Ev.wire /\ parsed' = Parse(Ev.wire) /\ UNCHANGED npings
          /\ Strict => Ev.wire = wire \o Encode(Ev.e)
          /\ l' = l + 1 /\ UNCHANGED tid
TPing == /\ l <= Len(T.events) /\ Ev.k = "ping"
         /\ npings' = npings + 1 /\ wire' = Ev.wire /\ parsed' = Parse(Ev.wire) /\ UNCHANGED yielded
         /\ Strict => Ev.wire = wire \o Ping
         /\ l' = l + 1 /\ UNCHANGED tid

TraceSpec == TraceInit /\ [][TYield \/ TPing]_tvars

Progress == IF l - 1 > TLCGet(100 + tid) THEN TLCSet(100 + tid, l - 1) ELSE TRUE
Post == JsonSerialize(IOEnv.PREFIX_FILE, [i \in 1..NTraces |-> TLCGet(100 + i)])
==========================================================================
