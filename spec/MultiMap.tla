----------------------------- MODULE MultiMap -----------------------------
(***************************************************************************)
(* baize/datastructures.py : MultiMapping / MutableMultiMapping            *)
(*                                                                         *)
(* The class keeps TWO representations that every mutator must keep in     *)
(* step: `_list` (all pairs, in order) and `_dict` (last value per key; a  *)
(* Python dict, so it also has a key ORDER, which popitem()/clear() use).  *)
(* Both are variables here; each action is the code's own algorithm, the   *)
(* MutableMapping mix-ins (pop, popitem, setdefault, update, clear) are    *)
(* written as their definitions in terms of __getitem__/__setitem__/       *)
(* __delitem__/__iter__, exactly as collections.abc composes them.         *)
(***************************************************************************)
EXTENDS Naturals, Sequences, FiniteSets

CONSTANTS Keys, Vals, MaxInit, MaxLen, MaxSetList

VARIABLES lst,   \* _list : Seq(<<key, value>>)
          dct,   \* _dict : Seq(<<key, value>>) with unique keys, in dict insertion order
          ret    \* outcome of the last call, always a tuple: <<"none">>, <<"KeyError">>, <<"val", v>>, ...

vars == <<lst, dct, ret>>

\* ------------------------------------------------------------ sequence helpers
IdxOf(s, k) == {i \in 1..Len(s) : s[i][1] = k}
Without(s, k) == SelectSeq(s, LAMBDA p : p[1] # k)
ValuesOf(s, k) == LET t == SelectSeq(s, LAMBDA p : p[1] = k) IN [i \in 1..Len(t) |-> t[i][2]]
MinOf(S) == CHOOSE x \in S : \A y \in S : x <= y
KeysOf(s) == {s[i][1] : i \in 1..Len(s)}
LastOf(s) == s[Len(s)]

\* ------------------------------------------------------------ dict helpers
DHas(d, k) == IdxOf(d, k) # {}
DGet(d, k) == d[MinOf(IdxOf(d, k))][2]
DSet(d, k, v) == IF DHas(d, k) THEN [d EXCEPT ![MinOf(IdxOf(d, k))] = <<k, v>>] ELSE Append(d, <<k, v>>)
DDel(d, k) == Without(d, k)

\* dict(items): first-occurrence order, last value
RECURSIVE DictOf(_)
DictOf(s) == IF s = <<>> THEN <<>> ELSE DSet(DictOf(SubSeq(s, 1, Len(s) - 1)), LastOf(s)[1], LastOf(s)[2])

R(l, d, r) == [l |-> l, d |-> d, r |-> r]

\* ------------------------------------------------------------ the mutators, as functions
\* __setitem__: replace the first occurrence, delete the others; else append
FSetItem(l, d, k, v) ==
  LET idx == IdxOf(l, k) IN
  IF idx = {} THEN R(Append(l, <<k, v>>), DSet(d, k, v), <<"none">>)
  ELSE LET first == MinOf(idx)
       IN R(SubSeq(l, 1, first - 1) \o <<<<k, v>>>> \o Without(SubSeq(l, first + 1, Len(l)), k),
            DSet(d, k, v), <<"none">>)

\* __delitem__: rebuild the list without the key, then `del self._dict[key]` (KeyError if absent)
FDelItem(l, d, k) ==
  IF DHas(d, k) THEN R(Without(l, k), DDel(d, k), <<"none">>)
  ELSE R(Without(l, k), d, <<"KeyError">>)

\* setlist: non-empty -> others + new pairs at the END, dict gets the last value;
\*          empty -> delete the key if present
FSetList(l, d, k, vs) ==
  IF vs # <<>> THEN R(Without(l, k) \o [i \in 1..Len(vs) |-> <<k, vs[i]>>], DSet(d, k, LastOf(vs)), <<"none">>)
  ELSE IF DHas(d, k) THEN FDelItem(l, d, k)
  ELSE R(l, d, <<"none">>)

\* poplist: values first, then del with KeyError swallowed
FPopList(l, d, k) ==
  LET x == FDelItem(l, d, k) IN R(x.l, x.d, <<"list", ValuesOf(l, k)>>)

FAppend(l, d, k, v) == R(Append(l, <<k, v>>), DSet(d, k, v), <<"none">>)

\* MutableMapping.pop(key[, default])
FPop(l, d, k, hasDefault) ==
  IF DHas(d, k) THEN LET x == FDelItem(l, d, k) IN R(x.l, x.d, <<"val", DGet(d, k)>>)
  ELSE IF hasDefault THEN R(l, d, <<"default">>) ELSE R(l, d, <<"KeyError">>)

\* MutableMapping.popitem(): key = next(iter(self)) -> first key of the dict
FPopItem(l, d) ==
  IF d = <<>> THEN R(l, d, <<"KeyError">>)
  ELSE LET k == d[1][1] x == FDelItem(l, d, k) IN R(x.l, x.d, <<"item", k, DGet(d, k)>>)

\* MutableMapping.clear(): popitem() until KeyError
RECURSIVE FClear(_, _)
FClear(l, d) == IF d = <<>> THEN R(l, d, <<"none">>)
                ELSE LET x == FPopItem(l, d) IN FClear(x.l, x.d)

\* MutableMapping.setdefault
FSetDefault(l, d, k, v) ==
  IF DHas(d, k) THEN R(l, d, <<"val", DGet(d, k)>>)
  ELSE LET x == FSetItem(l, d, k, v) IN R(x.l, x.d, <<"val", v>>)

\* MutableMapping.update(mapping): for key in other: self[key] = other[key]
RECURSIVE FUpdate(_, _, _)
FUpdate(l, d, m) ==
  IF m = <<>> THEN R(l, d, <<"none">>)
  ELSE LET x == FSetItem(l, d, m[1][1], m[1][2]) IN FUpdate(x.l, x.d, Tail(m))

\* ------------------------------------------------------------ behaviour
Pairs == Keys \X Vals
SeqsUpTo(S, n) == UNION {[1..m -> S] : m \in 0..n}
\* mappings passed to update(): pair sequences with distinct keys
Mappings == {m \in SeqsUpTo(Pairs, Cardinality(Keys)) : \A i, j \in 1..Len(m) : i # j => m[i][1] # m[j][1]}

Init == /\ lst \in SeqsUpTo(Pairs, MaxInit)
        /\ dct = DictOf(lst)
        /\ ret = <<"init">>

\* (each action is written with its own LET so that TLC labels transitions with the action's
\* name and arguments rather than with a shared helper)
SetItem(k, v) == LET x == FSetItem(lst, dct, k, v) IN lst' = x.l /\ dct' = x.d /\ ret' = x.r
DelItem(k) == LET x == FDelItem(lst, dct, k) IN lst' = x.l /\ dct' = x.d /\ ret' = x.r
SetList(k, vs) == LET x == FSetList(lst, dct, k, vs) IN lst' = x.l /\ dct' = x.d /\ ret' = x.r
PopList(k) == LET x == FPopList(lst, dct, k) IN lst' = x.l /\ dct' = x.d /\ ret' = x.r
AppendOp(k, v) == LET x == FAppend(lst, dct, k, v) IN lst' = x.l /\ dct' = x.d /\ ret' = x.r
Pop(k, hasDefault) == LET x == FPop(lst, dct, k, hasDefault) IN lst' = x.l /\ dct' = x.d /\ ret' = x.r
PopItem == LET x == FPopItem(lst, dct) IN lst' = x.l /\ dct' = x.d /\ ret' = x.r
Clear == LET x == FClear(lst, dct) IN lst' = x.l /\ dct' = x.d /\ ret' = x.r
SetDefault(k, v) == LET x == FSetDefault(lst, dct, k, v) IN lst' = x.l /\ dct' = x.d /\ ret' = x.r
Update(m) == LET x == FUpdate(lst, dct, m) IN lst' = x.l /\ dct' = x.d /\ ret' = x.r

Next == \/ \E k \in Keys, v \in Vals : SetItem(k, v) \/ AppendOp(k, v) \/ SetDefault(k, v)
        \/ \E k \in Keys : DelItem(k) \/ PopList(k) \/ Pop(k, TRUE) \/ Pop(k, FALSE)
        \/ \E k \in Keys, vs \in SeqsUpTo(Vals, MaxSetList) : SetList(k, vs)
        \/ PopItem \/ Clear
        \/ \E m \in Mappings : Update(m)

Spec == Init /\ [][Next]_vars
Bound == Len(lst) <= MaxLen

\* ------------------------------------------------------------ properties
\* the two representations agree: the dict is "last value per key" of the list
Consistent ==
  /\ \A i, j \in 1..Len(dct) : i # j => dct[i][1] # dct[j][1]
  /\ KeysOf(dct) = KeysOf(lst)
  /\ \A k \in KeysOf(lst) : DGet(dct, k) = LastOf(ValuesOf(lst, k))

\* the observable views, as the class computes them
ViewItems == lst
ViewGetList(k) == ValuesOf(lst, k)
ViewGetItem(k) == DGet(dct, k)
ViewKeys == KeysOf(dct)
ViewLen == Len(dct)
\* ... and as a plain ordered list of pairs defines them
ViewsAgree ==
  /\ ViewLen = Cardinality(KeysOf(lst))
  /\ ViewKeys = KeysOf(lst)
  /\ \A k \in KeysOf(lst) : ViewGetItem(k) = LastOf(ViewGetList(k))

\* post-conditions of every mutator in every reachable state: what the operation means on an
\* ordered list of pairs (value lists of the other keys are untouched, in order)
OthersKept(l2, k) == \A k2 \in Keys \ {k} : ValuesOf(l2, k2) = ValuesOf(lst, k2)
OtherOrderKept(l2, k) == Without(l2, k) = Without(lst, k)
PostConditions ==
  /\ \A k \in Keys, v \in Vals :
        /\ LET x == FSetItem(lst, dct, k, v) IN ValuesOf(x.l, k) = <<v>> /\ OtherOrderKept(x.l, k)
        /\ LET x == FAppend(lst, dct, k, v) IN x.l = Append(lst, <<k, v>>)
        /\ LET x == FSetDefault(lst, dct, k, v) IN
             IF k \in KeysOf(lst) THEN x.l = lst /\ x.r = <<"val", LastOf(ValuesOf(lst, k))>>
             ELSE ValuesOf(x.l, k) = <<v>> /\ OtherOrderKept(x.l, k) /\ x.r = <<"val", v>>
  /\ \A k \in Keys :
        /\ LET x == FDelItem(lst, dct, k) IN
             /\ ValuesOf(x.l, k) = <<>> /\ OtherOrderKept(x.l, k)
             /\ (x.r = <<"KeyError">>) <=> (k \notin KeysOf(lst))
        /\ LET x == FPopList(lst, dct, k) IN
             x.r = <<"list", ValuesOf(lst, k)>> /\ ValuesOf(x.l, k) = <<>> /\ OtherOrderKept(x.l, k)
        /\ LET x == FPop(lst, dct, k, FALSE) IN
             IF k \in KeysOf(lst) THEN x.r = <<"val", LastOf(ValuesOf(lst, k))>> /\ ValuesOf(x.l, k) = <<>> /\ OtherOrderKept(x.l, k)
             ELSE x.r = <<"KeyError">> /\ x.l = lst
        /\ \A vs \in SeqsUpTo(Vals, MaxSetList) :
             LET x == FSetList(lst, dct, k, vs) IN ValuesOf(x.l, k) = vs /\ OtherOrderKept(x.l, k)
  /\ LET x == FPopItem(lst, dct) IN
        IF lst = <<>> THEN x.r = <<"KeyError">>
        ELSE /\ x.r[1] = "item" /\ x.r[2] \in KeysOf(lst) /\ x.r[3] = LastOf(ValuesOf(lst, x.r[2]))
             /\ ValuesOf(x.l, x.r[2]) = <<>> /\ OtherOrderKept(x.l, x.r[2])
  /\ FClear(lst, dct).l = <<>> /\ FClear(lst, dct).d = <<>>
  /\ \A m \in Mappings : LET x == FUpdate(lst, dct, m) IN
        /\ \A i \in 1..Len(m) : ValuesOf(x.l, m[i][1]) = <<m[i][2]>>
        /\ \A k \in Keys \ KeysOf(m) : ValuesOf(x.l, k) = ValuesOf(lst, k)
==========================================================================
