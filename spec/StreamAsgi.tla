---------------------------- MODULE StreamAsgi ----------------------------
(***************************************************************************)
(* baize/asgi/responses.py : StreamingResponse.__call__ (start, watcher    *)
(* task, render loop, final body), StreamResponse.render_stream and        *)
(* SendEventResponse.render_stream (relay task, one-slot queue, ping       *)
(* timer).                                                                 *)
(*                                                                         *)
(* Timed property automaton.  A scenario c fixes the kind ("stream" |      *)
(* "sse"), the times at which the user's async generator yields its items  *)
(* (c.at, ascending ticks), the ping interval, the tick of the client's    *)
(* disconnect (NoDisc = never), the item at which the generator raises     *)
(* (0 = never) and the time a send() takes.  The events of an execution    *)
(* are consumed one by one; each action's guard is what C06 demands of     *)
(* that event.  An execution of the real classes under virtual time is a   *)
(* behaviour of this module iff every one of its events is admitted.       *)
(***************************************************************************)
EXTENDS Naturals, Sequences

CONSTANTS NoDisc

VARIABLES c,          \* the scenario
          now,        \* time of the last event
          yielded,    \* items the generator has yielded
          delivered,  \* items sent to the client
          pingsSent, finalSent, closedCount, closedAt, returned, retAt, retExc, discSeen,
          begun,      \* the generator's body has started executing
          discAt,     \* when the disconnect was delivered to the response
          released    \* the response has called aclose() on the user's iterable (or the generator ran to its end)
vars == <<c, now, yielded, delivered, pingsSent, finalSent, closedCount, closedAt, returned, retAt, retExc, discSeen, begun, discAt, released>>

NItems == Len(c.at)
\* when the producer takes its next step after time t: next yield, raise or exhaustion.  (A step in
\* the very tick of the disconnect may be processed before the disconnect is seen; it does not count.)
ProducerSteps == {c.at[i] : i \in 1..NItems} \cup {c.endAt}
NextStepAfter(t) == LET S == {x \in ProducerSteps : x > t} IN
                    IF S = {} THEN t ELSE CHOOSE x \in S : \A y \in S : x <= y
MaxI(a, b) == IF a > b THEN a ELSE b

\* the latest moment the call may return after a disconnect at c.disc
\* (every send that takes time pushes the producer's schedule and the return back by its cost)
Slack == c.sendCost * (delivered + pingsSent + 3)
\* (counted from the moment the disconnect is delivered to the response: it only listens once the start has been sent)
Deadline ==
  IF c.kind = "sse" THEN discAt + c.ping + Slack
  ELSE MaxI(discAt, NextStepAfter(discAt)) + Slack

Start(s) == /\ c = s /\ now = 0 /\ yielded = 0 /\ delivered = 0 /\ pingsSent = 0 /\ finalSent = FALSE
            /\ closedCount = 0 /\ closedAt = 0 /\ returned = FALSE /\ retAt = 0 /\ retExc = "" /\ discSeen = FALSE /\ begun = FALSE /\ discAt = 0 /\ released = FALSE

Tick(t) == t >= now /\ now' = t

\* the generator's body starts executing (first __anext__)
Begin(t) == /\ Tick(t) /\ ~begun /\ closedCount = 0
            /\ begun' = TRUE
            /\ UNCHANGED <<c, yielded, delivered, pingsSent, finalSent, closedCount, closedAt, returned, retAt, retExc, discSeen, discAt, released>>

\* the response releases the user's iterable: iterable.aclose() is called
Release(t) == /\ Tick(t) /\ released' = TRUE
              /\ UNCHANGED <<c, yielded, delivered, pingsSent, finalSent, closedCount, closedAt, returned, retAt, retExc, discSeen, begun, discAt>>

\* the generator yields item i at time t - exactly when the scenario says
Yield(i, t) == /\ Tick(t) /\ i = yielded + 1 /\ i <= NItems
               /\ (IF c.sendCost = 0 THEN t = c.at[i] ELSE t >= c.at[i])   \* slow sends hold the producer back
               /\ closedCount = 0 /\ begun
               /\ yielded' = i
               /\ UNCHANGED <<c, delivered, pingsSent, finalSent, closedCount, closedAt, returned, retAt, retExc, discSeen, begun, discAt, released>>

\* item i reaches the client: in order, exactly once, only after it was yielded, never after the end
Body(i, t) == /\ Tick(t) /\ i = delivered + 1 /\ i <= yielded /\ ~finalSent /\ ~returned
              /\ delivered' = i
              /\ UNCHANGED <<c, yielded, pingsSent, finalSent, closedCount, closedAt, returned, retAt, retExc, discSeen, begun, discAt, released>>

\* keep-alive comment: event streams only, and only while nothing is waiting to be delivered
Ping(t) == /\ Tick(t) /\ c.kind = "sse" /\ ~finalSent /\ ~returned
           /\ pingsSent' = pingsSent + 1
           /\ UNCHANGED <<c, yielded, delivered, finalSent, closedCount, closedAt, returned, retAt, retExc, discSeen, begun, discAt, released>>

Disc(t) == /\ Tick(t) /\ ~discSeen /\ c.disc # NoDisc /\ t >= c.disc
           /\ discSeen' = TRUE /\ discAt' = t
           /\ UNCHANGED <<c, yielded, delivered, pingsSent, finalSent, closedCount, closedAt, returned, retAt, retExc, begun, released>>

\* the final body event: once; without disconnect or failure only after everything was delivered
Final(t) == /\ Tick(t) /\ ~finalSent /\ ~returned
            /\ (~discSeen /\ c.raiseAt = 0) => delivered = NItems
            /\ finalSent' = TRUE
            /\ UNCHANGED <<c, yielded, delivered, pingsSent, closedCount, closedAt, returned, retAt, retExc, discSeen, begun, discAt, released>>

\* the user's generator is cleaned up: exactly once
Closed(t) == /\ Tick(t) /\ closedCount = 0
             /\ closedCount' = 1 /\ closedAt' = t
             /\ UNCHANGED <<c, yielded, delivered, pingsSent, finalSent, returned, retAt, retExc, discSeen, begun, discAt, released>>

\* the response call returns (exc = "" ) or raises exc
Return(t, exc) ==
  /\ Tick(t) /\ ~returned
  /\ discSeen => t <= Deadline
  /\ (exc = "") => finalSent                                   \* a normal return has completed the response
  /\ (exc # "") => (exc = "ProducerError" /\ c.raiseAt > 0)    \* only the producer's own exception may come out
  /\ (c.raiseAt > 0 /\ ~discSeen) => exc = "ProducerError"     \* ... and it is not swallowed
  /\ returned' = TRUE /\ retAt' = t /\ retExc' = exc
  /\ UNCHANGED <<c, yielded, delivered, pingsSent, finalSent, closedCount, closedAt, discSeen, begun, discAt, released>>

\* after the return and one more turn of the event loop: generator cleaned up exactly once, nothing pending
Settled(pending) == /\ returned /\ pending = 0
                    /\ begun => closedCount = 1
                    /\ (released \/ closedCount = 1)   \* the user's iterable was closed by the response (started or not), or ran to its end
                    /\ UNCHANGED vars

\* ---------------------------------------------------------------- generative form, for model checking the automaton itself
CONSTANTS Scenarios, MaxT
TheScenarios == Scenarios
Init == \E s \in TheScenarios : Start(s)
Next == \E t \in 0..MaxT :
          \/ Begin(t) \/ Ping(t) \/ Disc(t) \/ Final(t) \/ Closed(t) \/ Release(t)
          \/ \E i \in 1..3 : Yield(i, t) \/ Body(i, t)
          \/ \E x \in {"", "ProducerError"} : Return(t, x)
Spec == Init /\ [][Next]_vars
PingBound == pingsSent <= 1

OrderOK == delivered <= yielded /\ yielded <= NItems
ClosedOnce == closedCount <= 1
ReturnsInTime == (returned /\ discSeen) => retAt <= Deadline
CompleteWhenUndisturbed == (returned /\ retExc = "" /\ ~discSeen /\ c.raiseAt = 0) => (delivered = NItems /\ finalSent)
==========================================================================
