------------------------ MODULE TraceStreamAsgiTask ------------------------
(***************************************************************************)
(* Trace validation for StreamAsgiTask.tla: executions of the real ASGI    *)
(* StreamResponse under the virtual-time loop, logged from outside (the    *)
(* user's iterable, the server callables, the proxied asyncio name for     *)
(* task creation and cancellation).  One logged event = one action.        *)
(* TRACE_FILE: JSON array of {n, raiseAt, events: [{e, x, r}, ...]}.        *)
(***************************************************************************)
EXTENDS StreamAsgiTask, Json, IOUtils, TLC, TLCExt

Traces == JsonDeserialize(IOEnv.TRACE_FILE)
NTraces == Len(Traces)
VARIABLES tid, l
tvars == <<vars, tid, l>>
ASSUME \A i \in 1..NTraces : TLCSet(100 + i, 0)
T == Traces[tid]
E == T.events[l]

TraceInit == /\ tid \in 1..NTraces /\ l = 1 /\ Init /\ n = T.n /\ raiseAt = T.raiseAt /\ failAt = T.failAt
Ev(name) == l <= Len(T.events) /\ E.e = name /\ l' = l + 1 /\ UNCHANGED tid
Silent == UNCHANGED <<tid, l>>

TraceNext ==
  \/ (Ev("send_start") /\ MSendStart /\ failAt # 1)
  \/ (Ev("send_fail") /\ MSendStart /\ failAt = 1)
  \/ (Ev("send_fail") /\ MSendBody /\ failAt = sends + 1)
  \/ (Ev("send_fail") /\ MSendFinal /\ failAt = sends + 1)
  \/ (Ev("sendfailed") /\ MSendFailed)
  \/ (Ev("spawn_wait") /\ MSpawn)
  \/ (Ev("anext") /\ MTop /\ ~clientClosed)
  \/ (Silent /\ MTop /\ clientClosed)
  \/ (Ev("item") /\ MItem /\ produced' = E.x)
  \/ (Ev("closed") /\ E.r = "end" /\ MEnd)
  \/ (Ev("closed") /\ E.r = "raise" /\ MProducerRaise)
  \/ (Ev("release") /\ MRelease /\ E.r = GenSuspended)
  \/ (Ev("send_body") /\ MSendBody /\ cur = E.x /\ failAt # sends + 1)
  \/ (Silent /\ MSent)
  \/ (Ev("cancel_wait") /\ MFin)
  \/ (Ev("send_final") /\ MSendFinal /\ failAt # sends + 1)
  \/ (Ev("return") /\ MReturn)
  \/ (Ev("raise") /\ MRaise)
  \/ (Silent /\ WStart)
  \/ (Ev("disc") /\ WDisc)
  \/ (Silent /\ WCancelled)

TraceSpec == TraceInit /\ [][TraceNext]_tvars
Progress == IF l - 1 > TLCGet(100 + tid) THEN TLCSet(100 + tid, l - 1) ELSE TRUE
Post == JsonSerialize(IOEnv.PREFIX_FILE, [i \in 1..NTraces |-> TLCGet(100 + i)])
==========================================================================
