----------------------------- MODULE Middleware -----------------------------
(***************************************************************************)
(* baize/wsgi/middleware.py and baize/asgi/middleware.py: NextResponse.     *)
(* from_app (capture of status / headers / body of the inner application)  *)
(* and the re-emission through a StreamingResponse; */shortcut.py decorator.*)
(*                                                                         *)
(* An abstract response: status, header LIST (name, value pairs in order),  *)
(* body chunk list.  A stack of layers wraps an inner application; each    *)
(* layer captures what comes from below (headers go through the folding    *)
(* Headers mapping - except Set-Cookie lines, which are kept apart - and   *)
(* the body is buffered / forced) and emits it again, optionally editing   *)
(* one header.                                                             *)
(***************************************************************************)
EXTENDS Naturals, Sequences, FiniteSets

CONSTANTS Recipes,     \* set of abstract inner responses [status, headers, body, fail]; fail = NoFail, or the number of body
                       \* chunks the inner application produces before it raises
          MaxDepth,
          FoldAll,     \* TRUE: also Set-Cookie lines are folded (the original mechanism; witness)
          Lazy         \* TRUE: a layer pulls the inner body while it is being sent on (baize.wsgi); FALSE: it runs the inner
                       \* application to completion into a buffer first (baize.asgi - known finding: a failure after the
                       \* response started takes the already produced part with it)

NoFail == 99

VARIABLES recipe, stack, level, cur, calls
vars == <<recipe, stack, level, cur, calls>>

Layers == {"id", "edit"}
Stacks == UNION {[1..n -> Layers] : n \in 0..MaxDepth}

IsCookie(h) == h[1] = "set-cookie"
\* one layer: capture and re-emit.  A header value is the sequence of the parts that were joined with ", ":
\* <<"a">> for "a", <<"a", "b">> for "a, b"; folding concatenates the part sequences.
RECURSIVE FoldParts(_, _)
FoldParts(acc, hs) ==
  IF hs = <<>> THEN acc
  ELSE LET h == Head(hs)
           idx == {i \in 1..Len(acc) : acc[i][1] = h[1]} IN
       IF idx = {} THEN FoldParts(Append(acc, h), Tail(hs))
       ELSE LET i == CHOOSE x \in idx : TRUE IN FoldParts([acc EXCEPT ![i] = <<h[1], acc[i][2] \o h[2]>>], Tail(hs))
CaptureFlat(r) ==
  LET plain == SelectSeq(r.headers, LAMBDA h : FoldAll \/ ~IsCookie(h))
      cookies == IF FoldAll THEN <<>> ELSE SelectSeq(r.headers, LAMBDA h : IsCookie(h))
  IN [status |-> r.status, headers |-> FoldParts(<<>>, plain) \o cookies, body |-> r.body]

\* header values inside a recipe are sequences of parts already: <<"v">>
SetHeader(hs, name, val) ==
  IF \E i \in 1..Len(hs) : hs[i][1] = name
    THEN [i \in 1..Len(hs) |-> IF hs[i][1] = name THEN <<name, val>> ELSE hs[i]]
    ELSE Append(hs, <<name, val>>)

Init == /\ recipe \in Recipes /\ stack \in Stacks /\ level = 0 /\ calls = 0
        /\ cur = [status |-> 0, headers |-> <<>>, body |-> <<>>]

CallInner == /\ level = 0 /\ calls = 0
             /\ calls' = 1 /\ cur' = recipe /\ level' = 1
             /\ UNCHANGED <<recipe, stack>>

\* the response passes through layer number `level` (counted from the innermost)
Wrap == /\ level >= 1 /\ level <= Len(stack)
        /\ LET c == CaptureFlat(cur) IN
           cur' = IF stack[level] = "edit" THEN [c EXCEPT !.headers = SetHeader(c.headers, "x-mw", <<"edited">>)] ELSE c
        /\ level' = level + 1
        /\ UNCHANGED <<recipe, stack, calls>>

Next == CallInner \/ Wrap
Spec == Init /\ [][Next]_vars

\* ---------------------------------------------------------------- properties
Done == level = Len(stack) + 1
Multiset(hs) == [h \in {hs[i] : i \in 1..Len(hs)} |-> Cardinality({i \in 1..Len(hs) : hs[i] = h})]
Concat(b) == b     \* chunk tokens are opaque: the byte string is determined by their sequence
AllId == \A i \in 1..Len(stack) : stack[i] = "id"
NoDupPlain(r) == \A i, j \in 1..Len(r.headers) : (i # j /\ r.headers[i][1] = r.headers[j][1]) => IsCookie(r.headers[i])

\* what reaches the client of a bare / wrapped application whose body producer fails after `fail` chunks
ClientSees(r, wrapped) ==
  IF r.fail = NoFail THEN <<"complete", r.status, r.body>>
  ELSE IF r.fail = 0 \/ (wrapped /\ ~Lazy) THEN <<"failed before any body byte">>
  ELSE <<"partial", r.status, SubSeq(r.body, 1, r.fail)>>
\* a failure after the response started: the client gets the same partial response with or without middleware
LateErrorSame == (Done /\ Len(stack) >= 1) => ClientSees(recipe, TRUE) = ClientSees(recipe, FALSE)

\* identity layers: same status, same header multiset (repeated Set-Cookie lines stay separate), same body bytes
Transparent == (Done /\ AllId /\ NoDupPlain(recipe) /\ recipe.fail = NoFail) =>
                  /\ cur.status = recipe.status
                  /\ Multiset(cur.headers) = Multiset(recipe.headers)
                  /\ Concat(cur.body) = Concat(recipe.body)
\* an editing layer changes only its header
OnlyThatHeader == (Done /\ NoDupPlain(recipe) /\ recipe.fail = NoFail) =>
                  /\ cur.status = recipe.status /\ Concat(cur.body) = Concat(recipe.body)
                  /\ Multiset(SelectSeq(cur.headers, LAMBDA h : h[1] # "x-mw")) = Multiset(SelectSeq(recipe.headers, LAMBDA h : h[1] # "x-mw"))
                  /\ ((\E i \in 1..Len(stack) : stack[i] = "edit") => \E i \in 1..Len(cur.headers) : cur.headers[i] = <<"x-mw", <<"edited">>>>)
InnerOnce == calls <= 1 /\ (Done => calls = 1)
==========================================================================
