---------------------------- MODULE RequestBody ----------------------------
(***************************************************************************)
(* baize/asgi/requests.py Request.stream/body/json/form/close,             *)
(* baize/utils.py cached_property (an awaitable result is wrapped in ONE   *)
(* shared future, scheduled at first access), baize/wsgi/requests.py (the  *)
(* same accessors, every access atomic).                                   *)
(*                                                                         *)
(* The server's messages are a script: chunk messages 1..NChunks (the last *)
(* with more_body = false), or a disconnect in place of message DiscAt     *)
(* (0 = none).  User tasks run programs (sequences of accesses).  Entities *)
(* that can run: the user tasks and the three shared computations          *)
(* bodyF / jsonF / formF.  A step runs one entity from one suspension      *)
(* point to the next (await of an unfinished future, or of receive() with  *)
(* no message available).  ANY runnable entity may take the next step:     *)
(* asyncio's FIFO order is one of these interleavings.                     *)
(*                                                                         *)
(* The deferral between "first access creates and schedules the future"    *)
(* and "the future's coroutine starts" is real: a stream() started in that *)
(* window wins the channel and the body future fails with the documented   *)
(* "Stream consumed" error.  It is modelled, not repaired.                 *)
(***************************************************************************)
EXTENDS Naturals, Sequences, FiniteSets

CONSTANTS Scenarios   \* set of [nchunks, discAt, ctype, progs : Seq(Seq(op)), atomic : BOOLEAN]

VARIABLES sc,        \* the scenario (fixed)
          avail,     \* messages the server has made available so far
          rx,        \* messages consumed by receive()
          consumed,  \* _stream_consumed
          reader,    \* who holds the channel: "none" | "body" | "form" | <<"task", t>> ...  (as a string id)
          got,       \* chunks the current/last reader has accumulated
          fut,       \* [body|json|form] -> "absent" | "sched" | "waitmsg" | "waitbody" | "ok" | error class
          tk         \* task -> [pc, st, res]  st: "ready" | "waitmsg" | "wait:<f>" | "done"; res: results so far
vars == <<sc, avail, rx, consumed, reader, got, fut, tk>>

TheScenarios == Scenarios
NMsgs == IF sc.discAt > 0 THEN sc.discAt ELSE sc.nchunks          \* messages the script holds
IsDisc(i) == sc.discAt > 0 /\ i = sc.discAt
Tasks == 1..Len(sc.progs)
Errors == {"RuntimeError", "ClientDisconnect", "HTTPError"}
Finished(f) == fut[f] \in {"ok"} \cup Errors

Init == /\ sc \in TheScenarios
        /\ avail = IF sc.atomic THEN NMsgs ELSE 0
        /\ rx = 0 /\ consumed = FALSE /\ reader = "none" /\ got = 0
        /\ fut = [f \in {"body", "json", "form"} |-> "absent"]
        /\ tk = [t \in Tasks |-> [pc |-> 1, st |-> "ready", res |-> <<>>]]

\* the server makes the next message available
Deliver == /\ avail < NMsgs /\ avail' = avail + 1
           /\ UNCHANGED <<sc, rx, consumed, reader, got, fut, tk>>

\* ---------------------------------------------------------------- the receive loop of stream()
\* result of draining from the current position as far as messages are available:
\*   [rx, got, out]  out: "more" (must wait) | "full" (last chunk seen) | "ClientDisconnect"
RECURSIVE Drain(_, _)
Drain(r, g) ==
  IF r >= avail THEN [rx |-> r, got |-> g, out |-> "more"]
  ELSE IF IsDisc(r + 1) THEN [rx |-> r + 1, got |-> g, out |-> "ClientDisconnect"]
  ELSE IF r + 1 = sc.nchunks THEN [rx |-> r + 1, got |-> g + 1, out |-> "full"]
  ELSE Drain(r + 1, g + 1)

\* stream() entry test, for an entity that is NOT the body computation being replayed
\* ("body" in __dict__ and done(): `yield await self.body` - which re-raises a cached failure)
StreamEntry == IF fut["body"] = "ok" THEN "replay"
               ELSE IF fut["body"] \in Errors THEN fut["body"]
               ELSE IF consumed THEN "RuntimeError" ELSE "read"

\* ---------------------------------------------------------------- shared computations
\* `await self.body` inside json/form (and the user's own access): creates the future at first access
EnsureBody(fu) == IF fu["body"] = "absent" THEN [fu EXCEPT !["body"] = "sched"] ELSE fu

NeedsBody(f) == f = "json" \/ (f = "form" /\ sc.ctype = "urlencoded")
TypeOK(f) == (f = "json" /\ sc.ctype = "json") \/ (f = "form" /\ sc.ctype \in {"urlencoded", "multipart"})

\* first step of a scheduled computation
FutStart(f) ==
  /\ fut[f] = "sched"
  /\ IF f = "body" \/ (f = "form" /\ sc.ctype = "multipart")
       THEN \* runs stream(): a computation never replays itself; a multipart form replays a finished body
            LET e == IF f = "form" THEN StreamEntry ELSE (IF consumed THEN "RuntimeError" ELSE "read") IN
            IF e \in Errors THEN fut' = [fut EXCEPT ![f] = e] /\ UNCHANGED <<rx, consumed, reader, got>>
            ELSE IF e = "replay" THEN fut' = [fut EXCEPT ![f] = "ok"] /\ UNCHANGED <<rx, consumed, reader, got>>
            ELSE LET d == Drain(rx, 0) IN
                 /\ consumed' = TRUE /\ reader' = f /\ rx' = d.rx /\ got' = d.got
                 /\ fut' = [fut EXCEPT ![f] = IF d.out = "more" THEN "waitmsg" ELSE IF d.out = "full" THEN "ok" ELSE d.out]
       ELSE IF ~TypeOK(f) THEN fut' = [fut EXCEPT ![f] = "HTTPError"] /\ UNCHANGED <<rx, consumed, reader, got>>
       ELSE \* data = await self.body
            LET fu == EnsureBody(fut) IN
            /\ fut' = [fu EXCEPT ![f] = IF fu["body"] = "ok" THEN "ok"
                                       ELSE IF fu["body"] \in Errors THEN fu["body"] ELSE "waitbody"]
            /\ UNCHANGED <<rx, consumed, reader, got>>
  /\ UNCHANGED <<sc, avail, tk>>

\* a computation blocked in receive() continues when a message is there
FutMsg(f) ==
  /\ fut[f] = "waitmsg" /\ reader = f /\ rx < avail
  /\ LET d == Drain(rx, got) IN
     /\ rx' = d.rx /\ got' = d.got
     /\ fut' = [fut EXCEPT ![f] = IF d.out = "more" THEN "waitmsg" ELSE IF d.out = "full" THEN "ok" ELSE d.out]
  /\ UNCHANGED <<sc, avail, consumed, reader, tk>>

\* json / urlencoded form continue when the body future has finished
FutBody(f) ==
  /\ fut[f] = "waitbody" /\ Finished("body")
  /\ fut' = [fut EXCEPT ![f] = fut["body"]]
  /\ UNCHANGED <<sc, avail, rx, consumed, reader, got, tk>>

\* ---------------------------------------------------------------- user tasks
Op(t) == sc.progs[t][tk[t].pc]
Advance(t, r, fu) ==
  LET done == tk[t].pc = Len(sc.progs[t]) IN
  /\ tk' = [tk EXCEPT ![t] = [pc |-> IF done THEN @.pc ELSE @.pc + 1, st |-> IF done THEN "done" ELSE "ready",
                               res |-> Append(@.res, r)]]
  /\ fut' = fu

\* a runnable user task executes its current access up to its next suspension
TaskStep(t) ==
  /\ tk[t].st = "ready"
  /\ LET o == Op(t) IN
     IF o \in {"body", "json", "form"}
       THEN \* cached_property: create+schedule at first access, then await the shared future
            LET fu == IF fut[o] = "absent" THEN [fut EXCEPT ![o] = "sched"] ELSE fut IN
            IF fu[o] \in {"ok"} \cup Errors
              THEN Advance(t, fu[o], fu) /\ UNCHANGED <<rx, consumed, reader, got>>
              ELSE /\ tk' = [tk EXCEPT ![t].st = "wait"] /\ fut' = fu /\ UNCHANGED <<rx, consumed, reader, got>>
     ELSE IF o = "stream"
       THEN IF StreamEntry = "replay" THEN Advance(t, "ok", fut) /\ UNCHANGED <<rx, consumed, reader, got>>
            ELSE IF StreamEntry \in Errors THEN Advance(t, StreamEntry, fut) /\ UNCHANGED <<rx, consumed, reader, got>>
            ELSE LET d == Drain(rx, 0) IN
                 /\ consumed' = TRUE /\ reader' = "task" /\ rx' = d.rx /\ got' = d.got
                 /\ IF d.out = "more" THEN tk' = [tk EXCEPT ![t].st = "waitmsg"] /\ UNCHANGED fut
                    ELSE Advance(t, IF d.out = "full" THEN "ok" ELSE d.out, fut)
     ELSE \* close(): closes the uploaded files if the form is there and succeeded; never reads anything, never raises
          Advance(t, "ok", fut) /\ UNCHANGED <<rx, consumed, reader, got>>
  /\ UNCHANGED <<sc, avail>>

\* a task blocked on a shared future wakes up once it has finished
TaskWake(t) ==
  /\ tk[t].st = "wait" /\ Finished(Op(t))
  /\ Advance(t, fut[Op(t)], fut)
  /\ UNCHANGED <<sc, avail, rx, consumed, reader, got>>

\* a task blocked in receive() inside its own stream() continues
TaskMsg(t) ==
  /\ tk[t].st = "waitmsg" /\ rx < avail
  /\ LET d == Drain(rx, got) IN
     /\ rx' = d.rx /\ got' = d.got
     /\ IF d.out = "more" THEN UNCHANGED <<tk, fut>>
        ELSE Advance(t, IF d.out = "full" THEN "ok" ELSE d.out, fut)
  /\ UNCHANGED <<sc, avail, consumed, reader>>

Next == \/ Deliver
        \/ \E f \in {"body", "json", "form"} : FutStart(f) \/ FutMsg(f) \/ FutBody(f)
        \/ \E t \in Tasks : TaskStep(t) \/ TaskWake(t) \/ TaskMsg(t)
Spec == Init /\ [][Next]_vars

\* ---------------------------------------------------------------- properties
\* each server message is consumed at most once, never one that was not sent
OnceOnly == rx <= avail /\ avail <= NMsgs
\* whoever obtains a body obtained ALL chunks; a disconnect never yields a value
BodyExact == /\ fut["body"] = "ok" => (got = sc.nchunks /\ sc.discAt = 0)
             /\ \A f \in {"json", "form"} : fut[f] = "ok" => sc.discAt = 0
             /\ \A t \in Tasks : \A k \in 1..Len(tk[t].res) :
                   (tk[t].res[k] = "ok" /\ sc.progs[t][k] # "close") => sc.discAt = 0
\* a finished shared result never changes (cache stability)
CacheStable == [][\A f \in {"body", "json", "form"} : Finished(f) => fut'[f] = fut[f]]_vars
\* the only errors are the documented ones
ErrorsDocumented == \A t \in Tasks : \A k \in 1..Len(tk[t].res) : tk[t].res[k] \in {"ok"} \cup Errors
==========================================================================
