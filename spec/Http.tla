-------------------------------- MODULE Http --------------------------------
(***************************************************************************)
(* The abstract HTTP request that both baize.wsgi and baize.asgi are given  *)
(* (as environ / as scope + messages) and the REQUEST VIEW the statement    *)
(* says both must expose; plus the space of (request, recipe) cases for the *)
(* differential replay of C04.                                             *)
(*                                                                         *)
(* Tokens are opaque strings; header names come with their lower-case form.*)
(* View rules (the independent referee of the differential comparison):    *)
(*   headers : lower-case names, repeated names joined with ", " in order   *)
(*   query   : the ordered pair list                                       *)
(*   body    : the concatenation of the chunks, however they are cut       *)
(*   length  : the number in Content-Length if it is one, else absent      *)
(***************************************************************************)
EXTENDS Naturals, Sequences, FiniteSets

CONSTANTS Methods, Paths, Queries, HeaderLists, Chunkings, Recipes, LowerOf

VARIABLES req, recipe, phase, view
vars == <<req, recipe, phase, view>>

Lower(n) == (CHOOSE e \in LowerOf : e[1] = n)[2]
RECURSIVE Fold(_, _)
Fold(acc, hs) ==
  IF hs = <<>> THEN acc
  ELSE LET n == Lower(Head(hs)[1]) v == Head(hs)[2]
           idx == {i \in 1..Len(acc) : acc[i][1] = n} IN
       IF idx = {} THEN Fold(Append(acc, <<n, <<v>>>>), Tail(hs))
       ELSE LET i == CHOOSE x \in idx : TRUE IN Fold([acc EXCEPT ![i] = <<n, Append(acc[i][2], v)>>], Tail(hs))
RECURSIVE Flat(_)
Flat(cs) == IF cs = <<>> THEN <<>> ELSE Head(cs) \o Flat(Tail(cs))

ViewOf(r) == [method |-> r.method, path |-> r.path, query |-> r.query,
              headers |-> Fold(<<>>, r.headers), body |-> Flat(r.chunks)]

Init == /\ req \in [method : Methods, path : Paths, query : Queries, headers : HeaderLists, chunks : Chunkings]
        /\ recipe \in Recipes /\ phase = "request" /\ view = [method |-> "", path |-> "", query |-> <<>>, headers |-> <<>>, body |-> <<>>]
Observe == /\ phase = "request" /\ view' = ViewOf(req) /\ phase' = "viewed" /\ UNCHANGED <<req, recipe>>
Next == Observe
Spec == Init /\ [][Next]_vars

\* the view does not depend on how the body was cut, nor on the case of header names
SameBody(a, b) == Flat(a) = Flat(b)
ChunkingIrrelevant == phase = "viewed" => \A c \in Chunkings : SameBody(c, req.chunks) => ViewOf([req EXCEPT !.chunks = c]) = view
NamesLower == phase = "viewed" => \A i \in 1..Len(view.headers) : \E e \in LowerOf : e[2] = view.headers[i][1]
NoDuplicateNames == phase = "viewed" => \A i, j \in 1..Len(view.headers) : i # j => view.headers[i][1] # view.headers[j][1]
==========================================================================
