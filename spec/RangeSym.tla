------------------------------ MODULE RangeSym ------------------------------
(***************************************************************************)
(* The range pipeline of Range.tla / RangeOps.tla for Apalache: one step   *)
(* from an ARBITRARY input - any natural file size, any one to three specs *)
(* with arbitrary natural numbers - to the result, so that CanonicalOut    *)
(* and ExactUnion are decided symbolically for all naturals (TLC can only  *)
(* sample small domains).  Sorting is a three-element compare-and-swap     *)
(* network, merging a fold; union equality is agreement on the critical    *)
(* points (membership in a finite union of intervals is piecewise constant *)
(* between interval end points).                                           *)
(* Fixed = FALSE replays the original insertion loop (witness).            *)
(***************************************************************************)
EXTENDS Integers, Sequences, Apalache

CONSTANT
  \* @type: Bool;
  Fixed

VARIABLES
  \* @type: Int;
  size,
  \* @type: Seq({k: Str, a: Int, b: Int});
  specs,
  \* @type: Seq(<<Int, Int>>);
  result,
  \* @type: Str;
  outcome,
  \* @type: Str;
  pc

\* @type: (Int, Int) => Int;
MinI(x, y) == IF x < y THEN x ELSE y
\* @type: (Int, Int) => Int;
MaxI(x, y) == IF x > y THEN x ELSE y

\* @type: ({k: Str, a: Int, b: Int}, Int) => <<Int, Int>>;
Extracted(s, sz) ==
  IF s.k = "fl" THEN <<s.a, IF s.b < sz THEN s.b + 1 ELSE sz>>
  ELSE IF s.k = "from" THEN <<s.a, sz>>
  ELSE <<sz - s.b, sz>>

\* @type: (<<Int, Int>>, <<Int, Int>>) => Bool;
Less(x, y) == x[1] < y[1] \/ (x[1] = y[1] /\ x[2] < y[2])

\* sort a sequence of one to three pairs
\* @type: Seq(<<Int, Int>>) => Seq(<<Int, Int>>);
Sort3(s) ==
  IF Len(s) = 1 THEN s
  ELSE IF Len(s) = 2 THEN (IF Less(s[2], s[1]) THEN <<s[2], s[1]>> ELSE s)
  ELSE LET a0 == s[1] b0 == s[2] c0 == s[3]
           a1 == IF Less(b0, a0) THEN b0 ELSE a0
           b1 == IF Less(b0, a0) THEN a0 ELSE b0
           b2 == IF Less(c0, b1) THEN c0 ELSE b1
           c2 == IF Less(c0, b1) THEN b1 ELSE c0
           a3 == IF Less(b2, a1) THEN b2 ELSE a1
           b3 == IF Less(b2, a1) THEN a1 ELSE b2
       IN <<a3, b3, c2>>

\* repaired loop body
\* @type: (Seq(<<Int, Int>>), <<Int, Int>>) => Seq(<<Int, Int>>);
MergeFixed(r, x) ==
  IF Len(r) > 0 /\ x[1] <= r[Len(r)][2]
    THEN [r EXCEPT ![Len(r)] = <<r[Len(r)][1], MaxI(x[2], r[Len(r)][2])>>]
    ELSE Append(r, x)

\* original loop body on a result of at most two entries (enough for three specs)
\* @type: (Seq(<<Int, Int>>), <<Int, Int>>) => Seq(<<Int, Int>>);
MergeOrig(r, x) ==
  IF Len(r) = 0 THEN <<x>>
  ELSE IF x[1] > r[1][2]
    THEN (IF Len(r) = 1 THEN Append(r, x)
          ELSE IF x[1] > r[2][2] THEN Append(r, x)
          ELSE IF x[2] < r[2][1] THEN <<r[1], x, r[2]>>
          ELSE <<r[1], <<MinI(x[1], r[2][1]), MaxI(x[2], r[2][2])>>>>)
  ELSE IF x[2] < r[1][1] THEN <<x>> \o r
  ELSE [r EXCEPT ![1] = <<MinI(x[1], r[1][1]), MaxI(x[2], r[1][2])>>]

\* @type: Seq({k: Str, a: Int, b: Int}) => Seq(<<Int, Int>>);
ExtractAll(sp) == LET \* @type: Int => <<Int, Int>>;
                      At(i) == IF i <= Len(sp) THEN Extracted(sp[i], size) ELSE <<0, 0>>
                  IN SubSeq(MkSeq(3, At), 1, Len(sp))

\* @type: Seq(<<Int, Int>>) => Seq(<<Int, Int>>);
Merged(ex) ==
  IF Fixed THEN ApaFoldSeqLeft(MergeFixed, <<>>, Sort3(ex))
  ELSE ApaFoldSeqLeft(MergeOrig, <<>>, ex)

\* @type: {k: Str, a: Int, b: Int} => Bool;
SpecOK(s) == s.k \in {"fl", "from", "suf"} /\ s.a >= 0 /\ s.b >= 0

Init ==
  /\ size \in Nat
  /\ \E s1, s2, s3 \in [k: {"fl", "from", "suf"}, a: Nat, b: Nat] :
        \E n \in 1..3 : specs = SubSeq(<<s1, s2, s3>>, 1, n)
  /\ result = <<>> /\ outcome = "none" /\ pc = "start"

Parse ==
  /\ pc = "start" /\ pc' = "done"
  /\ LET ex == ExtractAll(specs) IN
     IF \E i \in DOMAIN ex : ~(0 <= ex[i][1] /\ ex[i][1] < size)
       THEN outcome' = "416" /\ result' = <<>>
     ELSE IF \E i \in DOMAIN ex : (IF Fixed THEN ex[i][1] >= ex[i][2] ELSE ex[i][1] > ex[i][2])
       THEN outcome' = "400" /\ result' = <<>>
     ELSE IF Len(ex) = 1 THEN outcome' = "ok" /\ result' = ex
     ELSE outcome' = "ok" /\ result' = Merged(ex)
  /\ UNCHANGED <<size, specs>>

Next == Parse

\* ---------------------------------------------------------------- properties
\* @type: ({k: Str, a: Int, b: Int}, Int) => Bool;
InDenote(s, p) ==
  /\ p >= 0 /\ p < size
  /\ IF s.k = "fl" THEN (s.a <= p /\ p <= s.b) ELSE IF s.k = "from" THEN s.a <= p ELSE p >= size - s.b
\* @type: Int => Bool;
InResult(p) == \E i \in DOMAIN result : result[i][1] <= p /\ p < result[i][2]
\* @type: Int => Bool;
InSpecs(p) == \E i \in DOMAIN specs : InDenote(specs[i], p)

Critical ==
  UNION { {result[i][1] - 1, result[i][1], result[i][2] - 1, result[i][2]} : i \in DOMAIN result }
  \cup UNION { {specs[i].a - 1, specs[i].a, specs[i].b, specs[i].b + 1, size - specs[i].b - 1, size - specs[i].b} : i \in DOMAIN specs }
  \cup {0, size - 1, size}

CanonicalOut == (pc = "done" /\ outcome = "ok") =>
  /\ Len(result) >= 1
  /\ \A i \in DOMAIN result : 0 <= result[i][1] /\ result[i][1] < result[i][2] /\ result[i][2] <= size
  /\ \A i \in DOMAIN result : (i + 1) \in DOMAIN result => result[i][2] < result[i + 1][1]
ExactUnion == (pc = "done" /\ outcome = "ok") => \A p \in Critical : InResult(p) <=> InSpecs(p)
Inv == CanonicalOut /\ ExactUnion
==========================================================================
