------------------------------ MODULE SseWire ------------------------------
(***************************************************************************)
(* baize/responses.py build_bytes_from_sse (event dictionary -> wire block)*)
(* and the ping comment, against the WHATWG event-stream interpretation.   *)
(*                                                                         *)
(* Characters are classes: "LF", "CR", "OS" (the eight other characters    *)
(* str.splitlines breaks at: VT FF FS GS RS NEL LS PS - ordinary content   *)
(* for an event stream), "CO" colon, "SP" space, "CH" anything else.       *)
(* Field names on the wire are single symbols "data" "event" "id" "retry". *)
(*                                                                         *)
(* Encode is the code's transducer with the line splitter as a parameter:  *)
(*   Splitter = "wire": CR | LF | CRLF only (what the code does now)       *)
(*   Splitter = "py"  : str.splitlines (the original; witness)             *)
(* Parse is the client: line splitting, comments, field/value at the first *)
(* colon, one leading space removed, data buffer, dispatch on blank line.  *)
(***************************************************************************)
EXTENDS Naturals, Sequences, FiniteSets

CONSTANTS MaxData,     \* data strings have 0..MaxData characters
          DataAlphabet, NameAlphabet,
          Splitter, MaxEvents, MaxPings,
          Retries      \* subset of {0, 1, 2}: absent, positive, zero

Strings(A, n) == UNION {[1..m -> A] : m \in 0..n}

\* ---------------------------------------------------------------- splitting text into lines
\* wire rule: CR LF, CR, LF end a line (the text after the last terminator is a line too)
RECURSIVE SplitWire(_, _)
SplitWire(s, cur) ==
  IF s = <<>> THEN <<cur>>
  ELSE IF s[1] = "CR" /\ Len(s) >= 2 /\ s[2] = "LF" THEN <<cur>> \o SplitWire(SubSeq(s, 3, Len(s)), <<>>)
  ELSE IF s[1] \in {"CR", "LF"} THEN <<cur>> \o SplitWire(Tail(s), <<>>)
  ELSE SplitWire(Tail(s), Append(cur, s[1]))
\* str.splitlines: also OS ends a line; no final empty line; "" gives no line at all
RECURSIVE SplitPyAcc(_, _)
SplitPyAcc(s, cur) ==
  IF s = <<>> THEN (IF cur = <<>> THEN <<>> ELSE <<cur>>)
  ELSE IF s[1] = "CR" /\ Len(s) >= 2 /\ s[2] = "LF" THEN <<cur>> \o SplitPyAcc(SubSeq(s, 3, Len(s)), <<>>)
  ELSE IF s[1] \in {"CR", "LF", "OS"} THEN <<cur>> \o SplitPyAcc(Tail(s), <<>>)
  ELSE SplitPyAcc(Tail(s), Append(cur, s[1]))
SplitData(d) == IF Splitter = "wire" THEN SplitWire(d, <<>>) ELSE SplitPyAcc(d, <<>>)

RECURSIVE JoinLF(_)
JoinLF(ls) == IF ls = <<>> THEN <<>> ELSE IF Len(ls) = 1 THEN ls[1] ELSE ls[1] \o <<"LF">> \o JoinLF(Tail(ls))

\* ---------------------------------------------------------------- the encoder
\* an event: [hasData, data, event, hasId, id, retry]; event = <<>> means "key absent"; an id key may be present with the
\* empty value (it resets the client's last event id); retry: 0 absent, 1 a positive number ("DIGITS"), 2 the number zero ("ZERO")
FieldLine(name, value) == <<name, "CO", "SP">> \o value
RECURSIVE DataLines(_)
DataLines(ls) == IF ls = <<>> THEN <<>> ELSE <<FieldLine("data", Head(ls))>> \o DataLines(Tail(ls))
EncodeLines(e) ==
  (IF e.event # <<>> THEN <<FieldLine("event", e.event)>> ELSE <<>>)
  \o (IF e.hasId THEN <<FieldLine("id", e.id)>> ELSE <<>>)
  \o (IF e.retry > 0 THEN <<FieldLine("retry", <<IF e.retry = 1 THEN "DIGITS" ELSE "ZERO">>)>> ELSE <<>>)
  \o (IF e.hasData THEN DataLines(SplitData(e.data)) ELSE <<>>)
  \o <<<<>>, <<>>>>                          \* b"\n".join(..., b"", b"") : ends the block with an empty line
Encode(e) == JoinLF(EncodeLines(e))
Ping == <<"CO", "SP", "CH", "LF", "LF">>      \* b": ping\n\n"

\* ---------------------------------------------------------------- the client (WHATWG 9.2.6)
StripOneSpace(v) == IF v # <<>> /\ v[1] = "SP" THEN Tail(v) ELSE v
ColonAt(l) == LET S == {i \in 1..Len(l) : l[i] = "CO"} IN IF S = {} THEN 0 ELSE CHOOSE i \in S : \A j \in S : i <= j
EmptyBuf == [data |-> <<>>, hasData |-> FALSE, event |-> <<>>, id |-> <<>>, retry |-> 0]
\* process one line; returns <<buffer', dispatched-events-to-append>>
Process(buf, l) ==
  IF l = <<>> THEN   \* dispatch
       IF ~buf.hasData THEN <<[EmptyBuf EXCEPT !.id = buf.id], <<>>>>
       ELSE <<[EmptyBuf EXCEPT !.id = buf.id],
              <<[data |-> SubSeq(buf.data, 1, Len(buf.data) - 1), event |-> buf.event, id |-> buf.id, retry |-> buf.retry]>>>>
  ELSE IF l[1] = "CO" THEN <<buf, <<>>>>            \* comment
  ELSE LET c == ColonAt(l)
           name == IF c = 0 THEN l ELSE SubSeq(l, 1, c - 1)
           value == IF c = 0 THEN <<>> ELSE StripOneSpace(SubSeq(l, c + 1, Len(l))) IN
       IF name = <<"data">> THEN <<[buf EXCEPT !.data = @ \o value \o <<"LF">>, !.hasData = TRUE], <<>>>>
       ELSE IF name = <<"event">> THEN <<[buf EXCEPT !.event = value], <<>>>>
       ELSE IF name = <<"id">> THEN <<[buf EXCEPT !.id = value], <<>>>>
       ELSE IF name = <<"retry">> /\ value = <<"DIGITS">> THEN <<[buf EXCEPT !.retry = 1], <<>>>>
       ELSE IF name = <<"retry">> /\ value = <<"ZERO">> THEN <<[buf EXCEPT !.retry = 2], <<>>>>
       ELSE <<buf, <<>>>>
RECURSIVE Run(_, _, _)
Run(buf, ls, out) == IF ls = <<>> THEN out
                     ELSE LET r == Process(buf, Head(ls)) IN Run(r[1], Tail(ls), out \o r[2])
\* a stream that ends without a final blank line discards the pending event: the last "line" after the final LF is empty text
Parse(w) == LET ls == SplitWire(w, <<>>) IN Run(EmptyBuf, SubSeq(ls, 1, Len(ls) - 1), <<>>)

\* ---------------------------------------------------------------- behaviour: a server yields events, pings may interleave
Events == [hasData : BOOLEAN, data : Strings(DataAlphabet, MaxData), event : Strings(NameAlphabet, 1), hasId : BOOLEAN, id : Strings(NameAlphabet, 1), retry : Retries]
VARIABLES yielded, wire, parsed, npings     \* parsed: what the client has dispatched so far
vars == <<yielded, wire, parsed, npings>>
Init == yielded = <<>> /\ wire = <<>> /\ parsed = <<>> /\ npings = 0
Yield(e) == /\ Len(yielded) < MaxEvents /\ (~e.hasData => e.data = <<>>) /\ (~e.hasId => e.id = <<>>)
            /\ yielded' = Append(yielded, e) /\ wire' = wire \o Encode(e) /\ parsed' = Parse(wire \o Encode(e)) /\ UNCHANGED npings
SendPing == /\ npings < MaxPings /\ npings' = npings + 1
            /\ wire' = wire \o Ping /\ parsed' = Parse(wire \o Ping) /\ UNCHANGED yielded
Next == (\E e \in Events : Yield(e)) \/ SendPing
Spec == Init /\ [][Next]_vars
PingBound == npings <= MaxPings

\* ---------------------------------------------------------------- properties
Expected(e) == [data |-> JoinLF(SplitWire(e.data, <<>>)), event |-> e.event, id |-> e.id, retry |-> e.retry]
WithData == SelectSeq(yielded, LAMBDA e : e.hasData)
\* the client sees exactly the yielded events that carry data, in order, each with its name, id, retry and data lines
\* (the id persists on the client side: an event without an id key carries the id of the last yielded event that had one)
RECURSIVE LastId(_, _)
LastId(es, n) == IF n = 0 THEN <<>> ELSE IF es[n].hasId THEN es[n].id ELSE LastId(es, n - 1)
IndexOfData(i) == CHOOSE n \in 1..Len(yielded) : yielded[n].hasData /\ Cardinality({m \in 1..n : yielded[m].hasData}) = i
RoundTrip ==
  LET got == parsed IN
  /\ Len(got) = Len(WithData)
  /\ \A i \in 1..Len(got) :
        /\ got[i].data = Expected(WithData[i]).data
        /\ got[i].event = WithData[i].event
        /\ got[i].retry = WithData[i].retry
        /\ got[i].id = LastId(yielded, IndexOfData(i))
PingIgnored == Parse(Ping) = <<>>
==========================================================================
