---------------------------- MODULE WebSocket ----------------------------
(***************************************************************************)
(* baize/asgi/websocket.py : class WebSocket                               *)
(*                                                                         *)
(* Two three-state automata (client side / application side) wrapped       *)
(* around the server's receive() and send() callables.  One action per     *)
(* public coroutine of the class, each with the guard order of the code:   *)
(* state test, assertion, state change BEFORE forwarding, forwarding.      *)
(*                                                                         *)
(* The server is a script: "connect", k data frames (kind text or bytes),  *)
(* then "disconnect" (the disconnect position is the choice of k).         *)
(***************************************************************************)
EXTENDS Naturals, Sequences, FiniteSets

CONSTANTS MaxFrames,   \* frames per server script: 0..MaxFrames
          MaxFwd       \* bound on forwarded messages (state constraint only)

VARIABLES cs,      \* client_state       : "CONNECTING" | "CONNECTED" | "DISCONNECTED"
          ast,     \* application_state  : same domain
          script,  \* the server's event sequence (fixed per behaviour)
          rpos,    \* number of server events the wrapper has pulled with receive()
          fwd,     \* message types the wrapper passed to the server's send()
          got,     \* indexes (into script) of frames RETURNED to the application
          ret,     \* outcome class of the last call
          failAt   \* fault injection: the server's send() raises on its failAt-th call (0 = never); fixed per behaviour

vars == <<cs, ast, script, rpos, fwd, got, ret, failAt>>

States == {"CONNECTING", "CONNECTED", "DISCONNECTED"}
Rank(s) == CASE s = "CONNECTING" -> 0 [] s = "CONNECTED" -> 1 [] s = "DISCONNECTED" -> 2
Errors == {"RuntimeError", "AssertionError", "WebSocketDisconnect", "KeyError"}

FrameSeqs == UNION {[1..n -> {"text", "bytes"}] : n \in 0..MaxFrames}
Scripts == {<<"connect">> \o f \o <<"disconnect">> : f \in FrameSeqs}

Init == /\ cs = "CONNECTING" /\ ast = "CONNECTING"
        /\ script \in Scripts
        /\ rpos = 0 /\ fwd = <<>> /\ got = <<>> /\ ret = "init"
        /\ failAt \in 0..MaxFwd

(***************************************************************************)
(* receive(): what the method does, as a function of the state.            *)
(* Result record: the new client state, new rpos, the pulled event (or     *)
(* "none") and the error ("" = no error).                                  *)
(***************************************************************************)
NextEvent == script[rpos + 1]

RecvResult ==
  IF cs = "CONNECTING"
    THEN \* message = await self._receive(); assert type == connect
         IF NextEvent = "connect"
           THEN [cs |-> "CONNECTED", rpos |-> rpos + 1, ev |-> "connect", err |-> ""]
           ELSE [cs |-> cs, rpos |-> rpos + 1, ev |-> NextEvent, err |-> "AssertionError"]
  ELSE IF cs = "CONNECTED"
    THEN IF NextEvent = "disconnect"
           THEN [cs |-> "DISCONNECTED", rpos |-> rpos + 1, ev |-> "disconnect", err |-> ""]
           ELSE IF NextEvent \in {"text", "bytes"}
             THEN [cs |-> cs, rpos |-> rpos + 1, ev |-> NextEvent, err |-> ""]
             ELSE [cs |-> cs, rpos |-> rpos + 1, ev |-> NextEvent, err |-> "AssertionError"]
  ELSE [cs |-> cs, rpos |-> rpos, ev |-> "none", err |-> "RuntimeError"]

(***************************************************************************)
(* send(message): result record with new application state, whether the    *)
(* message is forwarded, and the error.                                    *)
(***************************************************************************)
SendResult(a, t) ==
  IF a = "CONNECTING"
    THEN IF t \in {"accept", "close"}
           THEN [ast |-> IF t = "close" THEN "DISCONNECTED" ELSE "CONNECTED", f |-> TRUE, err |-> ""]
           ELSE [ast |-> a, f |-> FALSE, err |-> "AssertionError"]
  ELSE IF a = "CONNECTED"
    THEN IF t \in {"send", "close"}
           THEN [ast |-> IF t = "close" THEN "DISCONNECTED" ELSE a, f |-> TRUE, err |-> ""]
           ELSE [ast |-> a, f |-> FALSE, err |-> "AssertionError"]
  ELSE [ast |-> a, f |-> FALSE, err |-> "RuntimeError"]

\* ---------------------------------------------------------------- actions

Receive ==
  LET r == RecvResult IN
  /\ cs' = r.cs /\ rpos' = r.rpos
  /\ ret' = IF r.err # "" THEN r.err ELSE r.ev
  /\ got' = IF r.err = "" /\ r.ev \in {"text", "bytes"} THEN Append(got, r.rpos) ELSE got
  /\ UNCHANGED <<ast, script, failAt, fwd>>

\* receive_text / receive_bytes: assert application_state == CONNECTED; receive();
\* raise on disconnect; index the message with the kind's key.
ReceiveTyped(kind) ==
  IF ast # "CONNECTED"
    THEN /\ ret' = "AssertionError" /\ UNCHANGED <<cs, ast, script, failAt, rpos, fwd, got>>
    ELSE LET r == RecvResult IN
         /\ cs' = r.cs /\ rpos' = r.rpos
         /\ ret' = IF r.err # "" THEN r.err
                   ELSE IF r.ev = "disconnect" THEN "WebSocketDisconnect"
                   ELSE IF r.ev = kind THEN kind
                   ELSE "KeyError"          \* connect event, or a frame of the other kind
         /\ got' = IF r.err = "" /\ r.ev = kind THEN Append(got, r.rpos) ELSE got
         /\ UNCHANGED <<ast, script, failAt, fwd>>

ReceiveText == ReceiveTyped("text")
ReceiveBytes == ReceiveTyped("bytes")

\* the state changes BEFORE the message is handed to the server: if the server's send() then raises,
\* the message counts as forwarded (the server saw it) and the new state stands
SendFails(r) == r.f /\ Len(fwd) + 1 = failAt
DoSend(t) ==
  LET r == SendResult(ast, t) IN
  /\ ast' = r.ast
  /\ fwd' = IF r.f THEN Append(fwd, t) ELSE fwd
  /\ ret' = IF r.err # "" THEN r.err ELSE IF SendFails(r) THEN "OSError" ELSE "ok"
  /\ UNCHANGED <<cs, script, failAt, rpos, got>>

SendRaw(t) == DoSend(t)
SendText == DoSend("send")
SendBytes == DoSend("send")

\* accept(): if client_state == CONNECTING: await self.receive(); then send(accept)
Accept ==
  LET r == IF cs = "CONNECTING" THEN RecvResult
           ELSE [cs |-> cs, rpos |-> rpos, ev |-> "none", err |-> ""] IN
  IF r.err # ""
    THEN /\ cs' = r.cs /\ rpos' = r.rpos /\ ret' = r.err
         /\ UNCHANGED <<ast, script, failAt, fwd, got>>
    ELSE LET s == SendResult(ast, "accept") IN
         /\ cs' = r.cs /\ rpos' = r.rpos
         /\ ast' = s.ast
         /\ fwd' = IF s.f THEN Append(fwd, "accept") ELSE fwd
         /\ ret' = IF s.err # "" THEN s.err ELSE IF SendFails(s) THEN "OSError" ELSE "ok"
         /\ UNCHANGED <<script, failAt, got>>

\* close(): if application_state != DISCONNECTED: send(close)
Close ==
  IF ast # "DISCONNECTED"
    THEN DoSend("close")
    ELSE /\ ret' = "ok" /\ UNCHANGED <<cs, ast, script, failAt, rpos, fwd, got>>

\* TLC labels a transition with the innermost operator that is not a mere alias, so the
\* next-state relation uses ReceiveTyped(kind) and DoSend(type) directly; the typed helpers
\* (receive_text, send_text, send_bytes, raw send) are the concretisations of those two.
Next == \/ Receive
        \/ \E k \in {"text", "bytes"} : ReceiveTyped(k)
        \/ \E t \in {"accept", "close", "send"} : DoSend(t)
        \/ Accept \/ Close

Spec == Init /\ [][Next]_vars

Bound == Len(fwd) <= MaxFwd

\* ------------------------------------------------------------- properties

\* recogniser of the application side of the ASGI WebSocket protocol
RECURSIVE Recog(_, _)
Recog(q, s) ==
  IF s = <<>> THEN q
  ELSE LET t == Head(s)
           q2 == IF q = "start" /\ t = "accept" THEN "open"
                 ELSE IF q = "start" /\ t = "close" THEN "closed"
                 ELSE IF q = "open" /\ t = "send" THEN "open"
                 ELSE IF q = "open" /\ t = "close" THEN "closed"
                 ELSE "bad"
       IN Recog(q2, Tail(s))

TypeOK == /\ cs \in States /\ ast \in States /\ rpos \in 0..Len(script)
          /\ ret \in Errors \cup {"init", "ok", "connect", "disconnect", "text", "bytes", "OSError"}

\* the forwarded sequence is a legal application sequence
LegalFwd == Recog("start", fwd) # "bad"

\* the application state reported is the recogniser's state
StateMatchesFwd ==
  ast = CASE Recog("start", fwd) = "start" -> "CONNECTING"
          [] Recog("start", fwd) = "open" -> "CONNECTED"
          [] Recog("start", fwd) = "closed" -> "DISCONNECTED"
          [] OTHER -> "?"

\* no receive is issued once the disconnect has been delivered
DisconnectDelivered == rpos >= 1 /\ script[rpos] = "disconnect"
NoReceiveAfterDisconnect == [][DisconnectDelivered => rpos' = rpos]_vars
ClientStateTracksScript ==
  cs = IF rpos = 0 THEN "CONNECTING" ELSE IF script[rpos] = "disconnect" THEN "DISCONNECTED" ELSE "CONNECTED"

\* frames are returned in order, at most once, and only frames
FramesInOrderOnce ==
  /\ \A i \in 1..Len(got) : script[got[i]] \in {"text", "bytes"} /\ got[i] <= rpos
  /\ \A i, j \in 1..Len(got) : i < j => got[i] < got[j]

\* a call that raises an error forwards nothing
IllegalForwardsNothing == [][ret' \in Errors => fwd' = fwd]_vars

\* close is idempotent
CloseIdempotent == [][(ast = "DISCONNECTED" /\ ast' = ast /\ ret' = "ok") => fwd' = fwd]_vars

\* states only move forward
Monotone == [][Rank(cs') >= Rank(cs) /\ Rank(ast') >= Rank(ast)]_vars
==========================================================================
