------------------------------ MODULE Hosts ------------------------------
(***************************************************************************)
(* baize/routing.py BaseHosts.search + */routing.py Hosts.__call__         *)
(*                                                                         *)
(* Linear search for the first pattern that matches the ENTIRE Host value. *)
(* A pattern is a sequence of ALTERNATIVES (top-level `a|b`), each a       *)
(* sequence of elements [opt, lit]: a literal token string, optional or    *)
(* not - the `(www\.)?example\.com` style of the docs.  Host values are    *)
(* token sequences (the empty one = no Host header).                       *)
(***************************************************************************)
EXTENDS Naturals, Sequences

CONSTANTS HostTables,   \* SEQUENCE of tables; a table is a sequence of patterns
          HostValues    \* set of host values

VARIABLES tab, host, i, chosen    \* i: next entry to try; chosen: 0 undecided, k > 0 entry k, -1 not found
vars == <<tab, host, i, chosen>>

IsPrefixAt(p, s) == Len(s) >= Len(p) /\ SubSeq(s, 1, Len(p)) = p
Drop(s, n) == SubSeq(s, n + 1, Len(s))

RECURSIVE MatchSeq(_, _)
MatchSeq(p, h) ==
  IF p = <<>> THEN h = <<>>
  ELSE LET e == Head(p) IN
       \/ (IsPrefixAt(e.lit, h) /\ MatchSeq(Tail(p), Drop(h, Len(e.lit))))
       \/ (e.opt /\ MatchSeq(Tail(p), h))
\* the ENTIRE host value has to be matched by one of the alternatives
FullMatch(p, h) == \E k \in 1..Len(p) : MatchSeq(p[k], h)

TheTables == HostTables   \* evaluated once (see Mount.tla)
Table == TheTables[tab]

Init == tab \in 1..Len(HostTables) /\ host \in HostValues /\ i = 1 /\ chosen = 0

TryEntry == /\ chosen = 0 /\ i <= Len(Table)
            /\ IF FullMatch(Table[i], host) THEN chosen' = i /\ i' = i
                                            ELSE i' = i + 1 /\ chosen' = chosen
            /\ UNCHANGED <<tab, host>>

GiveUp == /\ chosen = 0 /\ i > Len(Table)
          /\ chosen' = 0 - 1
          /\ UNCHANGED <<tab, host, i>>

Next == TryEntry \/ GiveUp
Spec == Init /\ [][Next]_vars

FirstFullMatch == /\ chosen > 0 => (FullMatch(Table[chosen], host) /\ \A j \in 1..(chosen - 1) : ~FullMatch(Table[j], host))
                  /\ chosen < 0 => \A j \in 1..Len(Table) : ~FullMatch(Table[j], host)
==========================================================================
