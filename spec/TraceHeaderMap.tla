------------------------- MODULE TraceHeaderMap -------------------------
(***************************************************************************)
(* Trace validation for HeaderMap.tla: long random operation sequences on  *)
(* a real MutableHeaders (far beyond MaxOps), one event per mutator call   *)
(* logged at its return - also when it raised - with the arguments, the    *)
(* outcome and the full projected store (name, parts of the value that     *)
(* were joined with ", ").                                                 *)
(* TRACE_FILE: JSON array of {init: store, events: [{op, k, v, k2, v2,     *)
(* ret, store}, ...]}.  The module's invariants Clean / LowerKeys are      *)
(* evaluated in every state of every recorded execution.                   *)
(***************************************************************************)
EXTENDS HeaderMap, Json, IOUtils, TLC, TLCExt

Traces == JsonDeserialize(IOEnv.TRACE_FILE)
NTraces == Len(Traces)

VARIABLES tid, l
tvars == <<vars, tid, l>>

ASSUME \A i \in 1..NTraces : TLCSet(100 + i, 0)

T == Traces[tid]
Ev == T.events[l]

TraceInit == /\ tid \in 1..NTraces /\ l = 1
             /\ store = Traces[tid].init /\ ret = "init" /\ nops = 0 /\ attempted = <<>>

Step(name, A) == /\ l <= Len(T.events) /\ Ev.op = name
                 /\ A /\ store' = Ev.store /\ ret' = Ev.ret
                 /\ l' = l + 1 /\ UNCHANGED tid

TraceNext == \/ Step("SetItem", SetItem(Ev.k, Ev.v))
             \/ Step("AppendOp", AppendOp(Ev.k, Ev.v))
             \/ Step("SetDefault", SetDefault(Ev.k, Ev.v))
             \/ Step("Update", Update(Ev.k, Ev.v, Ev.k2, Ev.v2))
             \/ Step("DelItem", DelItem(Ev.k))

TraceSpec == TraceInit /\ [][TraceNext]_tvars

\* a clean store stays clean (the initial stores of the traces are clean)
TClean == CleanStore(store)

Progress == IF l - 1 > TLCGet(100 + tid) THEN TLCSet(100 + tid, l - 1) ELSE TRUE
Post == JsonSerialize(IOEnv.PREFIX_FILE, [i \in 1..NTraces |-> TLCGet(100 + i)])
==========================================================================
