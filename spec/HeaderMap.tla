----------------------------- MODULE HeaderMap -----------------------------
(***************************************************************************)
(* baize/datastructures.py Headers / MutableHeaders (the response header   *)
(* mapping): a lower-cased dict; __setitem__ refuses CR, LF and NUL in     *)
(* names and values; append / update / setdefault are written in terms of  *)
(* it (MutableMapping mix-ins), so they refuse at the same point - update  *)
(* applies the pairs before the offending one.                             *)
(* Names and values are opaque tokens; Bad is the set of tokens that       *)
(* contain a control character; Lower maps a name to its lower-case form.  *)
(***************************************************************************)
EXTENDS Naturals, Sequences, FiniteSets

CONSTANTS Names, Values, BadTokens, LowerOf, MaxOps, Initial, UpdFirst   \* UpdFirst: the first pairs tried in update()
\* LowerOf: set of <<name, lowercase name>>; Initial: set of initial stores (constructor argument, unchecked)

VARIABLES store, ret, nops, attempted
vars == <<store, ret, nops, attempted>>

Lower(k) == (CHOOSE e \in LowerOf : e[1] = k)[2]
Bad(t) == t \in BadTokens
Has(s, k) == \E i \in 1..Len(s) : s[i][1] = k
Idx(s, k) == CHOOSE i \in 1..Len(s) : s[i][1] = k
Get(s, k) == s[Idx(s, k)][2]
Put(s, k, v) == IF Has(s, k) THEN [s EXCEPT ![Idx(s, k)] = <<k, v>>] ELSE Append(s, <<k, v>>)
Del(s, k) == SelectSeq(s, LAMBDA p : p[1] # k)
\* a stored value is the sequence of tokens that were joined with ", " (append on an existing key)
HasBad(v) == \E i \in 1..Len(v) : Bad(v[i])

\* __setitem__
FSet(s, k, v) == IF Bad(k) \/ HasBad(v) THEN [s |-> s, r |-> "ValueError"] ELSE [s |-> Put(s, Lower(k), v), r |-> "ok"]

Init == store \in Initial /\ ret = "init" /\ nops = 0 /\ attempted = <<>>

SetItem(k, v) == /\ nops < MaxOps /\ LET x == FSet(store, k, <<v>>) IN store' = x.s /\ ret' = x.r
                 /\ nops' = nops + 1 /\ attempted' = <<k, v>>
AppendOp(k, v) == /\ nops < MaxOps
                  /\ LET x == IF ~Bad(k) /\ Has(store, Lower(k)) THEN FSet(store, k, Append(Get(store, Lower(k)), v)) ELSE FSet(store, k, <<v>>)
                     IN store' = x.s /\ ret' = x.r
                  /\ nops' = nops + 1 /\ attempted' = <<k, v>>
SetDefault(k, v) == /\ nops < MaxOps
                    /\ IF Has(store, Lower(k)) THEN store' = store /\ ret' = "ok"
                       ELSE LET x == FSet(store, k, <<v>>) IN store' = x.s /\ ret' = x.r
                    /\ nops' = nops + 1 /\ attempted' = <<k, v>>
\* update({k1: v1, k2: v2}): pairs applied in order until one is refused
Update(k1, v1, k2, v2) ==
  /\ nops < MaxOps /\ k1 # k2
  /\ LET x == FSet(store, k1, <<v1>>) IN
     IF x.r # "ok" THEN store' = x.s /\ ret' = x.r
     ELSE LET y == FSet(x.s, k2, <<v2>>) IN store' = y.s /\ ret' = y.r
  /\ nops' = nops + 1 /\ attempted' = <<k2, v2>>
DelItem(k) == /\ nops < MaxOps
              /\ IF Has(store, Lower(k)) THEN store' = Del(store, Lower(k)) /\ ret' = "ok" ELSE store' = store /\ ret' = "KeyError"
              /\ nops' = nops + 1 /\ attempted' = <<k, k>>

Next == \/ \E k \in Names, v \in Values : SetItem(k, v) \/ AppendOp(k, v) \/ SetDefault(k, v)
        \/ \E p \in UpdFirst, k2 \in Names, v2 \in Values : Update(p[1], p[2], k2, v2)
        \/ \E k \in Names : DelItem(k)
Spec == Init /\ [][Next]_vars

\* ---------------------------------------------------------------- properties
CleanStore(s) == \A i \in 1..Len(s) : ~Bad(s[i][1]) /\ ~HasBad(s[i][2])
\* nothing that went through a mutating operation can put a control character into the store
Clean == CleanStore(store) \/ \E s0 \in Initial : ~CleanStore(s0)   \* (only an unchecked constructor argument could)
MutationsClean == [][CleanStore(store) => CleanStore(store')]_vars
\* a refused mutation reports an error
RejectAtMutation == [][(nops' = nops + 1 /\ Len(attempted') = 2 /\ (Bad(attempted'[1]) \/ Bad(attempted'[2])) /\ ret' = "ok")
                        => store' = store]_vars
LowerKeys == \A i \in 1..Len(store) : \E e \in LowerOf : e[2] = store[i][1]
==========================================================================
