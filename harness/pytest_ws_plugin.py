"""pytest plugin: record every WebSocket session of the repository's own tests.

baize.asgi.WebSocket is wrapped from the outside (no source change): the server's receive/send
callables are counted, and each outermost public call is logged at its return, error path
included, in the event format TraceWebSocket.tla reads.
"""
import asyncio
import functools
import json
import os

SESSIONS = []


def _kind(msg):
    t = msg.get("type", "")
    if t == "websocket.connect":
        return "connect"
    if t == "websocket.disconnect":
        return "disconnect"
    if t == "websocket.receive":
        return "text" if msg.get("text") is not None else "bytes"
    return t


class Session:
    def __init__(self):
        self.script = []
        self.fwd = []
        self.got = []
        self.events = []
        self.depth = {}
        self.last_pulled = None

    def post(self, ws, op, arg, ret):
        self.events.append({"op": op, "arg": arg, "cs": ws.client_state.name, "ast": ws.application_state.name,
                            "rpos": len(self.script), "nfwd": len(self.fwd), "last": self.fwd[-1] if self.fwd else "",
                            "ngot": len(self.got), "ret": ret, "fwd": list(self.fwd), "got": list(self.got)})


OPS = {"receive": "Receive", "receive_text": "ReceiveText", "receive_bytes": "ReceiveBytes", "send": "SendRaw",
       "send_text": "SendText", "send_bytes": "SendBytes", "accept": "Accept", "close": "Close"}


def pytest_configure(config):
    import baize.asgi.websocket as W

    orig_init = W.WebSocket.__init__

    def __init__(self, scope, receive, send):
        sess = Session()
        SESSIONS.append(sess)

        async def r():
            m = await receive()
            sess.script.append(_kind(m))
            sess.last_pulled = m
            return m

        async def s(m):
            sess.fwd.append(m["type"].split(".", 1)[1])
            await send(m)

        orig_init(self, scope, r, s)
        self.__dict__["_verif_session"] = sess

    W.WebSocket.__init__ = __init__

    def wrap(name, op):
        orig = getattr(W.WebSocket, name)

        @functools.wraps(orig)
        async def wrapped(self, *a, **k):
            sess = self.__dict__.get("_verif_session")
            if sess is None:
                return await orig(self, *a, **k)
            try:
                key = id(asyncio.current_task())
            except RuntimeError:
                key = 0
            d = sess.depth.get(key, 0)
            sess.depth[key] = d + 1
            ret = "ok"
            arg = ""
            if name == "send" and a:
                arg = a[0].get("type", "").split(".", 1)[-1]
            try:
                v = await orig(self, *a, **k)
                if name == "receive":
                    ret = _kind(v)
                    if ret in ("text", "bytes") and d == 0:
                        sess.got.append(len(sess.script))
                elif name == "receive_text":
                    ret = "text"
                    if d == 0:
                        sess.got.append(len(sess.script))
                elif name == "receive_bytes":
                    ret = "bytes"
                    if d == 0:
                        sess.got.append(len(sess.script))
                return v
            except BaseException as e:
                ret = type(e).__name__
                raise
            finally:
                sess.depth[key] = d
                if d == 0 and ret not in ("CancelledError", "GeneratorExit"):
                    sess.post(self, op, arg, ret)

        setattr(W.WebSocket, name, wrapped)

    for n, op in OPS.items():
        wrap(n, op)


def pytest_sessionfinish(session, exitstatus):
    out = os.environ.get("WS_TRACE_OUT")
    if not out:
        return
    traces = []
    for s in SESSIONS:
        if not s.events:
            continue
        script = list(s.script)
        if "disconnect" not in script:
            script.append("disconnect")
        if not script or script[0] != "connect":
            continue
        traces.append({"script": script, "failAt": 0, "events": s.events, "source": "repository tests"})
    with open(out, "w") as f:
        json.dump(traces, f)
