"""Running TLC / SANY / Apalache and reading their output."""
import atexit
import os
import re
import shutil
import subprocess
import time

from . import tlaval

VERIF = os.path.dirname(os.path.dirname(os.path.abspath(__file__)))
SPEC = os.path.join(VERIF, "spec")
JAR = "/opt/veriftools/tla/tla2tools.jar:/opt/veriftools/tla/CommunityModules-deps.jar"

_SCRATCH = None


def scratch():
    """per-process scratch directory under /dev/shm, removed at exit"""
    global _SCRATCH
    if _SCRATCH is None:
        base = "/dev/shm" if os.path.isdir("/dev/shm") else os.path.join(VERIF, "scratch")
        _SCRATCH = os.path.join(base, "baize-verif.%d" % os.getpid())
        os.makedirs(_SCRATCH, exist_ok=True)
        atexit.register(shutil.rmtree, _SCRATCH, True)
    return _SCRATCH


class MachineryError(Exception):
    """TLC crashed, a spec does not parse, a model is vacuous: exit 2, never a verdict."""


class TLCResult:
    def __init__(self):
        self.stdout = ""
        self.generated = 0
        self.distinct = 0
        self.depth = 0
        self.violated = None        # name of violated invariant/property, "Deadlock", or None
        self.kind = None            # invariant | action_property | deadlock | temporal | postcondition
        self.trace = []             # counter-example: list of (action_label, state Rec)
        self.coverage = {}          # action name -> (distinct, total)
        self.wall = 0.0
        self.workdir = None
        self.dot = None
        self.cmd = ""
        self.ok = False             # finished without error


_RE_STATES = re.compile(r"(\d+) states generated, (\d+) distinct states found, (\d+) states left")
_RE_DEPTH = re.compile(r"The depth of the complete state graph search is (\d+)")
_RE_COV = re.compile(r"^<(\w+) line (\d+), col \d+ to line \d+, col \d+ of module (\w+)(?: \([\d ]+\))?>: (\d+):(\d+)", re.M)
_RE_TRSTATE = re.compile(r"^State (\d+): (.*)$", re.M)


def write_mc(workdir, name, base, constants=None, defs=None, cfg_lines=(), extends=()):
    """Generate MC module `name` EXTENDS `base` with constant definitions + its cfg.

    constants: dict NAME -> python value (rendered by to_tla) bound through `NAME <- mc_NAME`
    defs: extra TLA+ definition text
    cfg_lines: e.g. ["SPECIFICATION Spec", "INVARIANT Inv", ...]
    """
    ext = ", ".join([base, "TLC"] + list(extends))
    lines = ["---- MODULE %s ----" % name, "EXTENDS " + ext]
    cfg = list(cfg_lines)
    if constants:
        cfg.append("CONSTANTS")
        for k, v in constants.items():
            lines.append("mc_%s == %s" % (k, tlaval.to_tla(v)))
            cfg.append("  %s <- mc_%s" % (k, k))
    if defs:
        lines.append(defs)
    lines.append("====")
    with open(os.path.join(workdir, name + ".tla"), "w") as f:
        f.write("\n".join(lines) + "\n")
    with open(os.path.join(workdir, name + ".cfg"), "w") as f:
        f.write("\n".join(cfg) + "\n")
    return "\n".join(cfg)


def workdir_for(tag):
    d = os.path.join(scratch(), tag)
    if os.path.isdir(d):
        shutil.rmtree(d)
    os.makedirs(d)
    for fn in os.listdir(SPEC):
        if fn.endswith(".tla") or fn.endswith(".cfg"):
            shutil.copy(os.path.join(SPEC, fn), d)
    return d


def run_tlc(workdir, module, **kw):
    """run TLC; a crash that is not a verdict (JVM / IO hiccup) is retried once before it counts as machinery failure"""
    try:
        return _run_tlc(workdir, module, **kw)
    except MachineryError as e:
        if "timed out" in str(e) or "Error:" in str(e) or "Parse Error" in str(e) or "Semantic errors" in str(e):
            raise
        try:
            with open(os.path.join(VERIF, "evidence", "machinery.log"), "a") as f:
                f.write("retrying %s after: %s\n" % (module, str(e)[:2000]))
        except OSError:
            pass
        return _run_tlc(workdir, module, **kw)


def _run_tlc(workdir, module, *, cfg=None, workers=None, dump=False, coverage=True, simulate=None,
            depth=None, seed=None, timeout=1500, deadlock=True, env=None, java_opts=(), extra=(),
            heap="3g", young="512m"):
    """Run TLC on `module` (in workdir).  Returns TLCResult.  Raises MachineryError on crashes."""
    r = TLCResult()
    r.workdir = workdir
    workers = workers or min(16, os.cpu_count() or 4)
    meta = os.path.join(workdir, "meta_" + module)
    shutil.rmtree(meta, True)
    # NB: touching fresh pages is very slow in this sandbox (~30 MB/s): a fixed, small young generation
    # that is reused beats the adaptive default by an order of magnitude (measured 46 s -> 3 s).
    cmd = ["java", "-XX:+UseParallelGC", "-XX:ParallelGCThreads=4", "-XX:-UseAdaptiveSizePolicy", "-Xmn" + young,
           "-Xmx" + heap, "-Xss16m", "-Djava.io.tmpdir=" + workdir] + list(java_opts) + [
        "-cp", JAR, "tlc2.TLC", "-workers", str(workers), "-metadir", meta, "-noGenerateSpecTE"]
    if cfg:
        cmd += ["-config", cfg]
    if coverage and not simulate:
        cmd += ["-coverage", "1"]
    if not deadlock:
        cmd += ["-deadlock"]
    if dump:
        r.dot = os.path.join(workdir, module + ".dot")
        cmd += ["-dump", "dot,actionlabels", r.dot]
    if simulate:
        cmd += ["-simulate", simulate]
        if depth:
            cmd += ["-depth", str(depth)]
    if seed is not None:
        cmd += ["-seed", str(seed)]
    cmd += list(extra) + [module]
    r.cmd = " ".join(cmd)
    e = dict(os.environ)
    e.pop("JAVA_TOOL_OPTIONS", None)
    if env:
        e.update(env)
    t0 = time.time()
    try:
        p = subprocess.run(cmd, cwd=workdir, env=e, stdout=subprocess.PIPE, stderr=subprocess.STDOUT,
                           timeout=timeout, text=True, errors="replace")
    except subprocess.TimeoutExpired as ex:
        subprocess.run(["pkill", "-f", "tlc2[.]TLC.*" + re.escape(meta)], check=False)
        raise MachineryError("TLC timed out after %ss: %s" % (timeout, r.cmd)) from ex
    r.wall = time.time() - t0
    out = r.stdout = p.stdout
    ms = _RE_STATES.findall(out)
    if ms:
        r.generated, r.distinct = int(ms[-1][0]), int(ms[-1][1])
    m = _RE_DEPTH.search(out)
    if m:
        r.depth = int(m.group(1))
    for m in _RE_COV.finditer(out):
        name = m.group(1)
        d, t = int(m.group(4)), int(m.group(5))
        a = r.coverage.get(name, (0, 0))
        r.coverage[name] = (a[0] + d, a[1] + t)
    # verdict
    m = re.search(r"Error: Invariant (\S+) is violated", out)
    if m:
        r.violated, r.kind = m.group(1).rstrip("."), "invariant"
    m2 = re.search(r"Error: Action property (\S+) is violated", out)
    if m2 and not r.violated:
        r.violated, r.kind = m2.group(1).rstrip("."), "action_property"
    if "Error: Deadlock reached" in out and not r.violated:
        r.violated, r.kind = "Deadlock", "deadlock"
    m3 = re.search(r"Error: Temporal property (\S+) was violated", out)
    if m3 and not r.violated:
        r.violated, r.kind = m3.group(1).rstrip("."), "temporal"
    if "Temporal properties were violated" in out and not r.violated:
        r.violated, r.kind = "Temporal", "temporal"
    if re.search(r"Error: The postcondition|POSTCONDITION.*(violated|false)", out, re.I) and not r.violated:
        r.violated, r.kind = "Postcondition", "postcondition"
    if r.violated:
        r.trace = parse_trace(out)
    elif "Error:" in out or p.returncode not in (0,):
        # anything else is a machinery failure (parse error, evaluation error, OOM ...)
        lines = out.splitlines()
        idx = [i for i, l in enumerate(lines) if l.startswith("Error:") or "***Parse Error***" in l or "Semantic errors" in l]
        msg = "\n".join(l for l in lines[max(0, idx[0] - 25):idx[0] + 25] if not l.startswith(("Parsing file", "Semantic processing", "Linting of"))) \
            if idx else "\n".join(lines[-40:])
        raise MachineryError("TLC failed (rc=%s) on %s:\n%s" % (p.returncode, module, msg))
    else:
        r.ok = True
    return r


def parse_trace(out):
    """counter-example states from TLC stdout -> [(action label or 'Initial', Rec)]"""
    res = []
    ms = list(_RE_TRSTATE.finditer(out))
    for i, m in enumerate(ms):
        end = ms[i + 1].start() if i + 1 < len(ms) else len(out)
        body = out[m.end():end]
        # state text ends at the first blank line
        body = body.split("\n\n")[0]
        head = m.group(2)
        am = re.match(r"<(\w+)", head)
        label = am.group(1) if am else head
        if "Stuttering" in head or not body.strip():
            continue
        try:
            res.append((label, tlaval.parse_state(body)))
        except Exception:  # pragma: no cover - keep raw
            res.append((label, body))
    return res


def sany(path):
    # (the tools unpack their standard modules into java.io.tmpdir: keep that inside the scratch directory, which is removed at exit)
    p = subprocess.run(["java", "-Djava.io.tmpdir=" + os.path.dirname(path), "-cp", JAR, "tla2sany.SANY", path], cwd=os.path.dirname(path),
                       stdout=subprocess.PIPE, stderr=subprocess.STDOUT, text=True)
    if p.returncode != 0 or "Semantic errors" in p.stdout or "***Parse Error***" in p.stdout \
            or "Fatal errors" in p.stdout:
        raise MachineryError("SANY rejects %s:\n%s" % (path, p.stdout[-2000:]))
    return p.stdout


def check_coverage(res, actions, allow_zero=()):
    """Vacuity guard: every listed action must have fired at least once."""
    missing = [a for a in actions if a not in allow_zero and res.coverage.get(a, (0, 0))[1] == 0
               and res.coverage.get(a, (0, 0))[0] == 0]
    if missing:
        raise MachineryError("vacuous model: actions never taken: %s" % ", ".join(missing))


def parse_sim_file(path):
    """A behaviour file written by `-simulate file=...`: [(action, Rec)]"""
    with open(path) as f:
        txt = f.read()
    res = []
    parts = re.split(r"^STATE_(\d+) ==\s*$", txt, flags=re.M)
    # comments before each STATE_n carry the action
    acts = re.findall(r"^\\\* <?(\w+)", txt, flags=re.M)
    k = 0
    for i in range(1, len(parts), 2):
        body = parts[i + 1]
        body = body.split("\n\n")[0]
        label = acts[k] if k < len(acts) else "?"
        k += 1
        res.append((label, tlaval.parse_state(body)))
    return res


def describe(res, limit=6):
    """violated property + the counter-example states, for error messages"""
    out = ["%s %s violated after %d distinct states" % (res.kind, res.violated, res.distinct)]
    for label, st in res.trace[-limit:]:
        out.append("  <%s> %s" % (label, tlaval.to_json(st) if isinstance(st, dict) else st))
    return "\n".join(out)


def run_apalache(workdir, module, constants, inv="Inv", length=1, timeout=900):
    """Apalache bounded check (symbolic, unbounded integers).  Returns (ok, detail): ok False = invariant violated,
    detail = last state of the counter-example (ITF json) or the log tail.  Tool failures raise MachineryError."""
    import json as _json
    cfg = os.path.join(workdir, module + "_apa.cfg")
    with open(cfg, "w") as f:
        f.write("INIT Init\nNEXT Next\nINVARIANT %s\n" % inv)
        for k, v in constants.items():
            f.write("CONSTANT %s = %s\n" % (k, tlaval.to_tla(v)))
    out = os.path.join(workdir, "apa_" + module + "_%s" % "_".join(str(v) for v in constants.values()))
    shutil.rmtree(out, True)
    t0 = time.time()
    try:
        p = subprocess.run(["apalache-mc", "check", "--config=" + cfg, "--length=%d" % length, "--out-dir=" + out,
                            os.path.join(workdir, module + ".tla")], cwd=workdir, stdout=subprocess.PIPE, stderr=subprocess.STDOUT,
                           text=True, timeout=timeout, env=dict(os.environ, TMPDIR=workdir))     # (its wrapper makes a temp dir: inside the scratch)
    except (subprocess.TimeoutExpired, FileNotFoundError) as e:
        raise MachineryError("apalache failed on %s: %r" % (module, e))
    wall = time.time() - t0
    if "The outcome is: NoError" in p.stdout:
        return True, {"wall_s": round(wall, 1)}
    if "The outcome is: Error" in p.stdout and "invariant" in p.stdout:
        last = None
        for root, _, files in os.walk(out):
            if "violation1.itf.json" in files:
                with open(os.path.join(root, "violation1.itf.json")) as f:
                    last = _json.load(f)["states"][-1]
        return False, {"wall_s": round(wall, 1), "counterexample": last}
    raise MachineryError("apalache failed on %s:\n%s" % (module, "\n".join(p.stdout.splitlines()[-15:])))
