"""Minimal WSGI / ASGI "servers": build environ / scope from one abstract request, run an
application, record exactly what it emitted (raw, with Python types intact, for C05).

The construction of environ and scope from the same abstract request follows PEP 3333 and the
ASGI HTTP spec and is part of the trusted base: it *defines* "the same abstract request".
"""
import asyncio
import io

_LOOP = None


def loop():
    global _LOOP
    if _LOOP is None or _LOOP.is_closed():
        _LOOP = asyncio.new_event_loop()
        asyncio.set_event_loop(_LOOP)
    return _LOOP


class Req:
    """abstract HTTP request"""

    def __init__(self, method="GET", path="/", query="", headers=(), chunks=(), scheme="http",
                 server=("testserver", 80), client=("10.0.0.9", 4321), root_path="", http_version="1.1"):
        self.method, self.path, self.query = method, path, query
        self.headers = [(str(k), str(v)) for k, v in headers]
        self.chunks = [bytes(c) for c in chunks]
        self.scheme, self.server, self.client, self.root_path = scheme, server, client, root_path
        self.http_version = http_version

    def key(self):
        return {"method": self.method, "path": self.path, "query": self.query, "headers": self.headers,
                "chunks": [c.decode("latin-1") for c in self.chunks], "root_path": self.root_path}


class Livelock(Exception):
    """the application keeps polling receive() although it has been told that the client is gone (a busy loop: it would never return)"""


class ChunkedInput:
    """wsgi.input delivering the body in the given pieces (an empty read means EOF in WSGI)"""

    def __init__(self, chunks):
        self.chunks = [c for c in chunks if c]
        self.reads = 0
        self.rest = b""

    def read(self, size=-1):
        self.reads += 1
        if not self.rest and not self.chunks:
            self.eof_reads = getattr(self, "eof_reads", 0) + 1
            if self.eof_reads > 2000:     # the application keeps reading although the input has ended two thousand times
                raise Livelock("wsgi.input.read() called %d times after the end of the input" % self.eof_reads)
        if size is None or size < 0:
            data = self.rest + b"".join(self.chunks)
            self.rest, self.chunks = b"", []
            return data
        if not self.rest:
            if not self.chunks:
                return b""
            self.rest = self.chunks.pop(0)
        data, self.rest = self.rest[:size], self.rest[size:]
        return data

    def readline(self, *a):  # pragma: no cover
        return self.read()


def _wsgi_str(s):
    """native WSGI string for a unicode path: UTF-8 bytes seen as Latin-1"""
    return s.encode("utf-8").decode("latin-1")


def make_environ(r):
    env = {
        "REQUEST_METHOD": r.method,
        "SCRIPT_NAME": _wsgi_str(r.root_path),
        "PATH_INFO": _wsgi_str(r.path),
        "QUERY_STRING": _wsgi_str(r.query),
        "SERVER_NAME": r.server[0],
        "SERVER_PORT": str(r.server[1]),
        "SERVER_PROTOCOL": "HTTP/" + r.http_version,
        "wsgi.version": (1, 0),
        "wsgi.url_scheme": r.scheme,
        "wsgi.input": ChunkedInput(r.chunks),
        "wsgi.errors": io.StringIO(),
        "wsgi.multithread": True,
        "wsgi.multiprocess": False,
        "wsgi.run_once": False,
    }
    if r.client:
        env["REMOTE_ADDR"] = r.client[0]
        env["REMOTE_PORT"] = str(r.client[1])
    for k, v in r.headers:
        name = k.upper().replace("-", "_")
        if name not in ("CONTENT_TYPE", "CONTENT_LENGTH"):
            name = "HTTP_" + name
        if name in env:
            env[name] = env[name] + ", " + v   # a server folds repeated request header lines
        else:
            env[name] = v
    return env


def make_scope(r, extensions=None):
    scope = {
        "type": "http",
        "asgi": {"version": "3.0", "spec_version": "2.3"},
        "http_version": r.http_version,
        "method": r.method,
        "scheme": r.scheme,
        "path": r.path,
        "raw_path": r.path.encode("utf-8"),
        "query_string": r.query.encode("utf-8"),
        "root_path": r.root_path,
        "headers": [(k.lower().encode("latin-1"), v.encode("latin-1")) for k, v in r.headers],
        "server": tuple(r.server) if r.server else None,
        "client": tuple(r.client) if r.client else None,
    }
    if extensions is not None:
        scope["extensions"] = extensions
    return scope


def make_messages(r):
    ch = list(r.chunks)
    if not ch:
        return [{"type": "http.request", "body": b"", "more_body": False}]
    msgs = [{"type": "http.request", "body": c, "more_body": i < len(ch) - 1} for i, c in enumerate(ch)]
    # both keys are optional in ASGI (body defaults to b"", more_body to False): every other request leaves the defaults out
    _alternate[0] += 1
    if _alternate[0] % 2:
        del msgs[-1]["more_body"]
        for m in msgs:
            if m["body"] == b"":
                del m["body"]
    return msgs


_alternate = [0]


class WsgiResult:
    def __init__(self):
        self.start_calls = []     # (status, headers, n_items_before)
        self.items = []           # every yielded item, raw
        self.exc = None
        self.closed = False
        self.stopped_early = False

    @property
    def status(self):
        if not self.start_calls:
            return None
        try:
            return int(str(self.start_calls[-1][0]).split(" ", 1)[0])
        except ValueError:
            return None

    @property
    def headers(self):
        return list(self.start_calls[-1][1]) if self.start_calls else []

    @property
    def body(self):
        return b"".join(x for x in self.items if isinstance(x, (bytes, bytearray)))

    def header_multiset(self):
        return sorted((str(k).lower(), str(v)) for k, v in self.headers)


def wsgi_call(app, r_or_env, max_items=None, close_after=None, on_start=None):
    """run a WSGI app like a server would; returns WsgiResult (exceptions are observations)"""
    env = r_or_env if isinstance(r_or_env, dict) else make_environ(r_or_env)
    res = WsgiResult()

    def start_response(status, headers, exc_info=None):
        res.start_calls.append((status, list(headers), len(res.items)))
        if on_start is not None:
            on_start()      # (a fault injected at this very moment, e.g. the file being served is removed)
        return lambda data: res.items.append(data)

    # a call that blocks for a minute of real time (a relay thread spinning, a queue nobody fills) ends as a verdict, not as a hang
    import signal
    import threading
    guard = threading.current_thread() is threading.main_thread()

    def on_alarm(signum, frame):
        raise Livelock("a WSGI call did not return within 60 s of real time")
    if guard:
        old_handler = signal.signal(signal.SIGALRM, on_alarm)
        signal.setitimer(signal.ITIMER_REAL, 60)
    it = None
    try:
        it = app(env, start_response)
        n = 0
        res.stopped_early = False
        if close_after == 0:
            res.stopped_early = True
        else:
            for item in it:
                res.items.append(item)
                n += 1
                if n > 200000:       # no scenario of any check produces that many pieces: the iterable never ends
                    raise Livelock("the response iterable yielded %d items and goes on" % n)
                if close_after is not None and n >= close_after:
                    res.stopped_early = True
                    break
    except BaseException as e:  # noqa
        res.exc = e
    finally:
        try:
            if guard:
                signal.setitimer(signal.ITIMER_REAL, 15)
            if it is not None and hasattr(it, "close"):
                try:
                    it.close()
                    res.closed = True
                except BaseException as e:  # noqa
                    if res.exc is None:
                        res.exc = e
        finally:
            if guard:
                signal.setitimer(signal.ITIMER_REAL, 0)
                signal.signal(signal.SIGALRM, old_handler)
    if isinstance(res.exc, Livelock):
        raise res.exc
    return res


class AsgiResult:
    def __init__(self):
        self.events = []        # raw messages passed to send(), in order
        self.exc = None
        self.receive_calls = 0
        self.zerocopy = []

    @property
    def start(self):
        for m in self.events:
            if m.get("type") == "http.response.start":
                return m
        return None

    @property
    def status(self):
        s = self.start
        return s.get("status") if s else None

    @property
    def headers(self):
        s = self.start
        return list(s.get("headers", [])) if s else []

    @property
    def body(self):
        out = []
        for m in self.events:
            if m.get("type") == "http.response.body":
                out.append(m.get("body", b""))
            elif m.get("type") == "http.response.zerocopysend":
                out.append(m.get("_resolved", b""))
        return b"".join(out)

    def header_multiset(self):
        def d(x):
            return x.decode("latin-1") if isinstance(x, (bytes, bytearray)) else str(x)
        return sorted((d(k).lower(), d(v)) for k, v in self.headers)


def asgi_call(app, r_or_scope, messages=None, *, extensions=None, send_fail_at=None, disconnect_after_sends=None,
              timeout=20.0, on_start=None):
    """run an ASGI app to completion on a private loop; exceptions are observations.

    After the request messages are consumed receive() blocks (as a real server does) until the
    harness decides to deliver http.disconnect (disconnect_after_sends = n: after the n-th send)."""
    import os
    if _timeouts[0] >= 6:
        raise Livelock("%d application calls did not return within %s s each" % (_timeouts[0], timeout))
    if isinstance(r_or_scope, dict):
        scope = r_or_scope
        msgs = list(messages or [{"type": "http.request", "body": b"", "more_body": False}])
    else:
        scope = make_scope(r_or_scope, extensions)
        msgs = make_messages(r_or_scope) if messages is None else list(messages)
    res = AsgiResult()
    lp = loop()
    disc = asyncio.Event()
    if disconnect_after_sends == 0:
        disc.set()

    polled = [0]

    async def receive():
        res.receive_calls += 1
        if msgs:
            return msgs.pop(0)
        await disc.wait()
        polled[0] += 1
        if polled[0] > 2000:      # the disconnect has been delivered two thousand times and the application asks again
            raise Livelock("receive() called %d times after http.disconnect was delivered" % polled[0])
        return {"type": "http.disconnect"}

    async def send(message):
        n = len(res.events) + 1
        if send_fail_at is not None and n >= send_fail_at:
            raise OSError("simulated send failure")
        m = dict(message)
        if m.get("type") == "http.response.start" and "headers" in m and not isinstance(m["headers"], (list, tuple)):
            m["headers"] = list(m["headers"])      # the spec asks for an iterable: a server consumes it once
        if m.get("type") == "http.response.zerocopysend":
            fd = m["file"]
            off = m.get("offset")
            cnt = m.get("count")
            if off is not None:
                os.lseek(fd, off, os.SEEK_SET)
            if cnt is None:
                data = b""
                while True:
                    b = os.read(fd, 1 << 16)
                    if not b:
                        break
                    data += b
            else:
                data = b""
                while len(data) < cnt:
                    b = os.read(fd, cnt - len(data))
                    if not b:
                        break
                    data += b
            m["_resolved"] = data
        res.events.append(m)
        if on_start is not None and m.get("type") == "http.response.start":
            on_start()
        if disconnect_after_sends is not None and n >= disconnect_after_sends:
            disc.set()
            await asyncio.sleep(0)
        await asyncio.sleep(0)

    async def main():
        try:
            await asyncio.wait_for(app(scope, receive, send), timeout)
        except asyncio.TimeoutError as e:
            res.exc = e
            _timeouts[0] += 1
        except BaseException as e:  # noqa
            res.exc = e

    lp.run_until_complete(main())
    # let scheduled clean-up (cancelled watcher tasks) run
    lp.run_until_complete(asyncio.sleep(0))
    res.pending = [t for t in asyncio.all_tasks(lp) if not t.done()]
    for t in res.pending:
        t.cancel()
    if res.pending:
        lp.run_until_complete(asyncio.gather(*res.pending, return_exceptions=True))
    if _timeouts[0] >= 6:
        # every one of these waits costs `timeout` seconds of real time: a tree on which applications do not return at all would
        # keep a check busy for hours.  Six are enough for a verdict.
        raise Livelock("%d application calls did not return within %s s each (the last one: %s)" % (_timeouts[0], timeout, scope.get("path")))
    return res


_timeouts = [0]


def http_exception_response(exc):
    """what a server-side error handler would send for a baize HTTPException: (status, headers, body)"""
    from baize.exceptions import HTTPException
    if isinstance(exc, HTTPException):
        return exc.status_code, sorted((k.lower(), v) for k, v in (exc.headers or {}).items()), exc.content
    return None
