"""Parser for TLA+ values as TLC prints them (dot labels, traces, PrintT output).

The value text is rewritten token by token into a Python expression and handed to
eval() with a closed namespace; this is one to two orders of magnitude faster than a
hand-written recursive descent parser, which matters for graphs of 10^5..10^6 states.

Mapping:  <<a, b>> -> tuple      {a, b} -> frozenset      [f |-> v] -> Rec (hashable dict)
          (k :> v @@ ..) -> Rec   TRUE/FALSE -> bool       model value / identifier -> str
          a..b -> frozenset(range)
"""
import re

__all__ = ["parse", "parse_state", "Rec", "to_json"]


class Rec(dict):
    """A hashable dict: TLA+ records and functions."""

    __slots__ = ("_h",)

    def __hash__(self):  # type: ignore[override]
        try:
            return self._h
        except AttributeError:
            self._h = hash(frozenset(self.items()))
            return self._h

    def __getattr__(self, k):
        try:
            return self[k]
        except KeyError:
            raise AttributeError(k)


def _S(items):
    return frozenset(items)


def _F(pairs):
    return Rec(pairs)


def _R(**kw):
    return Rec(kw)


def _I(a, b):
    return frozenset(range(a, b + 1))


class _NS(dict):
    def __missing__(self, k):
        if k in _GLOBALS:
            return _GLOBALS[k]
        return k


_TOK = re.compile(
    r'"(?:[^"\\]|\\.)*"'  # string
    r"|<<>>|<<|>>|\|->|:>|@@|\.\.|[\[\]{}(),]"
    r"|-?\d+|[A-Za-z_][A-Za-z0-9_!]*|\s+|."
)

_MAP = {
    "<<>>": "()",
    "<<": "(",
    ">>": ",)",
    "|->": "=",
    "{": "_S([",
    "}": "])",
    "[": "_R(",
    "]": ")",
    "(": "_F([(",
    ":>": ",",
    "@@": "),(",
    ")": ")])",
    "TRUE": "True",
    "FALSE": "False",
}

_KW = {"in", "is", "if", "or", "and", "not", "from", "for", "as", "def", "del", "else", "try",
       "with", "pass", "None", "class", "while", "yield", "lambda", "global", "import", "return",
       "raise", "break", "except", "finally", "continue", "assert", "elif", "nonlocal", "async",
       "await", "True", "False"}

_INTERVAL = re.compile(r"(-?\d+)\.\.(-?\d+)")


def _to_py(text):
    out = []
    if ".." in text:
        text = _INTERVAL.sub(r"_I(\1,\2)", text)
    for m in _TOK.finditer(text):
        t = m.group(0)
        r = _MAP.get(t)
        if r is not None:
            out.append(r)
        elif t[0] == '"':
            out.append(t)
        elif t in _KW:
            out.append(t + "_")
        else:
            out.append(t)
    return "".join(out)


_GLOBALS = {"__builtins__": {}, "_S": _S, "_F": _F, "_R": _R, "_I": _I, "True": True, "False": False}


def parse(text):
    src = _to_py(text.strip())
    return eval("(" + src + ")", _GLOBALS, _NS())


_VAR = re.compile(r"(?:^|\n)\s*/\\ ([A-Za-z_][A-Za-z0-9_]*) = ")


def parse_state(text):
    """'/\\ x = 1\\n/\\ y = <<>>' -> Rec(x=1, y=())"""
    ms = list(_VAR.finditer(text))
    if not ms:
        # single-variable specs print 'x = 1'
        m = re.match(r"\s*([A-Za-z_][A-Za-z0-9_]*) = ", text)
        if not m:
            raise ValueError("not a state: %r" % text[:80])
        return Rec({m.group(1): parse(text[m.end():])})
    st = Rec()
    for i, m in enumerate(ms):
        end = ms[i + 1].start() if i + 1 < len(ms) else len(text)
        st[m.group(1)] = parse(text[m.end():end])
    return st


def to_json(v):
    """Make a parsed value JSON-serialisable (for evidence samples / replay files)."""
    if isinstance(v, dict):
        return {str(k): to_json(x) for k, x in v.items()}
    if isinstance(v, (tuple, list)):
        return [to_json(x) for x in v]
    if isinstance(v, (set, frozenset)):
        return sorted((to_json(x) for x in v), key=repr)
    if isinstance(v, bytes):
        return v.decode("latin-1")
    return v


def to_tla(v):
    """Python value -> TLA+ expression text (for generated MC modules / trace constants)."""
    if isinstance(v, bool):
        return "TRUE" if v else "FALSE"
    if isinstance(v, int):
        return str(v)
    if isinstance(v, str):
        return '"' + v.replace("\\", "\\\\").replace('"', '\\"') + '"'
    if isinstance(v, (tuple, list)):
        return "<<" + ", ".join(to_tla(x) for x in v) + ">>"
    if isinstance(v, (set, frozenset)):
        return "{" + ", ".join(sorted(to_tla(x) for x in v)) + "}"
    if isinstance(v, dict):
        if not v:
            return "<<>>"
        if all(isinstance(k, str) and re.fullmatch(r"[A-Za-z_]\w*", k) for k in v):
            return "[" + ", ".join("%s |-> %s" % (k, to_tla(x)) for k, x in v.items()) + "]"
        return "(" + " @@ ".join("%s :> %s" % (to_tla(k), to_tla(x)) for k, x in v.items()) + ")"
    raise TypeError(type(v))


class Raw(str):
    """A TLA+ expression passed through verbatim by to_tla()."""


_orig_to_tla = to_tla


def to_tla(v):  # noqa: F811
    if isinstance(v, Raw):
        return str(v)
    return _orig_to_tla(v)
