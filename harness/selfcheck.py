"""setup_cmd: nothing to build (pure Python + TLA+); verify the tool chain and parse every module."""
import concurrent.futures
import glob
import os
import shutil
import sys

from . import tlc


def main():
    for tool in ("java",):
        if not shutil.which(tool):
            print("missing tool:", tool)
            return 2
    wd = tlc.workdir_for("selfcheck")
    # RangeSym.tla EXTENDS Apalache (not on SANY's path): it is parsed and type-checked by apalache-mc in the C03 check
    mods = sorted(m for m in glob.glob(os.path.join(wd, "*.tla")) if "EXTENDS Integers, Sequences, Apalache" not in open(m).read())
    bad = 0
    with concurrent.futures.ThreadPoolExecutor(8) as ex:
        for path, r in zip(mods, ex.map(_try, mods)):
            if r:
                bad += 1
                print("SANY FAIL", os.path.basename(path), r[-600:])
    print("selfcheck: %d modules parsed, %d failures" % (len(mods), bad))
    return 2 if bad else 0


def _try(path):
    try:
        tlc.sany(path)
        return None
    except Exception as e:  # noqa
        return str(e)


if __name__ == "__main__":
    sys.exit(main())
