"""Raw WSGI/ASGI emissions -> the event records HttpProtocol.tla's recognisers read."""
import re

HOP = {"connection", "keep-alive", "proxy-authenticate", "proxy-authorization", "te", "trailers", "transfer-encoding", "upgrade"}
_STATUS = re.compile(r"\d{3} \S[^\r\n]*")


def asgi_events(res, zerocopy_allowed=False):
    evs, why = [], []
    for m in res.events:
        t = m.get("type")
        if t == "http.response.start":
            ok = type(m.get("status")) is int
            hs = m.get("headers", [])
            try:
                for k, v in hs:
                    if not (isinstance(k, bytes) and isinstance(v, bytes) and k == k.lower()):
                        ok = False
                        why.append("header %r: names must be lower-case bytes, values bytes" % (k,))
                    elif any((c < 32 and c != 9) or c == 127 for c in k + v):
                        ok = False
                        why.append("control character in header %r" % (k,))
            except (TypeError, ValueError):
                ok = False
            if type(m.get("status")) is not int:
                why.append("status %r is not an int" % (m.get("status"),))
            evs.append({"k": "start", "ok": ok, "more": False, "empty": False})
        elif t == "http.response.body":
            b = m.get("body", b"")
            more = m.get("more_body", False)
            ok = isinstance(b, bytes) and isinstance(more, bool)
            if not ok:
                why.append("body %s / more_body %r" % (type(b).__name__, more))
            evs.append({"k": "body", "ok": ok, "more": bool(more), "empty": len(b) == 0 if hasattr(b, "__len__") else False})
        elif t == "http.response.zerocopysend" and zerocopy_allowed:
            more = m.get("more_body", False)
            ok = isinstance(m.get("file"), int) and isinstance(more, bool)
            evs.append({"k": "body", "ok": ok, "more": bool(more), "empty": False})
        else:
            why.append("unexpected message type %r" % t)
            evs.append({"k": "other", "ok": False, "more": False, "empty": False})
    return evs, why


def wsgi_events(res):
    """merge start_response calls and yielded items in the order they happened"""
    evs, why = [], []
    starts = sorted(res.start_calls, key=lambda s: s[2])
    si = 0
    for pos in range(len(res.items) + 1):
        while si < len(starts) and starts[si][2] == pos:
            status, headers, _ = starts[si]
            si += 1
            ok = isinstance(status, str) and _STATUS.fullmatch(status) is not None
            if not ok:
                why.append("status line %r" % (status,))
            for h in headers:
                good = isinstance(h, tuple) and len(h) == 2 and type(h[0]) is str and type(h[1]) is str
                if good:
                    try:
                        (h[0] + h[1]).encode("latin-1")
                    except UnicodeEncodeError:
                        good = False
                        why.append("header %r is not Latin-1" % (h,))
                    if any((ord(c) < 32 and c != "\t") or ord(c) == 127 for c in h[0] + h[1]):
                        good = False
                        why.append("control character in header %r" % (h,))
                    if h[0].lower() in HOP:
                        good = False
                        why.append("hop-by-hop header %r" % (h[0],))
                else:
                    why.append("header pair %r is not a pair of native strings" % (h,))
                ok = ok and good
            evs.append({"k": "start", "ok": ok, "more": False, "empty": False})
        if pos < len(res.items):
            it = res.items[pos]
            ok = isinstance(it, bytes)
            if not ok:
                why.append("yielded %s, not bytes" % type(it).__name__)
            evs.append({"k": "item", "ok": ok, "more": False, "empty": ok and len(it) == 0})
    return evs, why


def run_recogniser(iface, evs):
    """python twin of AsgiStep/WsgiStep (used only to point at the offending event in reports)"""
    q = "init"
    for i, e in enumerate(evs):
        if iface == "asgi":
            if q == "init":
                q = "started" if e["k"] == "start" and e["ok"] else "bad"
            elif q in ("started", "streaming"):
                q = ("streaming" if e["more"] else "complete") if e["k"] == "body" and e["ok"] else "bad"
            else:
                q = "bad"
        else:
            if q == "init":
                if e["k"] == "start":
                    q = "started" if e["ok"] else "bad"
                elif not (e["k"] == "item" and e["ok"] and e["empty"]):
                    q = "bad"
            elif q == "started":
                q = "started" if e["k"] == "item" and e["ok"] else "bad"
            else:
                q = "bad"
        if q == "bad":
            return q, i
    return q, len(evs)
