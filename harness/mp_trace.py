"""Recording of MultipartDecoder sessions for TraceMultipart.tla.

A session is everything one decoder instance was asked to do: receive_data / next_event, logged at
their return (exception path included), with the cheap scalar state the trace spec binds (state
name, buffer length, data length, more flag).  Bytes are abstracted to the symbols of Multipart.tla.
"""
import random
import re

BLANKS = b" \t\x0b\x0c"
OPENFIX = True     # which rule of Multipart.tla the code implements for 'delimiter text present, no delimiter line'
PREFIX = True      # ... and for the first delimiter (see Multipart.tla PreFix)


def sym(b):
    if b == 13:
        return "r"
    if b == 10:
        return "n"
    if b == 45:
        return "d"
    if b in BLANKS:
        return "s"
    return "x%02x" % b


def abstract(data, header_spans=()):
    """bytes -> symbols; header_spans: (start, end, kind) regions whose bytes (line breaks apart) become h / g"""
    out = [sym(b) for b in data]
    for a, e, kind in header_spans:
        for i in range(a, e):
            if out[i] not in ("r", "n"):
                out[i] = "g" if kind == "file" else "h"
    return out


def state_name(dec):
    from baize.multipart import State
    for n in ("PREAMBLE", "PART", "DATA", "EPILOGUE", "COMPLETE"):
        if dec.state is getattr(State, n):
            return n
    return "?"


class Session:
    def __init__(self, boundary):
        self.boundary = bytes(boundary)
        self.fed = bytearray()
        self.events = []
        self.spans = []          # header regions discovered from Field / File events (sessions without a known form)
        self.eof = False
        self.items = []          # parts as the events delivered them: [kind, bytearray, finished]
        self.names = []          # (kind, name, filename, content type) as the Field / File events carried them
        self.held = 0            # largest buffer left after NEED_DATA while part data is being read

    def consumed(self, dec):
        return len(self.fed) - len(dec.buffer)

    def on_feed(self, dec, data):
        if data is None:
            self.eof = True
            self.events.append({"op": "eof"})
        else:
            self.fed.extend(data)
            self.events.append({"op": "feed", "k": len(data)})

    def on_event(self, dec, before, ev, exc):
        import baize.multipart as MP
        rec = {"op": "ev", "n": 0, "more": False, "st": state_name(dec), "buflen": len(dec.buffer)}
        if exc is not None:
            rec["ev"] = "Malformed" if type(exc).__name__ == "MalformedMultipart" else "Exc:" + type(exc).__name__
        elif isinstance(ev, MP.NeedData):
            rec["ev"] = "NeedData"
            if rec["st"] == "DATA":
                self.held = max(self.held, len(dec.buffer))
        elif isinstance(ev, MP.Preamble):
            rec["ev"], rec["n"] = "Preamble", len(ev.data)
        elif isinstance(ev, MP.File):
            rec["ev"] = "File"
            self.items.append(["file", bytearray(), False])
            self.names.append(("file", ev.name, ev.filename, ev.headers.get("content-type")))
            self.spans.append((before, self.consumed(dec), "file"))
        elif isinstance(ev, MP.Field):
            rec["ev"] = "Field"
            self.items.append(["field", bytearray(), False])
            self.names.append(("field", ev.name, None, None))
            self.spans.append((before, self.consumed(dec), "field"))
        elif isinstance(ev, MP.Data):
            rec["ev"], rec["n"], rec["more"] = "Data", len(ev.data), bool(ev.more_data)
            if self.items and not self.items[-1][2]:
                self.items[-1][1].extend(ev.data)
                self.items[-1][2] = not ev.more_data
            else:
                self.items.append(["orphan", bytearray(ev.data), not ev.more_data])
        elif isinstance(ev, MP.Epilogue):
            rec["ev"], rec["n"] = "Epilogue", len(ev.data)
        else:
            rec["ev"] = "Other:" + type(ev).__name__
        self.events.append(rec)

    def trace(self, form=None, header_spans=None, drains=False, whole=True, max_chunk=0):
        """the JSON record TraceMultipart.tla reads; form = [(kind, content bytes)] when the driver knows it"""
        spans = header_spans if header_spans is not None else self.spans
        spans = [(a, min(e, len(self.fed)), k) for a, e, k in spans if a < len(self.fed)]
        t = {"body": abstract(bytes(self.fed), spans), "hasForm": form is not None, "drains": bool(drains), "whole": bool(whole), "maxChunk": max_chunk,
             "form": [{"kind": k, "content": abstract(c)} for k, c in (form or [])], "events": list(self.events)}
        return t

    def bnd(self):
        return tuple(sym(b) for b in self.boundary)


def install(sessions):
    """wrap baize.multipart.MultipartDecoder from the outside; every new decoder gets a Session appended to `sessions`.
    returns an undo function"""
    import baize.multipart as MP
    cls = MP.MultipartDecoder
    o_init, o_recv, o_next = cls.__init__, cls.receive_data, cls.next_event

    def __init__(self, boundary, charset, *a, **k):
        o_init(self, boundary, charset, *a, **k)
        s = Session(boundary)
        sessions.append(s)
        self.__dict__["_verif_session"] = s

    def receive_data(self, data):
        r = o_recv(self, data)
        s = self.__dict__.get("_verif_session")
        if s is not None:
            s.on_feed(self, data)
        return r

    def next_event(self):
        s = self.__dict__.get("_verif_session")
        before = s.consumed(self) if s is not None else 0
        try:
            ev = o_next(self)
        except BaseException as e:
            if s is not None:
                s.on_event(self, before, None, e)
            raise
        if s is not None:
            s.on_event(self, before, ev, None)
        return ev

    cls.__init__, cls.receive_data, cls.next_event = __init__, receive_data, next_event

    def undo():
        cls.__init__, cls.receive_data, cls.next_event = o_init, o_recv, o_next
    return undo


# ------------------------------------------------------------------ generated forms with a known ground truth
def _delim_re(boundary):
    return re.compile(rb"(?:\r\n|\n|\r)--" + re.escape(boundary) + rb"(?:--|[ \t\x0b\x0c]*(?:\r\n|\n|\r))")


def gen_content(rnd, boundary, max_len, delim_text=False):
    """part content without a delimiter line; with delim_text=False also free of the text "--boundary" (the
    quantifier of C01/C15), with delim_text=True that text may occur in the middle of a line"""
    frags = [b"\r", b"\n", b"\r\n", b"-", b"--", b"--" + boundary, b"\r\n--", b"\r\n--" + boundary[:-1], b"\n-", b"\r\n--" + boundary + b"x",
             boundary, b" ", b"\t", b"a", b"\xff", b"\x00", b"\xc3\xa9", b"xyz" * 7, bytes(range(256)), b"\r\r", b"\n\n", b"--\r\n"]
    rx = _delim_re(boundary)
    for _ in range(50):
        n = rnd.choice((0, 1, 2, 5, 20, 60, 200))
        c = b"".join(rnd.choice(frags) if rnd.random() < 0.7 else bytes([rnd.randrange(256)]) for _ in range(n))[:max_len]
        probe = c + b"\r\n--" + boundary + b"\r\n"
        m = rx.search(probe)
        if m is not None and m.start() == len(c) and (delim_text or (b"--" + boundary) not in c):
            return c
    return b"plain"


FIELD_NAMES = ["f", "a b", "x;y", "k=v", "f\u00e9", "", "n,1", " lead", "UP", "a:b", "\u4e2d"]
FILE_NAMES = ["a.bin", "my file.txt", "x;y.txt", "\u00fc.png", "a=b", "", "..", "c:d", "noext", "semi; colon=1.txt"]


def gen_form(rnd, boundary, max_parts=6, max_len=700, delim_text=False, extras=False):
    """returns (form [(kind, content)], body bytes, header spans, names [(kind, name, filename, ctype)], preamble length)
    extras: optional preamble and epilogue, varied names / filenames (no quote, backslash or line break) and extra part headers"""
    form, body, spans, names = [], bytearray(), [], []
    pre = b""
    if extras and rnd.random() < 0.4:
        pre = rnd.choice([b"This is the preamble.", b"x", b"line one\r\nline two", b"- - -", b"\r\n", b"parts are separated by --" + boundary,
                          b"the last line is --" + boundary + b"--", b"--" + boundary + b"x", b"a\r\nb --" + boundary + b" \t"])
        body += pre + b"\r\n"
    for i in range(rnd.randint(0, max_parts)):
        kind = "file" if rnd.random() < 0.4 else "field"
        content = gen_content(rnd, boundary, max_len, delim_text)
        body += b"--" + boundary + b"\r\n"
        hs = len(body)
        if kind == "file":
            name, fn = (rnd.choice(FIELD_NAMES), rnd.choice(FILE_NAMES)) if extras else ("u%d" % i, "f-%d.bin" % i)
            body += ('Content-Disposition: form-data; name="%s"; filename="%s"' % (name, fn)).encode("utf-8") + b"\r\nContent-Type: application/x-t"
            names.append(("file", name, fn, "application/x-t"))
        else:
            name = rnd.choice(FIELD_NAMES) if extras else "f-%d" % i
            if extras and rnd.random() < 0.3:
                body += b"X-First: 1\r\n"
            body += ('Content-Disposition: form-data; name="%s"' % name).encode("utf-8")
            if rnd.random() < 0.3:
                body += b"\r\nX-Extra: a - b"
            names.append(("field", name, None, None))
        spans.append((hs, len(body), kind))
        body += b"\r\n\r\n" + content + b"\r\n"
        form.append((kind, content))
    body += b"--" + boundary + b"--"
    if extras and rnd.random() < 0.25:
        return form, bytes(body) + rnd.choice([b"", b" ", b" \t"]), spans, names, len(pre)      # nothing after the close-delimiter (but padding)
    body += b"\r\n"
    if extras and rnd.random() < 0.4:
        body += rnd.choice([b"epilogue", b"\r\n--" + boundary + b"\r\nnot a part", b"\x00\xff", b"--" + boundary + b"--\r\n"])
    return form, bytes(body), spans, names, len(pre)


def drive(boundary, body, rnd, mode, eof=None):
    """one recorded session on a fresh real decoder; mode: 'drain' (helpers' usage), 'bulk' (feed all, then drain),
    'lazy' (one next_event per feed, drain at the end); with probability 1/2 the end of input is signalled"""
    import baize.multipart as MP
    sessions = []
    undo = install(sessions)
    try:
        dec = MP.MultipartDecoder(boundary, "utf8")
        maxc = rnd.choice((1, 3, 7, 16, 64, 300))
        pos = 0
        chunks = []
        if mode == "bulk":
            chunks = [body]
        else:
            while pos < len(body):
                k = rnd.randint(0 if rnd.random() < 0.05 else 1, maxc)
                chunks.append(body[pos:pos + k])
                pos += k

        def drain(limit=None):
            n = 0
            while limit is None or n < limit:
                n += 1
                try:
                    ev = dec.next_event()
                except Exception as e:  # noqa
                    if type(e).__name__ != "MalformedMultipart":
                        raise
                    return
                if isinstance(ev, (MP.NeedData, MP.Epilogue)):
                    return
        for c in chunks:
            dec.receive_data(c)
            drain(1 if mode == "lazy" else None)
        if mode == "lazy":
            drain()
        if (rnd.random() < 0.5) if eof is None else eof:
            dec.receive_data(None)
            drain()
            if rnd.random() < 0.3:
                drain(1)
    finally:
        undo()
    return sessions[0], max([len(c) for c in chunks] + [1])


BOUNDARIES = [b"bNd-7", b"----WebKitFormBoundary7MA4YWxkTrZu0gW", b"x"]


def _until_epilogue(events):
    out = []
    for e in events:
        if e.get("op") == "ev":
            out.append(e.get("ev"))
            if e.get("ev") == "Epilogue":
                break
    return out


def long_sessions(ctx, wd, n, rnd, pid, hold_only=False):
    """n recorded sessions per boundary on real decoders, far beyond the exhaustive bounds; property clauses in Python,
    every step validated by TLC against TraceMultipart.tla with the base module's invariants on the trace states.
    pid C01: exactness (all modes, truncated bodies, end-of-input signalling); pid C15: the hold-back bound (drain mode, long parts)."""
    from . import tracecheck
    total_ev = 0
    for bi, B in enumerate(BOUNDARIES):
        recs = []
        for i in range(n):
            if hold_only:
                form, body, spans, names, _ = gen_form(rnd, B, max_parts=2, max_len=rnd.choice((3000, 12000)), delim_text=(i % 2 == 1))
                mode, whole = "drain", True
            else:
                form, body, spans, names, _ = gen_form(rnd, B, extras=(i % 3 != 0))
                whole = rnd.random() < 0.8
                if not whole:
                    body = body[:rnd.randrange(len(body))]
                mode = rnd.choice(["drain", "drain", "bulk", "lazy"])
            s, mc = drive(B, body, rnd, mode, eof=False if hold_only else None)
            recs.append((s, form, spans, mode, whole, mc, body))
            ctx.count()
            case = {"boundary": B.decode("latin-1"), "body_len": len(body), "parts": len(form), "mode": mode, "max_chunk": mc, "whole_body": whole,
                    "body_head": body[:120].decode("latin-1")}
            got = [(k, bytes(c)) for k, c, fin in s.items if fin]
            if any(e.get("ev", "").startswith(("Exc:", "Other:")) for e in s.events):
                ctx.violation(case, "decoder events", [e["ev"] for e in s.events if e["op"] == "ev"][-3:], "decoder raised an unexpected exception on a well-formed body")
            elif pid == "C01" and whole and "Malformed" in _until_epilogue(s.events):
                # (asking again after the Epilogue event was returned raises too: that is a call beyond the end, not a verdict on the body)
                ctx.violation(case, "the encoded parts, then the end", [e["ev"] for e in s.events if e["op"] == "ev"][-3:],
                              "decoder reports a complete well-formed body (%d parts) as malformed when the end of the input is signalled" % len(form))
            elif pid == "C01" and whole and got != form:
                ctx.violation(case, [(k, c[:40].decode("latin-1")) for k, c in form], [(k, c[:40].decode("latin-1")) for k, c in got],
                              "decoder session does not return exactly the encoded parts (long body)")
            elif pid == "C01" and whole and s.names != names:
                ctx.violation(case, names, s.names, "field names / file names / part content types are not the encoded ones")
            elif pid == "C01" and not whole and got != form[:len(got)]:
                ctx.violation(case, "a prefix of the encoded parts", [(k, c[:40].decode("latin-1")) for k, c in got],
                              "a truncated body yields parts that were not encoded")
            if pid == "C15" and mode == "drain" and s.held > mc + len(B) + 2 + 4:
                ctx.violation(case, "at most %d bytes held back" % (mc + len(B) + 6), s.held,
                              "decoder holds back %d bytes of part data (chunk %d + delimiter %d + 4 allowed)" % (s.held, mc, len(B) + 2))
            if mode != "bulk" and any(len(c) > 200 for _, c in form):
                ctx.nontriv(("long", bi, i))
        traces = [s.trace(form=form, header_spans=spans, drains=(mode == "drain"), whole=whole, max_chunk=mc)
                  for s, form, spans, mode, whole, mc, body in recs]
        total_ev += sum(len(t["events"]) for t in traces)
        inv = ["THold"] if hold_only else ["TPrefixOK", "TExact", "THold"]
        acc, rej = tracecheck.validate(wd, "TraceMultipart", traces, invariants=inv,
                                       constants=dict(Bnd=Session(B).bnd(), Forms=frozenset(), Preambles=frozenset(), Epilogues=frozenset(), MaxChunk=0, Limits=frozenset(), HoldFix=True, OpenFix=OPENFIX, PreFix=PREFIX))
        ctx.traces_validated += acc
        for tid, name, st in tracecheck.validate.last_invariant_failures:
            s, form, spans, mode, whole, mc, body = recs[tid]
            ctx.violation({"boundary": B.decode("latin-1"), "body_len": len(body), "mode": mode, "max_chunk": mc, "body_head": body[:120].decode("latin-1")},
                          "invariant " + name, {k: st[k] for k in ("st", "pos", "maxheld", "l") if isinstance(st, dict) and k in st},
                          "recorded decoder session reaches a state violating %s of Multipart.tla" % name)
        for tid, prefix in rej:
            s, form, spans, mode, whole, mc, body = recs[tid]
            ctx.drift_at({"boundary": B.decode("latin-1"), "body_len": len(body), "mode": mode, "max_chunk": mc, "body_head": body[:120].decode("latin-1")},
                         "a behaviour of Multipart.tla", traces[tid]["events"][prefix] if prefix < len(traces[tid]["events"]) else None,
                         "recorded decoder session is not a behaviour of Multipart.tla at event %d" % (prefix + 1))
    return total_ev


def helper_level(ctx, n, rnd):
    """generated forms with preamble / epilogue / varied names through the four helper-level APIs under random chunkings"""
    from .adapters import mp_common as M
    from baize.multipart import safe_decode
    for bi, B in enumerate(BOUNDARIES[:2]):
        for i in range(n):
            form, body, spans, names, _ = gen_form(rnd, B, max_parts=4, max_len=200, extras=True)
            want = []
            for (kind, content), (_, name, fn, ct) in zip(form, names):
                want.append((name, safe_decode(content, "utf8")) if kind == "field" else (name, fn, ct, content))
            maxc = rnd.choice((1, 5, 17, 64, 1000))
            chunks, pos = [], 0
            while pos < len(body):
                k = rnd.randint(0 if rnd.random() < 0.05 else 1, maxc)
                chunks.append(body[pos:pos + k])
                pos += k
            for which in (("sync", "async", "wsgi", "asgi") if i % 4 == 0 else (("sync", "asgi") if i % 2 else ("async", "wsgi"))):
                out, items = M.run_helper(which, chunks, B)
                ctx.count()
                ctx.traces_validated += 1
                if out != "ok" or items != want:
                    ctx.violation({"body": body[:300].decode("latin-1"), "body_len": len(body), "max_chunk": maxc, "api": which, "boundary": B.decode()},
                                  [w[:3] for w in want], {"outcome": out, "items": [it[:3] for it in (items or [])]},
                                  "%s does not return exactly the encoded parts (names, file names, preamble / epilogue present)" % which)
            if any(len(c) > 0 for _, c in form):
                ctx.nontriv(("helper-gen", bi, i))


def big_upload(ctx, rnd):
    """a file part larger than the spooling threshold of UploadFile (1 MiB: memory -> disk roll-over) and a small one after it,
    through the request form accessors in 64 KiB pieces"""
    from .adapters import mp_common as M
    B = b"bigB"
    big = bytes(rnd.getrandbits(8) for _ in range(4096)) * 300 + b"\r\n--big" + b"\r\n"    # ~1.2 MiB, ends like a partial delimiter
    body = (b'--bigB\r\nContent-Disposition: form-data; name="up"; filename="big.bin"\r\nContent-Type: application/x-t\r\n\r\n' + big +
            b'\r\n--bigB\r\nContent-Disposition: form-data; name="after"\r\n\r\nv\r\n--bigB--\r\n')
    chunks = [body[i:i + 65536] for i in range(0, len(body), 65536)]
    want = [("up", "big.bin", "application/x-t", big), ("after", "v")]
    for which in ("wsgi", "asgi"):
        out, items = M.run_helper(which, chunks, B)
        ctx.count()
        if out != "ok" or items != want:
            ctx.violation({"api": which, "file_bytes": len(big), "chunk": 65536}, "the uploaded bytes, then the field after it",
                          {"outcome": out, "items": [(it[0], len(it[-1])) for it in (items or [])]},
                          "%s form accessor does not return a %d-byte upload (beyond the in-memory spool limit) exactly" % (which, len(big)))
        ctx.nontriv(("big-upload", which))


def pytest_sessions(ctx, wd, repo, verif):
    """the decoder sessions of the repository's own tests, validated step by step (no known form: mechanism only)"""
    import json
    import os
    import subprocess
    import sys
    from . import tracecheck, tlc
    out = os.path.join(tlc.scratch(), "mp_pytest_traces.json")
    env = dict(os.environ, PYTHONPATH=repo + os.pathsep + verif, MP_TRACE_OUT=out, PYTHONDONTWRITEBYTECODE="1")
    p = subprocess.run([sys.executable, "-m", "pytest", "-q", "-p", "no:cacheprovider", "-p", "harness.pytest_mp_plugin",
                        os.path.join(repo, "tests", "test_multipart.py"), os.path.join(repo, "tests", "test_datastructures.py")],
                       cwd=repo, env=env, stdout=subprocess.PIPE, stderr=subprocess.STDOUT, text=True, timeout=600)
    if not os.path.exists(out):
        ctx.notes.append("pytest multipart trace source unavailable: " + p.stdout[-300:])
        return 0
    with open(out) as f:
        recs = json.load(f)
    os.unlink(out)
    groups = {}
    for r in recs:
        groups.setdefault(tuple(r["boundary"]), []).append(r["trace"])
    n = 0
    for bnd, traces in groups.items():
        B = bytes(bnd)
        if any(b in (13, 10) or b in BLANKS for b in B):
            continue
        acc, rej = tracecheck.validate(wd, "TraceMultipart", traces, invariants=[],
                                       constants=dict(Bnd=Session(B).bnd(), Forms=frozenset(), Preambles=frozenset(), Epilogues=frozenset(), MaxChunk=0, Limits=frozenset(), HoldFix=True, OpenFix=OPENFIX, PreFix=PREFIX))
        ctx.traces_validated += acc
        n += len(traces)
        ctx.count(len(traces))
        for tid, prefix in rej:
            ev = traces[tid]["events"]
            ctx.drift_at({"source": "repository tests", "boundary": B.decode("latin-1"), "events": [e.get("ev", e["op"]) for e in ev[:prefix + 1]][-8:]},
                         "a behaviour of Multipart.tla", ev[prefix] if prefix < len(ev) else None,
                         "decoder session of the repository's tests is not a behaviour of Multipart.tla at event %d" % (prefix + 1))
    return n
