"""Response constructions and app compositions expressible in both baize.wsgi and baize.asgi.

A recipe is (name, build) where build(iface, env) returns a fresh application for that interface;
`env` gives access to scratch files.  Used by C05 (protocol), C20 (middleware), C04 (equivalence).
"""
import os


def pkg(iface):
    if iface == "wsgi":
        import baize.wsgi as m
    else:
        import baize.asgi as m
    return m


def stream(iface, chunks, raise_at=None, closed=None):
    """an iterable (sync generator / async generator) of the given chunks"""
    if iface == "wsgi":
        def gen():
            try:
                for i, c in enumerate(chunks):
                    if raise_at is not None and i == raise_at:
                        raise RuntimeError("producer failed")
                    yield c
                if raise_at is not None and raise_at >= len(chunks):
                    raise RuntimeError("producer failed")
            finally:
                if closed is not None:
                    closed.append(1)
        return gen()

    async def agen():
        try:
            for i, c in enumerate(chunks):
                if raise_at is not None and i == raise_at:
                    raise RuntimeError("producer failed")
                yield c
            if raise_at is not None and raise_at >= len(chunks):
                raise RuntimeError("producer failed")
        finally:
            if closed is not None:
                closed.append(1)
    return agen()


class Env:
    """scratch files for file recipes"""

    def __init__(self, base):
        self.dir = os.path.join(base, "recipes")
        os.makedirs(self.dir, exist_ok=True)
        self.small = self._mk("small.txt", b"0123456789" * 3)
        self.binf = self._mk("data.bin", bytes(range(256)) * 2)
        self.nonascii = self._mk("résumé.txt", b"cv")
        self.empty = self._mk("empty.txt", b"")
        self.ctlname = self._mk("esc\x1bna\tme\x7f.bin", b"ctl")          # legal file names that are not legal header text
        self.quotename = self._mk('qu"o\\te;x=1.bin', b"quo")
        self.tree = os.path.join(self.dir, "site")
        os.makedirs(os.path.join(self.tree, "sub"), exist_ok=True)
        for rel, data in (("index.html", b"<h1>root</h1>"), ("a.txt", b"file a"), ("page.html", b"<p>page</p>"),
                          ("sub/index.html", b"<h1>sub</h1>"), ("sub/b.txt", b"file b")):
            with open(os.path.join(self.tree, rel), "wb") as f:
                f.write(data)
            os.utime(os.path.join(self.tree, rel), (1600000000, 1600000000))

    def _mk(self, name, data):
        p = os.path.join(self.dir, name)
        with open(p, "wb") as f:
            f.write(data)
        os.utime(p, (1600000000, 1600000000))
        return p


def _later(resp, k, v):
    resp.headers[k] = v
    return resp


def response_recipes():
    """(name, build(iface, env) -> app, n_intermediate_pieces or None)"""
    R = []

    def add(name, fn, pieces=None):
        R.append((name, fn, pieces))

    for st in (200, 204, 304, 404, 799):
        add("Response(%d)" % st, lambda i, e, st=st: pkg(i).Response(st), 0)
    add("Response(headers mixed case, latin-1)", lambda i, e: pkg(i).Response(200, {"X-Mixed-Case": "v", "x-b": "café"}), 0)
    add("PlainText(str)", lambda i, e: pkg(i).PlainTextResponse("text é中"), 0)
    add("PlainText(bytes)", lambda i, e: pkg(i).PlainTextResponse(b"\x00\xffbytes"), 0)
    add("PlainText(empty,204)", lambda i, e: pkg(i).PlainTextResponse("", 204), 0)
    add("PlainText(latin-1 charset)", lambda i, e: pkg(i).PlainTextResponse("café", charset="latin-1"), 0)
    add("HTML", lambda i, e: pkg(i).HTMLResponse("<p>é</p>", 201, {"X-A": "1"}), 0)
    add("PlainText(media_type text/csv)", lambda i, e: pkg(i).PlainTextResponse("a,b", media_type="text/csv"), 0)
    add("HTML(media_type xhtml)", lambda i, e: pkg(i).HTMLResponse("<p/>", 200, None, "application/xhtml+xml"), 0)
    add("JSON(dumps options)", lambda i, e: pkg(i).JSONResponse({"b": 1, "a": [1, 2]}, 422, None, sort_keys=True, indent=1), 0)
    add("HTML(charset latin-1, own Content-Type header)", lambda i, e: pkg(i).HTMLResponse("<p>x</p>", 200, {"Content-Type": "text/html; charset=iso-8859-1"}, charset="latin-1"), 0)
    add("JSON", lambda i, e: pkg(i).JSONResponse({"a": "é", "n": [1, 2, None]}), 0)
    add("JSON(799)", lambda i, e: pkg(i).JSONResponse([1], 799), 0)
    add("Redirect", lambda i, e: pkg(i).RedirectResponse("/café?x=1&y=中#f"), 0)
    add("Redirect(301)", lambda i, e: pkg(i).RedirectResponse("https://example.com/a b", 301), 0)

    def cookies(i, e, n):
        r = pkg(i).PlainTextResponse("c")
        if n >= 1:
            r.set_cookie("a", "1", max_age=10)
        if n >= 2:
            r.set_cookie("b", 'x; y="z"', path="/p", secure=True, httponly=True, samesite="strict")
        if n >= 3:
            r.delete_cookie("gone")
        return r
    for n in (1, 2, 3):
        add("PlainText+%dcookies" % n, lambda i, e, n=n: cookies(i, e, n), 0)

    add("PlainText(headers argument with CRLF)", lambda i, e: pkg(i).PlainTextResponse("h", 200, {"X-Trace": "abc\r\nSet-Cookie: admin=1"}), 0)
    add("PlainText(headers argument with NUL in a name)", lambda i, e: pkg(i).PlainTextResponse("h", 200, {"X-\x00Trace": "1"}), 0)
    add("Redirect(headers argument with LF)", lambda i, e: pkg(i).RedirectResponse("/x", 302, {"X-A": "1\nX-B: 2"}), 0)

    # ... and every other control character (VT, ESC, US, DEL ...) in values, names and cookie attributes; TAB is legal in a value
    for ci, c in enumerate("\x0b\x1b\x1f\x7f\x01"):
        add("PlainText(headers argument with control character %d in a value)" % ci, lambda i, e, c=c: pkg(i).PlainTextResponse("h", 200, {"X-Trace": "a" + c + "b"}), 0)
        add("PlainText(headers argument with control character %d in a name)" % ci, lambda i, e, c=c: pkg(i).PlainTextResponse("h", 200, {"X-" + c + "T": "1"}), 0)
        add("PlainText(control character %d stored later)" % ci, lambda i, e, c=c: _later(pkg(i).PlainTextResponse("h"), "X-Late", "a" + c + "b"), 0)
    add("PlainText(headers argument with TAB in a value)", lambda i, e: pkg(i).PlainTextResponse("h", 200, {"X-Trace": "a\tb"}), 0)
    # hop-by-hop headers given by the caller (a WSGI application must not send them; PEP 3333)
    for name in ("Connection", "Keep-Alive", "Transfer-Encoding", "TE", "Upgrade", "Trailers", "Proxy-Authenticate"):
        add("PlainText(caller gives the hop-by-hop header %s)" % name, lambda i, e, name=name: pkg(i).PlainTextResponse("h", 200, {name: "x", "X-Ok": "1"}), 0)
    add("File(caller gives Connection and Keep-Alive)", lambda i, e: pkg(i).FileResponse(e.small, {"Connection": "close", "Keep-Alive": "timeout=5", "X-Ok": "1"}), None)
    add("Stream(caller gives Connection)", lambda i, e: pkg(i).StreamResponse(stream(i, [b"a", b"b"]), 200, {"Connection": "keep-alive"}), 2)

    def attr_cookie(i, e, **kw):
        r = pkg(i).PlainTextResponse("c")
        r.set_cookie("k", "v", **kw)
        return r
    # cookie attributes are text too: they must not open a second attribute or header, and Latin-1 text must work on both interfaces
    for ci, kw in enumerate([dict(path="/a\r\nSet-Cookie: x=1"), dict(domain="ex.com\nX: 1"), dict(path="/p; domain=evil.example"), dict(domain="a.example; secure"),
                             dict(path="/caf\u00e9"), dict(domain="b\u00fccher.example"), dict(path="/a\x00b")]):
        add("PlainText+cookie attribute %d" % ci, lambda i, e, kw=kw: attr_cookie(i, e, **kw), 0)

    def hostile_cookie(i, e, name, value):
        r = pkg(i).PlainTextResponse("c")
        r.set_cookie(name, value, path="/p")
        return r
    # cookie names / values (Latin-1 text, as C16 scopes them) a view may copy from user input: whatever is emitted must stay one legal header line
    for ci, (name, value) in enumerate([("sid", "token\r\nSet-Cookie: admin=1"), ("sid", "abc\n"), ("sid", "a\x00b"), ("sid", "caf\u00e9 \u00ff"),
                                        ("s\nid", "v"), ("sid", "\r"), ("sid", "x\ry"), ("sid", 'q"\\;,= ')]):
        add("PlainText+hostile cookie %d" % ci, lambda i, e, name=name, value=value: hostile_cookie(i, e, name, value), 0)
    for k in (0, 1, 2, 3):
        add("Stream(%d chunks)" % k, lambda i, e, k=k: pkg(i).StreamResponse(stream(i, [b"c%d" % j for j in range(k)])), k)
    add("Stream(empty chunk inside)", lambda i, e: pkg(i).StreamResponse(stream(i, [b"a", b"", b"b"]), 200, {"X-S": "1"}, "text/plain"), 3)
    for k in (0, 1, 2):
        add("SSE(%d events)" % k, lambda i, e, k=k: pkg(i).SendEventResponse(
            stream(i, [{"data": "d%d\nx" % j, "event": "e", "id": str(j)} for j in range(k)]), ping_interval=30), k)
    add("File(ascii)", lambda i, e: pkg(i).FileResponse(e.small), None)
    add("File(binary, download)", lambda i, e: pkg(i).FileResponse(e.binf, download_name="d.bin", chunk_size=100), None)
    add("File(size multiple of chunk)", lambda i, e: pkg(i).FileResponse(e.small, chunk_size=10), None)
    add("File(size equals chunk)", lambda i, e: pkg(i).FileResponse(e.small, chunk_size=30), None)
    add("File(empty)", lambda i, e: pkg(i).FileResponse(e.empty), None)
    add("File(non-ascii name)", lambda i, e: pkg(i).FileResponse(e.nonascii), None)
    add("File(control characters in its name)", lambda i, e: pkg(i).FileResponse(e.ctlname), None)
    add("File(quote, backslash, semicolon in its name)", lambda i, e: pkg(i).FileResponse(e.quotename), None)
    add("File(control characters in download_name)", lambda i, e: pkg(i).FileResponse(e.small, download_name="a\x1fb\x08.txt"), None)
    add("File(non-ascii download_name)", lambda i, e: pkg(i).FileResponse(e.small, download_name="文件 é.txt"), None)
    add("File(latin-1 download_name)", lambda i, e: pkg(i).FileResponse(e.small, download_name="café.txt"), None)
    return R


REQUEST_VARIANTS = [
    ("GET", []),
    ("HEAD", []),
    ("GET", [("Range", "bytes=0-4")]),
    ("GET", [("Range", "bytes=0-1,5-6")]),
    ("GET", [("Range", "bytes=100-")]),
    ("GET", [("Range", "bytes=5-4")]),
    ("GET", [("Range", "lines=1-2")]),
    ("HEAD", [("Range", "bytes=0-1,5-6")]),
    ("GET", [("Range", "bytes=0-4"), ("If-Range", '"0123456789abcdef"')]),
    ("GET", [("Range", "bytes=5-4"), ("If-Range", "Wed, 21 Oct 2015 07:28:00 GMT")]),
    ("GET", [("Range", "bytes=0-1,5-6"), ("If-Range", "garbage")]),
    ("GET", [("If-Range", '"0123456789abcdef"')]),
]
