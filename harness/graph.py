"""State graph as dumped by `tlc -dump dot,actionlabels`.

Nodes carry the full state (all variables), edges the action name *with its actual
parameters* (e.g. `Send("text")`).  States are parsed lazily.
"""
import re
from collections import deque

from . import tlaval

_NODE = re.compile(r'^(-?\d+) \[label="((?:[^"\\]|\\.)*)"(.*)\]\s*;?\s*$')
_EDGE = re.compile(r'^(-?\d+) -> (-?\d+) \[label="((?:[^"\\]|\\.)*)"')
_UNESC = re.compile(r"\\(.)", re.S)


def _unescape(s):
    return _UNESC.sub(lambda m: "\n" if m.group(1) == "n" else m.group(1), s)


_ACT = re.compile(r"^([A-Za-z_][A-Za-z0-9_]*)(?:\((.*)\))?$", re.S)


def parse_action(label):
    """'Send("a", 3)' -> ('Send', ('a', 3));  'Rst' -> ('Rst', ())"""
    m = _ACT.match(label.strip())
    if not m:
        return label, ()
    name, args = m.group(1), m.group(2)
    if args is None or args.strip() == "":
        return name, ()
    v = tlaval.parse("<<" + args + ">>")
    return name, v


class Graph:
    def __init__(self):
        self.raw = {}       # id -> raw label text
        self._st = {}       # id -> parsed state
        self.init = []      # initial node ids
        self.out = {}       # id -> list[(label, dst)]
        self.n_edges = 0

    @classmethod
    def load(cls, path):
        g = cls()
        seen = set()
        with open(path, encoding="utf-8") as f:
            for line in f:
                if " -> " in line[:48]:
                    m = _EDGE.match(line)
                    if m:
                        a, b, lab = int(m.group(1)), int(m.group(2)), _unescape(m.group(3))
                        key = (a, b, lab)
                        if key in seen:
                            continue
                        seen.add(key)
                        g.out.setdefault(a, []).append((lab, b))
                        g.n_edges += 1
                        continue
                m = _NODE.match(line)
                if m:
                    nid = int(m.group(1))
                    if nid not in g.raw:
                        g.raw[nid] = m.group(2)
                        if "style = filled" in m.group(3):
                            g.init.append(nid)
        return g

    def state(self, nid):
        s = self._st.get(nid)
        if s is None:
            s = self._st[nid] = tlaval.parse_state(_unescape(self.raw[nid]))
        return s

    def __len__(self):
        return len(self.raw)

    def nodes(self):
        return self.raw.keys()

    def edges(self):
        for a, lst in self.out.items():
            for lab, b in lst:
                yield a, lab, b

    def terminal(self):
        """nodes without outgoing edges (other than self loops)"""
        for n in self.raw:
            if all(b == n for _, b in self.out.get(n, ())):
                yield n

    def bfs_tree(self):
        """parent[n] = (prev, label) along a shortest path from some initial state"""
        parent = {n: None for n in self.init}
        dq = deque(self.init)
        while dq:
            a = dq.popleft()
            for lab, b in self.out.get(a, ()):
                if b not in parent:
                    parent[b] = (a, lab)
                    dq.append(b)
        return parent

    def path_to(self, parent, n):
        """list of (label, dst) from the initial state to n; and the initial node"""
        p = []
        while parent[n] is not None:
            a, lab = parent[n]
            p.append((lab, n))
            n = a
        p.reverse()
        return n, p


def dfs_replay(g, make_real, step):
    """Execute every edge of the graph exactly once on a real object.

    make_real(init_node) -> real object for an initial state
    step(real, src, label, dst) -> new real object for dst (must not mutate `real`: copy first), or None to stop there
    """
    visited = set()
    n = 0
    for init in g.init:
        stack = [(init, make_real(init))]
        visited.add(init)
        while stack:
            node, real = stack.pop()
            for lab, dst in g.out.get(node, ()):
                if dst == node:
                    continue
                new = step(real, node, lab, dst)
                n += 1
                if new is not None and dst not in visited:
                    visited.add(dst)
                    stack.append((dst, new))
    return n
