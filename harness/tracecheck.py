"""Batched trace validation: thousands of recorded executions against Trace<Module>.tla in one JVM.

Each trace is a dict with an `events` list (plus per-trace header fields the trace spec reads).
The trace spec keeps, in TLC register 100+tid, the longest prefix of trace tid it can explain and
prints all of them from its POSTCONDITION; a trace is accepted iff that prefix is the whole trace.
"""
import json
import os
import re

from . import tlc, tlaval
from .common import MachineryError


def validate(workdir, module, traces, *, constants=None, invariants=(), properties=(), spec="TraceSpec",
             timeout=1200, chunk=4000, extra_cfg=(), extra_steps=0):
    """returns (accepted_count, [(trace_index, matched_prefix_len), ...rejected], invariant_failure_or_None)"""
    accepted = 0
    rejected = []
    inv_fail = []
    _budget[0] = 12
    for off in range(0, len(traces), chunk):
        part = traces[off:off + chunk]
        a, r, f = _validate_chunk(workdir, module, part, constants, invariants, properties, spec, timeout, extra_cfg, extra_steps)
        accepted += a
        rejected += [(off + i, p) for i, p in r]
        inv_fail += [(off + i, n, s) for i, n, s in f]
    validate.last_invariant_failures = inv_fail
    return accepted, rejected


validate.last_invariant_failures = []
_budget = [12]


def _validate_chunk(workdir, module, traces, constants, invariants, properties, spec, timeout, extra_cfg, extra_steps=0):
    if not traces:
        return 0, [], []
    path = os.path.join(workdir, module + "_traces.json")
    with open(path, "w") as f:
        json.dump(traces, f)
    ppath = os.path.join(workdir, module + "_prefixes.json")
    if os.path.exists(ppath):
        os.unlink(ppath)
    cfg = ["SPECIFICATION " + spec, "CONSTRAINT Progress", "POSTCONDITION Post", "CHECK_DEADLOCK FALSE"]
    cfg += ["INVARIANT " + i for i in invariants] + ["PROPERTY " + p for p in properties] + list(extra_cfg)
    name = "MC_" + module
    tlc.write_mc(workdir, name, module, constants=constants or {}, cfg_lines=cfg)
    res = tlc.run_tlc(workdir, name, workers=1, coverage=False, env={"TRACE_FILE": path, "PREFIX_FILE": ppath}, timeout=timeout,
                      deadlock=True)
    validate.last_result = res
    inv_fail = []
    if res.violated:
        # an invariant of the base module fails on a state of a recorded execution
        tid = None
        for _, st in res.trace:
            if isinstance(st, dict) and "tid" in st:
                tid = st["tid"]
        inv_fail.append(((tid or 1) - 1, res.violated, tlaval.to_json(res.trace[-1][1]) if res.trace else None))
        # validate the remaining traces without the failing one (a dozen failures are a verdict: the rest is then left unjudged)
        _budget[0] -= 1
        if _budget[0] <= 0:
            return 0, [], inv_fail
        rest = [t for i, t in enumerate(traces) if i != (tid or 1) - 1]
        a, r, f = _validate_chunk(workdir, module, rest, constants, invariants, properties, spec, timeout, extra_cfg, extra_steps)
        fix = lambda i: i if i < (tid or 1) - 1 else i + 1  # noqa
        return a, [(fix(i), p) for i, p in r], inv_fail + [(fix(i), n, s) for i, n, s in f]
    if not os.path.exists(ppath):
        raise MachineryError("trace validation of %s wrote no prefix file:\n%s" % (module, res.stdout[-1500:]))
    with open(ppath) as f:
        pref = json.load(f)
    os.unlink(ppath)
    if len(pref) != len(traces):
        raise MachineryError("PREFIXES has %d entries for %d traces" % (len(pref), len(traces)))
    acc, rej = 0, []
    for i, (p, t) in enumerate(zip(pref, traces)):
        if p >= len(t["events"]) + extra_steps:
            acc += 1
        else:
            rej.append((i, p))
    return acc, rej, inv_fail
