"""pytest plugin: record every MultipartDecoder session of the repository's own tests (no source change:
the class is wrapped from outside by harness.mp_trace.install).  Output: JSON list of
{boundary: [byte...], trace: <record for TraceMultipart.tla>} in $MP_TRACE_OUT."""
import json
import os

SESSIONS = []


def pytest_configure(config):
    from harness import mp_trace
    mp_trace.install(SESSIONS)


def pytest_sessionfinish(session, exitstatus):
    out = os.environ.get("MP_TRACE_OUT")
    if not out:
        return
    recs = []
    for s in SESSIONS:
        if not s.events:
            continue
        recs.append({"boundary": list(s.boundary), "trace": s.trace(form=None, drains=False, whole=False)})
    with open(out, "w") as f:
        json.dump(recs, f)
