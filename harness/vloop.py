"""Virtual-time asyncio event loop: when nothing is ready, time jumps to the next timer.

Executions become a deterministic function of the scenario (asyncio's ready queue is FIFO) and
take microseconds.  When the loop idles without any timer (a run_in_threadpool worker is busy) it
waits in short real-time slices instead of jumping, so virtual time never runs ahead of a thread.
"""
import asyncio
import selectors


class Deadlock(RuntimeError):
    pass


class VSelector(selectors.DefaultSelector):
    def __init__(self, loop_ref):
        super().__init__()
        self.loop_ref = loop_ref
        self.idle = 0

    def select(self, timeout=None):
        ev = super().select(0)
        if ev or timeout == 0:
            self.idle = 0
            return ev
        loop = self.loop_ref[0]
        if timeout is None:
            self.idle += 1
            if self.idle > 150:
                raise Deadlock("virtual loop idle forever: nothing scheduled, nothing ready")
            ev = super().select(0.02)
            if ev:
                self.idle = 0
            return ev
        self.idle = 0
        loop._vt += timeout
        return []


class VLoop(asyncio.SelectorEventLoop):
    def __init__(self):
        ref = [None]
        super().__init__(VSelector(ref))
        ref[0] = self
        self._vt = 0.0

    def time(self):
        return self._vt


def run(coro):
    loop = VLoop()
    asyncio.set_event_loop(loop)
    try:
        return loop.run_until_complete(coro)
    finally:
        try:
            pend = [t for t in asyncio.all_tasks(loop) if not t.done()]
            for t in pend:
                t.cancel()
            if pend:
                loop.run_until_complete(asyncio.gather(*pend, return_exceptions=True))
        finally:
            loop.close()
            asyncio.set_event_loop(None)
