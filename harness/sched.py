"""Cooperative thread scheduler for the WSGI event-stream relay (C06).

`baize.wsgi.responses` looks up `queue.Queue`, `self.thread_pool` and the user's iterable at call
time; the harness substitutes, in that module's namespace only, a queue whose operations park at
control points, a one-shot "pool" whose future parks in exception()/result(), and a producer
generator that parks before every yield.  Exactly one controlled thread moves at a time, chosen by
the behaviour being replayed; nothing depends on wall-clock time (a generous watchdog only turns an
unexpected real block into a verdict instead of a hang).
"""
import concurrent.futures as cf
import queue as _q
import threading
import types

WATCHDOG = 10.0


class Stuck(Exception):
    pass


class Sched:
    def __init__(self):
        self.cv = threading.Condition()
        self.status = {}      # name -> ("parked", label) | ("running",) | ("done",)
        self.grant = {}
        self.names = {}
        self.queues = []

    def register(self, name):
        with self.cv:
            self.names[threading.get_ident()] = name
            self.status[name] = ("running",)

    def me(self):
        return self.names.get(threading.get_ident())

    def point(self, label):
        name = self.me()
        if name is None:
            return None
        with self.cv:
            self.status[name] = ("parked", label)
            self.grant[name] = None
            self.cv.notify_all()
            while self.grant[name] is None:
                self.cv.wait()
            d = self.grant[name]
            self.grant[name] = None
            self.status[name] = ("running",)
            return d

    def finish(self):
        name = self.me()
        with self.cv:
            self.status[name] = ("done",)
            self.cv.notify_all()

    def wait_quiet(self, timeout=WATCHDOG):
        with self.cv:
            ok = self.cv.wait_for(lambda: all(s[0] != "running" for s in self.status.values()), timeout)
            return ok, dict(self.status)

    def step(self, name, decision="go", timeout=WATCHDOG):
        with self.cv:
            if self.status.get(name, ("?",))[0] != "parked":
                raise Stuck("thread %s is not parked: %s" % (name, self.status))
            self.grant[name] = decision
            self.status[name] = ("running",)
            self.cv.notify_all()
        return self.wait_quiet(timeout)


def make_queue_module(sched):
    class Queue(_q.Queue):
        def __init__(self, maxsize=0):
            super().__init__(maxsize)
            sched.queues.append(self)

        def put(self, item, block=True, timeout=None):
            sched.point(("put", item))
            while self.full():
                if not block:
                    raise _q.Full
                sched.point(("blocked-put", item))
            return super().put(item, block=False)

        def get(self, block=True, timeout=None):
            d = sched.point(("get", timeout))
            while self.empty():
                if not block or d == "timeout":
                    raise _q.Empty
                d = sched.point(("blocked-get", timeout))
            return super().get(block=False)

        def get_nowait(self):
            return super().get(block=False)

    m = types.ModuleType("queue")
    m.Queue = Queue
    m.Empty = _q.Empty
    m.Full = _q.Full
    return m


class CFuture(cf.Future):
    def __init__(self, sched):
        super().__init__()
        self.sched = sched

    def exception(self, timeout=None):
        while not super().done():
            self.sched.point("join")
        return super().exception(timeout)

    def result(self, timeout=None):
        while not super().done():
            self.sched.point("join")
        return super().result(timeout)


class Pool:
    """stands in for SendEventResponse.thread_pool: one worker thread per submit, parked before it starts"""

    def __init__(self, sched, name="relay"):
        self.sched = sched
        self.name = name
        self.threads = []
        self.future = None

    def submit(self, fn, *a, **k):
        fut = self.future = CFuture(self.sched)
        sched, name = self.sched, self.name

        def run():
            sched.register(name)
            sched.point("relay-start")
            if not fut.set_running_or_notify_cancel():
                sched.finish()
                return
            try:
                fut.set_result(fn(*a, **k))
            except BaseException as e:  # noqa
                fut.set_exception(e)
            finally:
                sched.finish()

        t = threading.Thread(target=run, daemon=True)
        self.threads.append(t)
        with sched.cv:
            sched.status[name] = ("running",)
        t.start()
        with sched.cv:
            sched.cv.wait_for(lambda: sched.status[name][0] != "running", WATCHDOG)
        return fut
