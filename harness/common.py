"""Check context: statistics, verdicts, evidence, known findings, exit codes."""
import json
import os
import sys
import time
import traceback

from . import tlaval
from .tlc import VERIF, MachineryError

REPO = os.environ.get("VERIF_REPO", "/repo")
GUARD = "BAIZE_VERIF"


def use_repo():
    """import baize from the working tree under test (fresh process => fresh import)"""
    os.environ.setdefault(GUARD, "1")
    sys.dont_write_bytecode = True
    if REPO not in sys.path:
        sys.path.insert(0, REPO)
    import baize  # noqa
    here = os.path.realpath(os.path.dirname(baize.__file__))
    want = os.path.realpath(os.path.join(REPO, "baize"))
    if here != want:
        raise MachineryError("baize imported from %s, expected %s" % (here, want))


def load_findings():
    p = os.path.join(VERIF, "known_findings.json")
    if not os.path.exists(p):
        return []
    with open(p) as f:
        return json.load(f).get("findings", [])


def _submatch(pat, val):
    """structural match: every key of pat must match in val; '*' matches anything"""
    if pat == "*":
        return True
    if isinstance(pat, dict):
        return isinstance(val, dict) and all(k in val and _submatch(v, val[k]) for k, v in pat.items())
    if isinstance(pat, list):
        return isinstance(val, list) and len(pat) == len(val) and all(_submatch(a, b) for a, b in zip(pat, val))
    return pat == val


class Ctx:
    def __init__(self, pid, tier, seed, level="model_checking"):
        self.pid, self.tier, self.seed, self.level = pid, tier, seed, level
        self.t0 = time.time()
        self.states = 0
        self.transitions = 0
        self.traces_validated = 0
        self.evaluations = 0
        self.nontrivial = set()
        self.nontrivial_count = 0
        self.rule = ""
        self.samples = []
        self.drift = []
        self.drift_count = 0
        self.coverage_by_action = {}
        self.bounds = {}
        self.assumptions = []
        self.models = []
        self.violations = []
        self.known_hit = {}
        self.notes = []
        self.exhaustive = None
        self.findings = [f for f in load_findings() if f.get("property") == pid and f.get("kind") == "known"]

    # ---- statistics
    def add_tlc(self, name, res, constants=None):
        self.states += res.distinct
        self.transitions += max(res.generated, 1)
        for a, (d, t) in res.coverage.items():
            self.coverage_by_action[name + "." + a] = t or d
        self.models.append({"model": name, "distinct_states": res.distinct, "states_generated": res.generated,
                            "depth": res.depth, "wall_s": round(res.wall, 2), "constants": tlaval.to_json(constants or {})})

    def sample(self, s, limit=6):
        if len(self.samples) < limit:
            self.samples.append(tlaval.to_json(s))

    def count(self, n=1):
        self.evaluations += n

    def nontriv(self, key):
        self.nontrivial.add(key)

    def conforming(self):
        """nothing has disagreed so far: self-tests of the machinery (falsified traces must be rejected) make sense only then"""
        return not self.violations and self.drift_count == 0

    # ---- verdicts
    def drift_at(self, case, expected, observed, what=""):
        self.drift_count += 1
        if len(self.drift) < 5:
            self.drift.append({"case": tlaval.to_json(case), "expected": tlaval.to_json(expected),
                               "observed": tlaval.to_json(observed), "what": what})
            print("DRIFT property=%s %s case=%s" % (self.pid, what, json.dumps(tlaval.to_json(case))[:300]))

    def violation(self, case, expected, observed, what, extra=None):
        """A property-level disagreement on the implementation."""
        case_j, obs_j = tlaval.to_json(case), tlaval.to_json(observed)
        for f in self.findings:
            if _submatch(f.get("case", {}), case_j) and _submatch(f.get("observed", "*"), obs_j):
                key = f.get("what", "finding")
                if key not in self.known_hit:
                    self.known_hit[key] = 0
                    print("KNOWN-FINDING: property=%s %s" % (self.pid, key))
                self.known_hit[key] += 1
                return False
        v = {"property": self.pid, "tier": self.tier, "seed": self.seed, "what": what, "case": case_j,
             "expected": tlaval.to_json(expected), "observed": obs_j}
        if extra:
            v.update(tlaval.to_json(extra))
        self.violations.append(v)
        return True

    @property
    def n_viol(self):
        return len(self.violations)

    # ---- finishing
    def finish(self):
        wall = time.time() - self.t0
        # runs against a scratch tree (VERIF_REPO: seeds, mutation campaigns) keep their evidence out of /verif/evidence
        ev_dir = os.path.join(VERIF, "evidence") if REPO == "/repo" else os.path.join("/dev/shm", "baize-verif-evidence", os.path.basename(REPO.rstrip("/")))
        os.makedirs(ev_dir, exist_ok=True)
        nontriv = self.nontrivial_count + len(self.nontrivial)
        cov = {
            "states": self.states, "transitions": self.transitions,
            "traces_validated_against_impl": self.traces_validated,
            "evaluations": self.evaluations, "distinct_nontrivial": nontriv, "rule": self.rule,
            "samples": self.samples or ["(none)"],
            "models": self.models, "coverage_by_action": self.coverage_by_action, "bounds": tlaval.to_json(self.bounds),
            "drift": self.drift_count, "drift_samples": self.drift,
            "known_findings_hit": self.known_hit, "notes": self.notes,
        }
        if self.exhaustive is not None:
            cov["exhaustive"] = self.exhaustive
        ev = {"property_id": self.pid, "tier": self.tier, "seed": self.seed, "level": self.level,
              "coverage": cov, "assumptions": self.assumptions, "wall_s": round(wall, 2),
              "violations": len(self.violations)}
        rc = 0
        if self.violations:
            rc = 1
            rdir = os.path.join(ev_dir, "replay")
            os.makedirs(rdir, exist_ok=True)
            seen = set()
            for i, v in enumerate(self.violations[:8]):
                path = os.path.join(rdir, "%s-%s-%d.json" % (self.pid, self.tier, i))
                with open(path, "w") as f:
                    json.dump(v, f, indent=1, default=str)
                if v["what"] in seen and i > 0:
                    continue
                seen.add(v["what"])
                print("VIOLATION property=%s replay=%s" % (self.pid, path))
                print("  what: %s\n  case: %s\n  expected: %s\n  observed: %s" % (
                    v["what"], json.dumps(v["case"], default=str)[:400], json.dumps(v["expected"], default=str)[:400],
                    json.dumps(v["observed"], default=str)[:400]))
            if len(self.violations) > 8:
                print("  ... %d violations in total" % len(self.violations))
        with open(os.path.join(ev_dir, self.pid + ".json"), "w") as f:
            json.dump(ev, f, indent=1, default=str)
        print("%s %s tier=%s seed=%s states=%d transitions=%d impl_checks=%d evaluations=%d nontrivial=%d drift=%d wall=%.1fs" % (
            "FAIL" if rc else "PASS", self.pid, self.tier, self.seed, self.states, self.transitions,
            self.traces_validated, self.evaluations, nontriv, self.drift_count, wall))
        return rc


def main(pid, run):
    """entry used by every adapter: run(ctx) does the work"""
    import argparse
    ap = argparse.ArgumentParser()
    ap.add_argument("--tier", default=os.environ.get("VERIF_TIER", "quick"), choices=["quick", "thorough"])
    ap.add_argument("--seed", type=int, default=int(os.environ.get("VERIF_SEED", "0") or 0))
    ap.add_argument("--replay", default=None)
    a = ap.parse_args(sys.argv[2:] if len(sys.argv) > 1 and sys.argv[1] == pid else sys.argv[1:])
    target = None
    if a.replay:
        # re-run the check with the tier and seed of the recorded violation and report whether THAT case violates again
        with open(a.replay) as f:
            target = json.load(f)
        a.tier, a.seed = target.get("tier", a.tier), int(target.get("seed", a.seed))
    ctx = Ctx(pid, a.tier, a.seed)
    ctx.replay = a.replay
    try:
        use_repo()
        run(ctx)
        if target is not None:
            same = [v for v in ctx.violations if v["case"] == target.get("case")]
            alike = [v for v in ctx.violations if v["what"] == target.get("what")]
            hit = same or alike
            print("REPLAY property=%s file=%s: %s" % (pid, a.replay, (
                "reproduced - %s (observed %s)" % (hit[0]["what"], json.dumps(hit[0]["observed"], default=str)[:300])) if hit
                else "not reproduced on the current tree (%d other violation(s))" % len(ctx.violations)))
            if hit:
                print("VIOLATION property=%s replay=%s" % (pid, a.replay))
            sys.stdout.flush()
            return 1 if hit else 0      # a replay does not rewrite the evidence file
        rc = ctx.finish()
    except MachineryError as e:
        print("MACHINERY-FAILURE property=%s: %s" % (pid, e))
        rc = 2
        if ctx.violations and target is None:
            # property-level violations were already established on the implementation before the machinery gave up (a tree that
            # misbehaves can also confuse a later stage of the check): they stand
            print("(the %d violation(s) recorded before the machinery failure are reported)" % len(ctx.violations))
            rc = ctx.finish()
    except Exception as e:
        from .servers import Livelock
        if isinstance(e, Livelock):
            ctx.violation({"phase": "driving the applications"}, "application calls return", str(e), "the library does not return: " + str(e)[:160])
            rc = ctx.finish()
            sys.stdout.flush()
            sys.stderr.flush()
            os._exit(rc)       # a thread of the library may still be spinning: do not wait for it at interpreter exit
        tb = traceback.extract_tb(e.__traceback__)
        lib = os.path.realpath(os.path.join(REPO, "baize")) + os.sep
        if tb and os.path.realpath(tb[-1].filename).startswith(lib):
            # the library itself raised out of a call the harness makes with arguments inside the property's scope (building an
            # application, a response, a mapping ...): on the unchanged tree this never happens; it is a verdict, not a machinery failure
            where = "%s:%d" % (os.path.relpath(tb[-1].filename, REPO), tb[-1].lineno)
            caller = next(("%s:%d" % (os.path.basename(f.filename), f.lineno) for f in reversed(tb) if "/harness/" in f.filename), "?")
            ctx.violation({"phase": "a call the check makes while preparing or driving its scenarios", "harness_site": caller},
                          "the library accepts the call", "%s: %s at %s" % (type(e).__name__, str(e)[:200], where),
                          "the library raised %s at %s out of a plain call of the check (%s)" % (type(e).__name__, where, caller))
            rc = ctx.finish()
        else:
            traceback.print_exc()
            print("MACHINERY-FAILURE property=%s: harness exception" % pid)
            rc = 2
    sys.stdout.flush()
    return rc
