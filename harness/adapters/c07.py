"""C07 - static-file apps serve exactly the files inside their directory, nothing else.

spec/StaticFiles.tla: lexical resolution, confinement, the Files / Pages answer rules and the
follow-up of a Pages redirect; TLC checks Confined, ExactFile, Complete, RedirectThenIndex,
NoRedirectLoop for every request path over the segment alphabet.  The world is materialised on disk
(secrets above and beside the served root); every behaviour is replayed on Files and Pages on both
interfaces, with an audit hook recording every open() so that nothing outside the root is touched.
"""
import os
import shutil
import sys
import urllib.parse

from .. import tlc, graph, common, servers

SEGS_Q = ["", ".", "..", "a.txt", "sub", "..name", "%2e%2e", "index.html", "x.html", "x", "y", "rootx", "secret.txt", "z", "d2", "q.html"]
SEGS_T = SEGS_Q + ["u_e.txt", "deep", "root"]
# TLC mangles non-ASCII characters in strings: the model uses the ASCII token, the adapter the real name
REAL = {"u_e.txt": "\u00e9.txt"}


def real_name(n):
    return REAL.get(n, n)

FILES = ["a.txt", "..name", "x.html", "x", "y.html", "index.html", "u_e.txt", "sub/index.html", "sub/a.txt", "sub/x.html",
         "sub/deep/a.txt", "sub/..name", "root/a.txt", "sub.html", "%2e%2e/index.html",
         "q.html.html"]     # (no "q.html" beside it: the ".html" fallback is for names that do not already end in ".html")
# (directories named like the Pages candidates: "z.html" with no "z" beside it, "d2/index.html"; a directory literally named "%2e%2e")
DIRS = ["sub", "sub/deep", "root", "z.html", "d2", "d2/index.html", "%2e%2e"]


def world():
    w = {(("secret.txt",), "file"), (("root.html",), "file"), (("rootx",), "dir"), (("rootx", "secret.txt"), "file"), (("rootx", "a.txt"), "file"),
         (("root",), "dir")}
    for f in FILES:
        w.add((("root",) + tuple(f.split("/")), "file"))
    for d in DIRS:
        w.add((("root",) + tuple(d.split("/")), "dir"))
    return w


OPENED = []
_hook = [False]


def _audit(event, args):
    if _hook[0] and event == "open" and args and isinstance(args[0], (str, bytes)):
        OPENED.append(os.fsdecode(args[0]))


def content_of(p):
    return ("CONTENT OF " + "/".join(p)).encode("utf-8")


def build(base, w):
    top = os.path.join(base, "P")
    for p, kind in sorted(w, key=lambda e: len(e[0])):
        path = os.path.join(top, *[real_name(x) for x in p])
        if kind == "dir":
            os.makedirs(path, exist_ok=True)
        else:
            os.makedirs(os.path.dirname(path), exist_ok=True)
            with open(path, "wb") as f:
                f.write(content_of(p) if ("secret" not in p[-1] and p != ("root.html",)) else b"SECRET " + content_of(p))
    return top


def run(ctx):
    segs = SEGS_Q if ctx.tier == "quick" else SEGS_T
    depth = 3 if ctx.tier == "quick" else 4
    if ctx.tier == "thorough":
        segs = [s for s in segs if s not in ("rootx", "y")]
    w = world()
    names = set(segs) | {n for p, _ in w for n in p} | {"index.html"}
    html_of = frozenset((n, n + ".html") for n in names if not n.endswith(".html"))
    K = dict(World=frozenset(w), Segs=frozenset(segs), MaxDepth=depth, HtmlOf=html_of, Apps=frozenset({"Files", "Pages"}))
    ctx.bounds = {"segments": segs, "MaxDepth": depth, "files": len(FILES)}
    ctx.rule = ("every request path of up to MaxDepth segments over the alphabet x {Files, Pages} x {WSGI, ASGI} against a real tree; "
                "non-trivial = paths containing '..', '.', an empty segment, '..name' or '%2e%2e', or ending in '/', or a Pages "
                "html/index/redirect rule")
    ctx.assumptions = ["POSIX path semantics; no symbolic links inside the tree", "the served directory exists",
                       "a trailing slash after a regular file may answer 404 or the file (the statement does not say)"]
    wd = tlc.workdir_for("c07")
    tlc.sany(wd + "/StaticFiles.tla")
    cfg = ["SPECIFICATION Spec", "CHECK_DEADLOCK FALSE", "INVARIANT Confined", "INVARIANT ExactFile", "INVARIANT Complete",
           "INVARIANT RedirectThenIndex", "INVARIANT NoRedirectLoop", "INVARIANT RedirectOnlyDirs"]
    tlc.write_mc(wd, "MC_StaticFiles", "StaticFiles", constants=K, cfg_lines=cfg)
    res = tlc.run_tlc(wd, "MC_StaticFiles", dump=True, heap="8g")
    ctx.add_tlc("StaticFiles", res, {"paths": "all <= %d segments over %d" % (depth, len(segs))})
    if res.violated:
        raise common.MachineryError("StaticFiles.tla: " + tlc.describe(res))
    tlc.check_coverage(res, ["Resolve", "Confine", "Locate", "Follow"])
    g = graph.Graph.load(res.dot)

    base = os.path.join(tlc.scratch(), "c07world")
    shutil.rmtree(base, True)
    top = build(base, w)
    root = os.path.join(top, "root")
    sys.addaudithook(_audit)
    import baize.wsgi as W
    import baize.asgi as A
    apps = {("Files", "wsgi"): W.Files(root), ("Pages", "wsgi"): W.Pages(root), ("Files", "asgi"): A.Files(root), ("Pages", "asgi"): A.Pages(root)}
    # the same directory given relative to the cwd and relative to a package
    pkgdir = os.path.join(base, "pkgs")
    os.makedirs(os.path.join(pkgdir, "vpkg"), exist_ok=True)
    open(os.path.join(pkgdir, "vpkg", "__init__.py"), "w").close()
    os.symlink(root, os.path.join(pkgdir, "vpkg", "static"))
    sys.path.insert(0, pkgdir)
    cwd = os.getcwd()
    os.chdir(top)
    try:
        alt = {("Files", "wsgi", "rel"): W.Files("root"), ("Pages", "asgi", "rel"): A.Pages("root"),
               ("Files", "asgi", "pkg"): A.Files("static", package="vpkg"), ("Pages", "wsgi", "pkg"): W.Pages("static", package="vpkg")}
    finally:
        os.chdir(cwd)
    sys.path.remove(pkgdir)

    def request(app, iface, path, root_path=""):
        OPENED.clear()
        _hook[0] = True
        try:
            req = servers.Req(path=path, headers=[("Host", "testserver")], root_path=root_path)
            r = servers.wsgi_call(app, req) if iface == "wsgi" else servers.asgi_call(app, req)
        finally:
            _hook[0] = False
        from baize.exceptions import HTTPException
        if r.exc is not None:
            if isinstance(r.exc, HTTPException):
                return {"status": r.exc.status_code, "body": b"", "location": None, "opened": list(OPENED)}
            return {"status": "exc:" + type(r.exc).__name__, "body": b"", "location": None, "opened": list(OPENED)}
        hdr = dict(r.header_multiset())
        return {"status": r.status, "body": r.body, "location": hdr.get("location"), "opened": list(OPENED)}

    try:
        n = 0
        for nid in g.terminal():
            st = g.state(nid)
            if st["hops"] == 1:
                first = list(st["segs"][:-1])
                paths = [("/" + "/".join(real_name(x) for x in first), "redirect"), ("/" + "/".join(real_name(x) for x in st["segs"]), st["outcome"])]
            else:
                paths = [("/" + "/".join(real_name(x) for x in st["segs"]), st["outcome"])]
            appname = st["app"]
            n += 1
            variants = [(apps[(appname, "wsgi")], "wsgi", "abs"), (apps[(appname, "asgi")], "asgi", "abs")]
            for key, a in alt.items():
                # (the relative / package-relative directory has another name than "root": only paths that stay below it)
                if key[0] == appname and n % 5 == 0 and ".." not in st["segs"]:
                    variants.append((a, key[1], key[2]))
            # the application mounted below a prefix (SCRIPT_NAME / root_path): the same files, and "the same URL" includes the prefix
            if n % 3 == 0 or st["hops"] == 1:
                variants += [(apps[(appname, "wsgi")], "wsgi", "abs, mounted at /mnt"), (apps[(appname, "asgi")], "asgi", "abs, mounted at /mnt")]
            for app, iface, dirform in variants:
                mount = "/mnt" if "mounted" in dirform else ""
                for path, want in paths:
                    o = request(app, iface, path, mount)
                    ctx.count()
                    ctx.traces_validated += 1
                    case = {"app": appname, "iface": iface, "directory": dirform, "path": path}
                    bad = None
                    real_root = os.path.realpath(root)
                    real_top = os.path.realpath(top)     # the surrounding tree; system files (mime.types ...) are not part of it
                    outside = [p for p in o["opened"] if os.path.realpath(p).startswith(real_top + os.sep) and not (
                        os.path.realpath(p) == real_root or os.path.realpath(p).startswith(real_root + os.sep))]
                    if outside:
                        bad = "a file outside the directory was opened: %s" % outside[:2]
                    elif b"SECRET" in o["body"]:
                        bad = "content of a file outside the directory was served"
                    elif want == "redirect":
                        loc = o["location"]
                        # the Location is a URL reference: its path, percent-decoded, must be the requested path plus "/"
                        loc_path = urllib.parse.unquote(urllib.parse.urlsplit(loc).path) if loc is not None else None
                        if o["status"] != 307 or loc_path != mount + path + "/":
                            bad = "directory URL without trailing slash: expected a redirect to the same URL plus '/'"
                    elif want["k"] == "file":
                        if o["status"] != 200 or o["body"] != content_of(want["p"]):
                            bad = "expected the content of %s" % "/".join(want["p"])
                    elif want["k"] == "404":
                        if o["status"] != 404:
                            ok_alt = False
                            if appname == "Files" and path.endswith("/") and o["status"] == 200:
                                # trailing slash after a regular file: serving that very file is tolerated
                                ok_alt = any(o["body"] == content_of(p) for p, k in w if k == "file" and
                                             "/" + "/".join(real_name(x) for x in p[1:]) == path.rstrip("/"))
                            if not ok_alt:
                                bad = "expected not-found"
                    if bad:
                        ctx.violation(case, want if want == "redirect" else dict(want),
                                      {"status": o["status"], "body": o["body"][:60].decode("latin-1"), "location": o["location"]}, bad,
                                      {"module": "StaticFiles"})
            if any(s in ("..", ".", "", "..name", "%2e%2e") for s in st["segs"]) or st["hops"] or (
                    appname == "Pages" and st["outcome"]["k"] == "file" and list(st["outcome"]["p"][1:]) != [s for s in st["segs"]]):
                ctx.nontriv((appname, st["segs"]))
            if n in (50, 3000):
                ctx.sample({"app": appname, "path": paths[-1][0], "outcome": dict(st["outcome"]), "followed_redirect": st["hops"] == 1})
        # WSGI: a path that is not UTF-8 names no text file name: the byte E9 alone is not "é"
        for (appname, iface), app in apps.items():
            if iface != "wsgi":
                continue
            for raw in ("/\xe9.txt", "/sub/\xe9.txt", "/\xe9.txt/", "/\xff", "/\xc3\xa9.txt\xff"):
                env = servers.make_environ(servers.Req(path="/", headers=[("Host", "testserver")]))
                env["PATH_INFO"] = raw
                r = servers.wsgi_call(app, env)
                ctx.count()
                from baize.exceptions import HTTPException
                status = r.exc.status_code if isinstance(r.exc, HTTPException) else (r.status if r.exc is None else "exc:" + type(r.exc).__name__)
                if status != 404:
                    ctx.violation({"app": appname, "iface": iface, "raw_path_info": raw}, 404, {"status": status, "body": r.body[:40].decode("latin-1")},
                                  "a path that is not UTF-8 was resolved to a file (read as Latin-1 text)")
        # WSGI: a regular file whose NAME is not UTF-8 (bytes of another charset) is served at its own path, whatever its media type
        for fname in (b"G\xff", b"T\xff.txt"):
            with open(os.path.join(os.fsencode(root), fname), "wb") as f:
                f.write(b"CONTENT OF " + fname)
        for (appname, iface), app in apps.items():
            if iface != "wsgi":
                continue
            for fname in (b"G\xff", b"T\xff.txt"):
                env = servers.make_environ(servers.Req(path="/", headers=[("Host", "testserver")]))
                env["PATH_INFO"] = "/" + fname.decode("latin-1")
                r = servers.wsgi_call(app, env)
                ctx.count()
                from baize.exceptions import HTTPException
                status = r.exc.status_code if isinstance(r.exc, HTTPException) else (r.status if r.exc is None else "exc:" + type(r.exc).__name__)
                if status != 200 or r.body != b"CONTENT OF " + fname:
                    ctx.violation({"app": appname, "iface": iface, "file_name_bytes": repr(fname)}, {"status": 200, "body": "the file"},
                                  {"status": status, "body": r.body[:40].decode("latin-1")},
                                  "a regular file with a name that is not UTF-8 is not served at its own path")
                ctx.nontriv(("non-utf8-name", appname, fname))
        # the empty PATH_INFO (distinct from "/"): Files not found, Pages redirect to "/"
        for (appname, iface), app in apps.items():
            o = request(app, iface, "")
            ctx.count()
            if appname == "Files" and o["status"] != 404:
                ctx.violation({"app": appname, "iface": iface, "path": ""}, 404, o["status"], "empty path on Files")
            if appname == "Pages" and not (o["status"] == 307 and urllib.parse.urlsplit(o["location"] or "").path == "/"):
                ctx.violation({"app": appname, "iface": iface, "path": ""}, "redirect to /", {"status": o["status"], "location": o["location"]},
                              "empty path on Pages")
    finally:
        shutil.rmtree(base, True)
    ctx.exhaustive = True


if __name__ == "__main__":
    sys.exit(common.main("C07", run))
