"""C18 - request URLs are reconstructed faithfully and edited component-wise.

spec/Url.tla: construction from (scheme, server, Host header, root, path, query) and replace() on a
URL record (Built, ReplacedExactly).  TLC enumerates the inputs; every behaviour is replayed on the
real URL class (environ and scope construction, wsgi/asgi Request.url, replace(), the query helpers,
repr()).
"""
import itertools
import sys
import urllib.parse

from .. import tlc, graph, common, servers

NONE = "none"
HOSTS = {"named": "example.com", "ipv4": "127.0.0.1", "ipv6": "[::1]", "sub": "a.b-c.example"}
USERS = {"u1": "user", "u2": "us%40er", "u3": "a%3Ab"}
PWS = {"pw1": "s3cret-TOKEN-XYZ", "pw2": "p%40ss%3Aw", "pw3": "x", "pw4": "s3cr@t:pw", "pw5": "S3cr/T0p", "pw6": "q?x#y[z]"}
# (pw5, pw6: characters that end the authority or the path when written raw - a URL can hold them only percent-encoded, and
#  that is how they may come back)
PATHS = {"p_empty": "", "p_a": "/a", "p_ae": "/a/é", "p_slash": "/"}
QUERIES = {NONE: "", "q1": "a=1&b=2", "q2": "x=%C3%A9&x=2", "q3": "q=café&z=中"}
FRAGS = {NONE: "", "f1": "frag"}
HOSTHDR = {"hh1": "www.example.org", "hh2": "example.org:8443", "hh3": "[::1]:9000"}
ROOTS = {"r_empty": "", "r_r": "/r", "r_e": "/caf\u00e9"}     # (a mount prefix that is not ASCII: SCRIPT_NAME is Latin-1 text of UTF-8 bytes)
DEFAULTS = {("http", "80"), ("https", "443"), ("ws", "80"), ("wss", "443")}


def comp(url):
    c = url.components
    return {"scheme": c.scheme or NONE, "user": url.username if url.username is not None else NONE,
            "password": url.password if url.password is not None else NONE, "host": _host(c), "port": str(url.port) if url.port is not None else NONE,
            "path": c.path, "query": c.query, "fragment": c.fragment}


def _host(c):
    nl = c.netloc.rpartition("@")[2]
    if nl.startswith("["):
        return nl[:nl.index("]") + 1]
    return nl.rsplit(":", 1)[0] if ":" in nl else nl


def conc_url(u):
    return {"scheme": u["scheme"], "user": USERS.get(u["user"], NONE), "password": PWS.get(u["password"], NONE), "host": HOSTS[u["host"]],
            "port": u["port"], "path": PATHS[u["path"]], "query": QUERIES[u["query"]], "fragment": FRAGS[u["fragment"]]}


def to_string(c):
    nl = c["host"]
    if c["port"] != NONE:
        nl += ":" + c["port"]
    if c["user"] != NONE:
        nl = c["user"] + ((":" + c["password"]) if c["password"] != NONE else "") + "@" + nl
    s = c["scheme"] + "://" + nl + urllib.parse.quote(c["path"], safe="/")
    if c["query"]:
        s += "?" + c["query"]
    if c["fragment"]:
        s += "#" + c["fragment"]
    return s


PORTS = ["80", "443", "8080", "1"]
T_PATHS = dict(PATHS, p_sp="/a b")


def edit_chains(ctx):
    """code -> spec: chains of replace() calls, every result fed into the next call; each call logged at its return with the observed
    components (as tokens of Url.tla) and judged by TLC: TReplaced on what was observed (violation), Replace() itself (drift)"""
    import random
    from baize.datastructures import URL
    from .. import tracecheck
    wd = tlc.workdir_for("c18trace")
    rnd = random.Random(500 + ctx.seed)
    n_tr, n_ed = (300, 25) if ctx.tier == "quick" else (1500, 40)
    pal = {"scheme": {x: x for x in ("http", "https", "ws", "wss")}, "user": dict(USERS, none=None, u4="al:ice"), "password": dict(PWS, none=None), "host": HOSTS,
           "port": dict({x: int(x) for x in PORTS}, none=None), "path": T_PATHS, "query": QUERIES, "fragment": FRAGS}
    inv = {k: {(str(v) if v is not None else NONE): t for t, v in m.items()} for k, m in pal.items()}
    esc = lambda t, extra="": "".join("%%%02X" % ord(c) if c in "/?#[]" + extra else c for c in t)  # noqa
    inv["password"].update({esc(v): t for t, v in PWS.items()})
    inv["user"].update({esc(v, ":"): t for t, v in pal["user"].items() if v})
    inv["path"] = {urllib.parse.quote(v, safe="/%"): t for t, v in T_PATHS.items()}
    inv["path"].update({v: t for t, v in T_PATHS.items()})

    def tokens(u):
        c = comp(u)
        return {k: inv[k].get(v, "?" + v) for k, v in c.items()}

    traces, texts = [], []
    for _ in range(n_tr):
        base = {"scheme": rnd.choice(["http", "https", "ws", "wss"]), "user": rnd.choice(list(USERS) + [NONE, NONE]), "host": rnd.choice(list(HOSTS)),
                "port": rnd.choice(PORTS + [NONE, NONE]), "path": rnd.choice(list(T_PATHS)), "query": rnd.choice(list(QUERIES)), "fragment": rnd.choice(list(FRAGS))}
        base["password"] = rnd.choice(["pw1", "pw2", "pw3", "pw4", NONE]) if base["user"] != NONE else NONE
        text = to_string({"scheme": base["scheme"], "user": USERS.get(base["user"], NONE), "password": PWS.get(base["password"], NONE), "host": HOSTS[base["host"]],
                          "port": base["port"], "path": T_PATHS[base["path"]], "query": QUERIES[base["query"]], "fragment": FRAGS[base["fragment"]]})
        u = URL(text)
        if tokens(u) != base:
            raise common.MachineryError("harness cannot express %r: %s parsed as %r" % (base, text, tokens(u)))
        events = []
        for _ in range(n_ed):
            ks = rnd.sample(sorted(pal), rnd.choice((1, 1, 2, 3)))
            kw = {k: rnd.choice(sorted(pal[k])) for k in ks}
            real = {{"user": "username", "host": "hostname"}.get(k, k): pal[k][t] for k, t in kw.items()}
            if real.get("hostname", "").startswith("[") and rnd.random() < 0.5:
                real["hostname"] = real["hostname"].strip("[]")       # an IPv6 host as `.hostname` reports it
            case = {"start": text, "calls_before": len(events), "url": str(u), "replace": {k: v for k, v in real.items()}}
            ctx.count()
            try:
                u = u.replace(**real)
                out = tokens(u)
                rep = repr(u)
            except Exception as e:  # noqa
                ctx.violation(case, "a URL", type(e).__name__ + ": " + str(e), "replace() raised %s in a chain of edits" % type(e).__name__)
                break
            if u.password and (":%s@" % u.password) in rep:
                ctx.violation(case, "password masked", rep, "repr() of the URL contains its password")
            events.append({"kw": kw, "out": out, "text": str(u)})
            if "host" in kw or "user" in kw or "password" in kw or "port" in kw:
                ctx.nontriv(("chain", len(traces), len(events)))
        traces.append({"init": base, "events": events})
        texts.append(text)
    K = dict(Schemes=frozenset(), BuildSchemes=frozenset(), Hosts=frozenset(), Ports=frozenset(), Users=frozenset(), Passwords=frozenset(), Paths=frozenset(),
             Queries=frozenset(), Fragments=frozenset(), HostHeaders=frozenset(), Roots=frozenset(), DefaultPort=frozenset(DEFAULTS), EditKeys=frozenset())
    acc, rejected = tracecheck.validate(wd, "TraceUrl", traces, constants=dict(K, Strict=False), invariants=["TReplaced"])
    ctx.traces_validated += acc
    bad = set()
    for tid, name, st in tracecheck.validate.last_invariant_failures:
        bad.add(tid)
        st = st if isinstance(st, dict) else {}
        i = st.get("l", 2) - 2
        e = traces[tid]["events"][i] if 0 <= i < len(traces[tid]["events"]) else {}
        ctx.violation({"start": texts[tid], "calls_before": i, "url_before": st.get("url"), "replace": st.get("edit"), "source": "chain of edits"},
                      "named components take the new values, the others stay", {"components": st.get("out"), "text": e.get("text")},
                      "replace() in a chain of edits: named components do not have the new values / other components changed")
    for tid, prefix in rejected:
        if tid not in bad:
            raise common.MachineryError("TraceUrl (observation mode) cannot follow chain %d at event %d" % (tid, prefix + 1))
    good = [t for i, t in enumerate(traces) if i not in bad]
    acc2, rej2 = tracecheck.validate(wd, "TraceUrl", good, constants=dict(K, Strict=True))
    for tid, prefix in rej2:
        t = good[tid]
        ctx.drift_at({"init": t["init"], "calls_before": prefix}, "Replace() of Url.tla", t["events"][prefix] if prefix < len(t["events"]) else None,
                     "chain of edits departs from Replace() of Url.tla at call %d" % (prefix + 1))
    # binding self-test
    import copy
    fal = []
    for t in [t for t in good if t["events"]][:10]:
        t2 = copy.deepcopy(t)
        i = len(t2["events"]) // 2
        t2["events"][i]["out"]["fragment"] = "f1" if t2["events"][i]["out"]["fragment"] != "f1" else NONE
        t2["events"] = t2["events"][:i + 1]
        fal.append(t2)
    if fal and ctx.conforming() and not rej2:
        acc3, _ = tracecheck.validate(wd, "TraceUrl", fal, constants=dict(K, Strict=True))
        if acc3:
            raise common.MachineryError("binding self-test: %d falsified edit chains accepted by TraceUrl" % acc3)
    ctx.notes.append("TraceUrl: %d chains of %d replace() calls validated (observation + strict), %d falsified ones rejected" % (len(traces), n_ed, len(fal)))
    ctx.sample({"edit_chain_start": texts[0], "first_calls": [{"kw": e["kw"], "text": e["text"]} for e in traces[0]["events"][:3]]})


def run(ctx):
    from baize.datastructures import URL
    thorough = ctx.tier == "thorough"
    keys = ["scheme", "user", "password", "host", "port", "path", "query", "fragment"]
    edit_sets = [frozenset(c) for n in (1, 2) for c in itertools.combinations(keys, n)]
    if thorough:
        edit_sets += [frozenset(c) for c in itertools.combinations(["scheme", "user", "password", "host", "port"], 3)] + [frozenset({"path", "query", "fragment"})]
    else:
        edit_sets += [frozenset({"user", "password", "host"}), frozenset({"user", "password", "port"}), frozenset({"host", "port", "scheme"})]
    # (all components x all values x all 3-subsets is ~10^8 behaviours: thorough widens hosts, paths and fragments and takes every
    #  3-subset of the netloc-related components)
    K = dict(Schemes=frozenset({"http", "wss"}), BuildSchemes=frozenset({"http", "https", "ws", "wss"}), Hosts=frozenset(HOSTS if thorough else ["named", "ipv6"]),
             Ports=frozenset({"80", "443", "8080"}), Users=frozenset({"u1", "u2"}), Passwords=frozenset({"pw1", "pw4"}),
             Paths=frozenset(["p_empty", "p_ae", "p_slash"] if thorough else ["p_empty", "p_ae"]), Queries=frozenset({NONE, "q3"}),
             Fragments=frozenset(FRAGS if thorough else [NONE]), HostHeaders=frozenset(HOSTHDR), Roots=frozenset(ROOTS if thorough else ["r_empty", "r_e"]),
             DefaultPort=frozenset(DEFAULTS), EditKeys=frozenset(edit_sets))
    ctx.bounds = {k: (len(v) if isinstance(v, frozenset) else v) for k, v in K.items()}
    ctx.rule = ("every (scheme, server, Host header, root, path, query) and every (URL with a host, set of 1-2 (thorough 3) components "
                "to replace, new values) of Url.tla on the real URL class and request objects; non-trivial = IPv6 hosts, userinfo, "
                "default-port elision, removing a user that has a password")
    ctx.assumptions = ["user names and passwords are percent-encoded where a URL requires it", "IPv6 host literals are given in brackets",
                       "the URL has a host (replace() on a relative URL is outside the statement)"]
    wd = tlc.workdir_for("c18")
    tlc.sany(wd + "/Url.tla")
    tlc.write_mc(wd, "MC_Url", "Url", constants=K, cfg_lines=["SPECIFICATION Spec", "CHECK_DEADLOCK FALSE", "INVARIANT Built", "INVARIANT ReplacedExactly"])
    res = tlc.run_tlc(wd, "MC_Url", dump=True, heap="10g")
    ctx.add_tlc("Url", res, ctx.bounds)
    if res.violated:
        raise common.MachineryError("Url.tla: " + tlc.describe(res))
    tlc.check_coverage(res, ["DoBuild", "DoEdit"])
    g = graph.Graph.load(res.dot)
    import baize.wsgi as W
    import baize.asgi as A
    n = 0
    for nid in g.terminal():
        st = g.state(nid)
        n += 1
        ctx.count()
        ctx.traces_validated += 1
        if st["mode"] == "build":
            if st["out"]["scheme"] == NONE:
                continue
            i = st["inp"]
            path, root, query = PATHS[i["path"]], ROOTS[i["root"]], QUERIES[i["query"]]
            hh = HOSTHDR.get(i["hostHeader"])
            server = (HOSTS[i["server"][0]].strip("[]"), int(i["server"][1]))
            req = servers.Req(path=path, root_path=root, query=query, scheme=i["scheme"], server=server,
                              headers=[("Host", hh)] if hh else [])
            exp_host = hh if hh else HOSTS[i["server"][0]] + ("" if st["out"]["port"] == NONE else ":" + st["out"]["port"])   # IPv6 in brackets
            want = "%s://%s%s%s" % (i["scheme"], exp_host, root + path, ("?" + query) if query else "")
            env, scope = servers.make_environ(req), servers.make_scope(req)
            got, comps = {}, {}
            for name, f in (("URL(environ)", lambda: URL(environ=env)), ("URL(scope)", lambda: URL(scope=scope)),
                            ("wsgi.Request.url", lambda: W.Request(env).url), ("asgi.Request.url", lambda: A.Request(scope).url)):
                try:
                    u = f()
                    got[name] = str(u)
                    comps[name] = (u.hostname, u.port)
                except BaseException as e:  # noqa
                    got[name] = "exc:" + type(e).__name__
            case = {"scheme": i["scheme"], "server": list(server), "host_header": hh, "root": root, "path": path, "query": query}
            # the components, not only the text: host and port as a URL parser reads them back
            if hh:
                hname, _, hport = hh.rpartition(":") if (":" in hh and not hh.endswith("]")) else (hh, "", "")
                want_comp = (hname.strip("[]").lower(), int(hport) if hport else None)
            else:
                want_comp = (server[0].lower(), None if st["out"]["port"] == NONE else int(st["out"]["port"]))
            if any(c != want_comp for c in comps.values()):
                ctx.violation(case, {"hostname": want_comp[0], "port": want_comp[1]}, {k: list(v) for k, v in comps.items()},
                              "host / port of the request URL are not those of the request")
            if any(v != want for v in got.values()):
                ctx.violation(case, want, got, "request URL is not reconstructed from its parts" if len(set(got.values())) == 1
                              else "WSGI and ASGI reconstruct different URLs")
            if hh or st["out"]["port"] == NONE or "[" in HOSTS[i["server"][0]]:
                ctx.nontriv(("build",) + tuple(sorted((k, str(v)) for k, v in case.items())))
            continue
        base = conc_url(st["url"])
        text = to_string(base)
        kw = {}
        for k, v in st["edit"].items():
            real_key = {"user": "username", "host": "hostname"}.get(k, k)
            if k == "user":
                kw[real_key] = USERS.get(v)
            elif k == "password":
                kw[real_key] = PWS.get(v)
            elif k == "host":
                kw[real_key] = HOSTS[v]
            elif k == "port":
                kw[real_key] = None if v == NONE else int(v)
            elif k == "path":
                kw[real_key] = PATHS[v]
            elif k == "query":
                kw[real_key] = QUERIES[v]
            elif k == "fragment":
                kw[real_key] = FRAGS[v]
            else:
                kw[real_key] = v
        want = conc_url(st["out"])
        case = {"url": text, "replace": {k: v for k, v in kw.items()}}
        try:
            u = URL(text)
            if comp(u) != {**base, "path": urllib.parse.quote(base["path"], safe="/")} and comp(u) != base:
                raise common.MachineryError("harness cannot express %r: parsed as %r" % (base, comp(u)))
            r = u.replace(**kw)
            got = comp(r)
            got["path"] = urllib.parse.unquote(got["path"])
            rep = repr(r)
        except common.MachineryError:
            raise
        except BaseException as e:  # noqa
            ctx.violation(case, want, type(e).__name__ + ": " + str(e), "replace() raised %s" % type(e).__name__)
            continue
        if got != want:
            ctx.violation(case, want, got, "replace(): named components do not have the new values / other components changed")
        pw = want["password"]
        if pw != NONE and pw in rep:
            ctx.violation(case, "password masked", rep, "repr() of the URL contains its password")
        if "[" in base["host"] or "user" in st["edit"] or "password" in st["edit"] or base["user"] != NONE:
            ctx.nontriv(("edit", st["url"], st["edit"]))
        if n in (30, 3000):
            ctx.sample({"case": case, "result": str(r)})
    edit_chains(ctx)
    # a host name as the URL itself reports it (IPv6 without brackets) can be given back to replace()
    for text in ("http://[::1]:8080/p?q=1#f", "https://u:pw@[2001:db8::2]/x", "http://example.com:8080/p", "ws://127.0.0.1/", "http://u@h:1/"):
        u = URL(text)
        for h in ("::1", "2001:db8::2", u.hostname, "example.org", "10.0.0.1"):
            ctx.count()
            case = {"url": text, "replace": {"hostname": h}}
            try:
                r = u.replace(hostname=h)
                got = {"hostname": r.hostname, "port": r.port, "username": r.username, "password": r.password, "path": r.path, "query": r.query, "scheme": r.scheme}
            except BaseException as e:  # noqa
                ctx.violation(case, "a URL", type(e).__name__ + ": " + str(e), "replace(hostname=...) raised %s" % type(e).__name__)
                continue
            want = {"hostname": h.lower(), "port": u.port, "username": u.username, "password": u.password, "path": u.path, "query": u.query, "scheme": u.scheme}
            if got != want:
                ctx.violation(case, want, got, "replace(hostname=...): the host does not have the new value / other components changed")
            ctx.nontriv(("hostname", text, h))
    # a password under an EMPTY user name (https://:secret@host/, the form redis-style URLs use): repr() still masks it
    for text in ("https://:s3cret-TOKEN@example.com/x", "http://:pw@[::1]:8080/", "ws://:p%40ss@127.0.0.1/"):
        for how in ("parsed", "replace"):
            ctx.count()
            try:
                u = URL(text) if how == "parsed" else URL(text.replace(":" + text.split(":", 2)[2].split("@")[0] + "@", "")).replace(
                    username="", password=text.split(":", 2)[2].split("@")[0])
                rep, pw = repr(u), u.password
            except BaseException as e:  # noqa
                ctx.violation({"url": text, "built_by": how}, "a URL", type(e).__name__ + ": " + str(e), "URL with an empty user name raised %s" % type(e).__name__)
                continue
            if pw and pw in rep:
                ctx.violation({"url": text, "built_by": how}, "password masked", rep, "repr() of the URL contains its password")
            ctx.nontriv(("empty-user", text, how))
    # query-parameter helpers act as set / replace / remove on the multi-value query
    qs = ["a=1&a=2&b=3", "b=%C3%A9", "", "a=1&a=2&a=3&b=4", "a=1&b=2&a=3&c=4&a=5", "a=0&a=1&a=2", "b=1&a=2&a=3&a=4&a=5&c=6", "a=&a=&a=&z=1",
          "q=caf%E9&page=1&page=2", "b=%FF%FE&a=1", "k%E9y=v&a=1&a=2"]      # (escapes that are not UTF-8: bytes of another charset)
    for text in ["http://h/p?" + q for q in qs] + ["https://u:pw@[::1]:8443/x?b=%C3%A9&a=1&a=2&a=3", "ws://h/"]:
        u = URL(text)
        pairs = urllib.parse.parse_qsl(u.query, keep_blank_values=True, errors="surrogateescape")
        for kw in ({"a": "9"}, {"c": "new", "b": "7"}, {"z": 5}):
            ctx.count()
            try:
                u.include_query_params(**kw), u.replace_query_params(**kw), u.remove_query_params(*kw)
            except BaseException as e:  # noqa
                ctx.violation({"url": text, "helper_args": kw}, "a URL", type(e).__name__ + ": " + str(e), "a query helper raised %s" % type(e).__name__)
                continue
            inc = urllib.parse.parse_qsl(u.include_query_params(**kw).query, keep_blank_values=True, errors="surrogateescape")
            exp_inc = [(k, v) for k, v in pairs if k not in kw]
            keep = []
            seen = set()
            for k, v in pairs:     # set: first occurrence replaced, others dropped; new keys appended
                if k in kw:
                    if k not in seen:
                        keep.append((k, str(kw[k])))
                        seen.add(k)
                else:
                    keep.append((k, v))
            keep += [(k, str(v)) for k, v in kw.items() if k not in seen]
            if sorted(inc) != sorted(keep) or [p for p in inc if p[0] not in kw] != exp_inc:
                ctx.violation({"url": text, "include_query_params": kw}, keep, inc, "include_query_params is not 'set' on the multi-value query")
            rep = urllib.parse.parse_qsl(u.replace_query_params(**kw).query, keep_blank_values=True, errors="surrogateescape")
            if rep != [(k, str(v)) for k, v in kw.items()]:
                ctx.violation({"url": text, "replace_query_params": kw}, kw, rep, "replace_query_params does not replace the query")
            rem = urllib.parse.parse_qsl(u.remove_query_params(*kw).query, keep_blank_values=True, errors="surrogateescape")
            if rem != [(k, v) for k, v in pairs if k not in kw]:
                ctx.violation({"url": text, "remove_query_params": list(kw)}, "pairs without those keys", rem, "remove_query_params does not remove exactly those keys")
            for r2 in (u.include_query_params(**kw), u.replace_query_params(**kw), u.remove_query_params(*kw)):
                if (r2.scheme, r2.netloc, r2.path, r2.fragment) != (u.scheme, u.netloc, u.path, u.fragment):
                    ctx.violation({"url": text, "helper_args": kw}, "only the query changes", str(r2), "a query helper changed another component")
    ctx.exhaustive = True


if __name__ == "__main__":
    sys.exit(common.main("C18", run))
