"""C06, ASGI event streams at task level: SseAsgi.tla (main / push / watcher tasks, one-slot queue, cancellation) checked by TLC,
and every virtual-time execution of the real SendEventResponse validated against it event by event (TraceSseAsgi.tla).

The events come from outside the library: inside baize.asgi.responses the name `asyncio` is replaced (per run) by a proxy that
logs queue operations, task creation / cancellation and wait_for time-outs; the user's iterable and the server callables log
their own events.  Everything happens on one thread under the virtual-time loop, so the log order IS the execution order."""
import asyncio
import sys

from .. import tlc, vloop, tracecheck, common
from .c06_asgi import scenarios, NODISC, ProducerError

INV = ["TypeOK", "DeliveredInOrder", "ClosedOnce", "Settled", "CompleteWhenUndisturbed", "RaisedIsReported", "RaisedOnlyIfProducerRaised",
       "NothingAfterFinal", "Cooperative", "SendFailureReported", "NothingAfterFailure"]
ACTIONS = ["MSendStart", "MSpawn", "MTop", "MLoop", "MWake", "MTimeout", "MSendBody", "MSent", "MRsFin", "MFin", "MAclose", "MRaise", "MSendFinal",
           "MSendFailed", "MReturn", "PStart", "PCheck", "PItem", "PEnd", "PRaise", "PPut", "PPutWake", "PCancelAnext", "PCancelPut", "PFinally", "PNoneWake",
           "PCancelNone", "PAclose", "WStart", "WDisc", "WCancelled"]


def tag(item):
    if item is None:
        return 0
    try:
        if isinstance(item, bytes):
            return int(item.split(b":")[1].split(b";")[0])
        return int(item["data"])
    except Exception:  # noqa
        return -1


class Proxy:
    """stands in for the `asyncio` module inside baize.asgi.responses"""

    def __init__(self, log):
        self._log = log
        self._queue = None

    def __getattr__(self, name):
        return getattr(asyncio, name)

    def Queue(self, maxsize=0):
        log = self._log

        class RecQueue(asyncio.Queue):
            async def put(self, item):
                x = tag(item)
                if self.full():
                    log("put_wait", x)
                try:
                    await super().put(item)
                except asyncio.CancelledError:
                    log("put_cancelled", x)
                    raise
                log("put", x)

            async def get(self):
                if self.empty():
                    log("get_wait")
                item = await super().get()
                log("get", tag(item))
                return item
        self._queue = RecQueue(maxsize)
        return self._queue

    def ensure_future(self, coro):
        kind = "push" if getattr(coro, "__name__", "") == "push" else "wait"
        t = asyncio.ensure_future(coro)
        self._log("spawn_" + kind)
        proxy = self

        class TaskProxy:
            def cancel(self_inner):
                r = t.cancel()
                if kind == "push":
                    proxy._log("cancel_push", proxy._queue.qsize() if proxy._queue is not None else 0, bool(r))
                else:
                    proxy._log("cancel_wait")
                return r

            def __getattr__(self_inner, name):
                return getattr(t, name)
        return TaskProxy()

    async def wait_for(self, aw, timeout):
        try:
            return await asyncio.wait_for(aw, timeout)
        except asyncio.TimeoutError:
            self._log("timeout")
            raise


async def play(c):
    import baize.asgi as A
    import baize.asgi.responses as R
    loop = asyncio.get_running_loop()
    events = []

    def log(e, x=0, r=False):
        events.append({"e": e, "x": x, "r": r})

    k = c["k"]
    state = {"closed": 0, "begun": False}

    async def producer():
        state["begun"] = True
        try:
            for i in range(1, k + 1):
                if c["gaps"][i - 1]:
                    await asyncio.sleep(c["gaps"][i - 1])
                if c["raiseAt"] == i:
                    raise ProducerError("item %d" % i)
                yield ({"data": str(i)} if c["kind"] == "sse" else b"item:%d;" % i)
            if c["endGap"]:
                await asyncio.sleep(c["endGap"])
            if c["raiseAt"] == k + 1:
                raise ProducerError("at end")
        finally:
            et = sys.exc_info()[0]
            why = "end" if et is None else "raise" if et is ProducerError else "exit" if et is GeneratorExit else \
                "cancel" if et is asyncio.CancelledError else et.__name__
            state["closed"] += 1
            if why != "exit":
                log("closed", 0, why)

    class UserIterable:
        def __init__(self):
            self.g = producer()

        def __aiter__(self):
            if c["kind"] == "sse":      # (the plain stream enters the iterable and asks for the first item in one step: "anext" is logged)
                log("aiter")
            return self

        async def __anext__(self):
            log("anext")
            v = await self.g.__anext__()
            log("item", tag(v))
            return v

        async def aclose(self):
            before = state["closed"]
            await self.g.aclose()
            log("release", 0, state["closed"] > before)

    first = [True]

    polled = [0]

    async def receive():
        if first[0]:
            first[0] = False
            return {"type": "http.request", "body": b"", "more_body": False}
        if c["disc"] == NODISC:
            await asyncio.Event().wait()
        d = c["disc"] - loop.time()
        if d > 0:
            await asyncio.sleep(d)
        polled[0] += 1
        if polled[0] > 2000:      # told two thousand times that the client is gone, and asking again: a busy loop
            from ..servers import Livelock
            raise Livelock("receive() polled %d times after the disconnect" % polled[0])
        if polled[0] == 1:      # (logged once: an application that keeps asking is told again, silently)
            log("disc")
        return {"type": "http.disconnect"}

    nsend = [0]

    async def send(m):
        nsend[0] += 1
        if c.get("failAt") and nsend[0] == c["failAt"]:
            log("send_fail")
            raise OSError("simulated send failure")
        if m["type"] == "http.response.start":
            log("send_start")
        elif m["type"] == "http.response.body":
            b = m.get("body", b"")
            if not m.get("more_body", False):
                log("send_final")
            elif b == b": ping\n\n":
                log("send_ping")
            else:
                try:
                    log("send_body", int(b.split(b"data: ")[1].split(b"\n")[0]) if c["kind"] == "sse" else tag(b))
                except Exception:  # noqa
                    log("send_body", -1)
        if c["sendCost"]:
            await asyncio.sleep(c["sendCost"])

    saved = R.asyncio
    R.asyncio = Proxy(log)
    try:
        app = A.SendEventResponse(UserIterable(), ping_interval=c["ping"]) if c["kind"] == "sse" else A.StreamResponse(UserIterable())
        scope = {"type": "http", "method": "GET", "path": "/", "headers": []}
        exc = ""
        try:
            await asyncio.wait_for(app(scope, receive, send), 500)
            log("return")
        except ProducerError:
            log("raise")
        except OSError as e:
            if c.get("failAt") and "simulated send failure" in str(e):
                log("sendfailed")
            else:
                exc = type(e).__name__
        except asyncio.TimeoutError:
            exc = "NeverReturned"
        except BaseException as e:  # noqa
            exc = type(e).__name__
        for _ in range(6):      # the cleanup already scheduled on the loop gets its turn
            await asyncio.sleep(0)
        me = asyncio.current_task()
        pending = [t for t in asyncio.all_tasks() if t is not me and not t.done()]
    finally:
        R.asyncio = saved
    return events, {"exc": exc, "pending": len(pending), "closed": state["closed"], "begun": state["begun"]}


def fail_scenarios(tier):
    """send() raising at its k-th call (a server that lost the connection), crossed with producer speed, producer failure and a
    disconnect: the call must end with that error (or the producer's), clean up once, leave no task"""
    import itertools
    out = []
    for kind in ("sse", "stream"):
        for k in ((0, 1, 2) if tier == "quick" else (0, 1, 2, 3)):
            for gaps in itertools.product((0, 3), repeat=k):
                for raise_at in range(0, k + 2):
                    for disc in (NODISC, 1, 3):
                        for fail_at in range(1, k + 4):
                            for send_cost in (0, 1):
                                if send_cost and (disc != NODISC or raise_at):
                                    continue
                                out.append({"kind": kind, "gaps": list(gaps), "endGap": 0, "ping": 2, "disc": disc, "raiseAt": raise_at,
                                            "sendCost": send_cost, "k": k, "failAt": fail_at})
    return out


def run_task_level(ctx, wd):
    tlc.sany(wd + "/SseAsgi.tla")
    K = dict(MaxN=2, MaxPings=2, MaxFail=5, Drain=True)
    cfg = ["SPECIFICATION Spec", "CHECK_DEADLOCK FALSE"] + ["INVARIANT " + i for i in INV]
    tlc.write_mc(wd, "MC_SseAsgi", "SseAsgi", constants=K, cfg_lines=cfg)
    res = tlc.run_tlc(wd, "MC_SseAsgi", workers=4)
    ctx.add_tlc("SseAsgi", res, K)
    if res.violated:
        raise common.MachineryError("SseAsgi.tla: " + tlc.describe(res))
    tlc.check_coverage(res, ACTIONS)
    for spec, prop in (("FairSpec", "Terminates"), ("FairSpecNoProducer", "ReturnsAfterDisconnect")):
        tlc.write_mc(wd, "MC_SseAsgiLive", "SseAsgi", constants=K, cfg_lines=["SPECIFICATION " + spec, "CHECK_DEADLOCK FALSE", "PROPERTY " + prop])
        lres = tlc.run_tlc(wd, "MC_SseAsgiLive", workers=4, coverage=False)
        ctx.add_tlc("SseAsgi(liveness %s)" % prop, lres, K)
        if lres.violated:
            raise common.MachineryError("SseAsgi.tla liveness %s: %s" % (prop, tlc.describe(lres)))
    # witness: without emptying the queue before cancelling, the relay task blocks for ever in its final put
    tlc.write_mc(wd, "MC_SseAsgiNoDrain", "SseAsgi", constants=dict(K, Drain=False, MaxFail=0),
                 cfg_lines=["SPECIFICATION FairSpec", "CHECK_DEADLOCK FALSE", "PROPERTY Terminates"])
    wres = tlc.run_tlc(wd, "MC_SseAsgiNoDrain", workers=4, coverage=False)
    if wres.violated != "Terminates":
        raise common.MachineryError("witness failed: SseAsgi.tla with Drain=FALSE does not violate Terminates (%s)" % wres.violated)
    ctx.notes.append("witness: render_stream not draining the queue (Drain=FALSE) violates Terminates: the relay task stays blocked in put(None)")

    sc = [c for c in scenarios(ctx.tier) if c["kind"] == "sse"] + [c for c in fail_scenarios(ctx.tier) if c["kind"] == "sse"]
    traces, infos = [], []
    for c in sc:
        try:
            ev, info = vloop.run(play(c))
        except vloop.Deadlock as e:
            ev, info = [], {"exc": "Deadlock:" + str(e), "pending": 0, "closed": 0, "begun": False}
        traces.append({"n": c["k"], "raiseAt": c["raiseAt"], "failAt": c.get("failAt", 0), "events": ev})
        infos.append(info)
        ctx.count()
        case = {"scenario": c}
        if info["exc"]:
            ctx.violation(case, "the call returns or raises the producer's exception", info["exc"], "ASGI event stream: the call ended with %s" % info["exc"])
        elif info["pending"]:
            ctx.violation(case, "no pending task", info, "ASGI event stream: %d task(s) still pending after the call returned and the loop ran on" % info["pending"])
        elif info["begun"] and info["closed"] != 1:
            ctx.violation(case, "cleanup exactly once", info, "ASGI event stream: the user's generator cleanup ran %d time(s)" % info["closed"])
        if c["disc"] != NODISC or c["raiseAt"] or c.get("failAt"):
            ctx.nontriv(("sse-task",) + tuple(sorted((k, str(v)) for k, v in c.items())))
    acc, rejected = tracecheck.validate(wd, "TraceSseAsgi", traces, constants=dict(MaxN=3, MaxPings=100000, MaxFail=100, Drain=True), invariants=INV)
    ctx.traces_validated += acc
    ctx.bounds["asgi_task_level"] = {"scenarios": len(sc), "events": sum(len(t["events"]) for t in traces)}
    for tid, name, st in tracecheck.validate.last_invariant_failures:
        ctx.violation({"scenario": sc[tid]}, "invariant " + name, {k: st[k] for k in ("mpc", "ppc", "wpc", "closed", "delivered", "outcome") if isinstance(st, dict) and k in st},
                      "recorded ASGI event stream reaches a state violating %s of SseAsgi.tla" % name)
    for tid, prefix in rejected:
        ev = traces[tid]["events"]
        ctx.drift_at({"scenario": sc[tid], "events": [e["e"] for e in ev[max(0, prefix - 6):prefix + 1]]}, "a behaviour of SseAsgi.tla",
                     ev[prefix] if prefix < len(ev) else None, "recorded ASGI event stream is not a behaviour of SseAsgi.tla at event %d" % (prefix + 1))
    run_plain_stream(ctx, wd)
    run_denial(ctx)
    run_nosuspend(ctx)
    ctx.sample({"asgi_task_scenario": sc[len(sc) // 3], "events": [e["e"] + ("(%s)" % e["x"] if e["x"] else "") for e in traces[len(sc) // 3]["events"]]})


def run_denial(ctx):
    """a streaming response sent as the HTTP answer to a refused WebSocket handshake (WebsocketDenialResponse): the client's
    websocket.disconnect must reach the stream as the disconnect it waits for - same clauses as for a plain HTTP scope"""
    import baize.asgi as A
    from baize.asgi.websocket import WebsocketDenialResponse

    async def play_denial(kind, disc, gap, ping, k=8):
        loop = asyncio.get_running_loop()
        state = {"closed": 0, "sent": [], "returned_at": None, "polled": 0}

        async def gen():
            try:
                for i in range(1, k + 1):
                    await asyncio.sleep(gap)
                    yield ({"data": str(i)} if kind == "sse" else b"item:%d;" % i)
            finally:
                state["closed"] += 1

        first = [True]

        async def receive():
            if first[0]:
                first[0] = False
                return {"type": "websocket.connect"}
            d = disc - loop.time()
            if d > 0:
                await asyncio.sleep(d)
            state["polled"] += 1
            if state["polled"] > 2000:
                from ..servers import Livelock
                raise Livelock("receive() polled %d times after websocket.disconnect" % state["polled"])
            return {"type": "websocket.disconnect", "code": 1006}

        async def send(m):
            if m["type"] == "websocket.http.response.body" and m.get("body") and m["body"] != b": ping\n\n":
                state["sent"].append(tag(m["body"]) if kind == "stream" else int(m["body"].split(b"data: ")[1].split(b"\n")[0]))
        inner = A.SendEventResponse(gen(), ping_interval=ping) if kind == "sse" else A.StreamResponse(gen())
        scope = {"type": "websocket", "path": "/", "headers": [], "extensions": {"websocket.http.response": {}}, "subprotocols": []}
        exc = ""
        try:
            await asyncio.wait_for(WebsocketDenialResponse(inner)(scope, receive, send), 300)
            state["returned_at"] = loop.time()
        except asyncio.TimeoutError:
            exc = "NeverReturned"
        except BaseException as e:  # noqa
            exc = type(e).__name__ + ": " + str(e)[:80]
        for _ in range(6):
            await asyncio.sleep(0)
        me = asyncio.current_task()
        state["pending"] = len([t for t in asyncio.all_tasks() if t is not me and not t.done()])
        state["exc"] = exc
        return state

    for kind in ("stream", "sse"):
        for disc in (0, 1, 2, 3, 5):
            for gap in (1, 2):
                ping = 2
                try:
                    st = vloop.run(play_denial(kind, disc, gap, ping))
                except vloop.Deadlock as e:
                    st = {"exc": "Deadlock:" + str(e), "pending": 0, "closed": 0, "sent": [], "returned_at": None}
                ctx.count()
                case = {"response": "WebsocketDenialResponse(%s)" % ("SendEventResponse" if kind == "sse" else "StreamResponse"),
                        "disconnect_at": disc, "item_every": gap, "ping_interval": ping, "items": 8}
                deadline = disc + (max(gap, ping) if kind == "sse" else gap)
                if st["exc"]:
                    ctx.violation(case, "the call returns", st["exc"], "denied handshake with a streaming response: the call ended with %s after the client went away" % st["exc"].split(":")[0])
                elif st["returned_at"] is None or st["returned_at"] > deadline + 1e-9:
                    ctx.violation(case, "returned by t=%s" % deadline, {"returned_at": st["returned_at"]},
                                  "denied handshake with a streaming response: the disconnect is not noticed in time (returned at %s)" % st["returned_at"])
                elif st["pending"] or st["closed"] != 1:
                    ctx.violation(case, "cleanup once, nothing pending", {"pending": st["pending"], "closed": st["closed"]},
                                  "denied handshake with a streaming response: %d pending task(s), cleanup ran %d time(s)" % (st["pending"], st["closed"]))
                elif st["sent"] != list(range(1, len(st["sent"]) + 1)):
                    ctx.violation(case, "items in order", st["sent"], "denied handshake with a streaming response: items lost or out of order")
                elif len(st["sent"]) < min(8, max(0, (disc - 1) // gap)):
                    # what the producer yielded well before the client went away has been delivered (a stream that ends by itself
                    # at the first message of the handshake delivers nothing)
                    ctx.violation(case, "at least %d items before the disconnect" % max(0, (disc - 1) // gap), st["sent"],
                                  "denied handshake with a streaming response: the stream ended before the client went away (%d items delivered)" % len(st["sent"]))
                ctx.nontriv(("denial-stream", kind, disc, gap))


def run_nosuspend(ctx):
    """zero delays everywhere: a producer that never awaits and a server whose send() returns without suspending (buffered writes).
    The disconnect watcher is a separate task: it must still get its turn, so that the call returns by the producer's next step"""
    import baize.asgi as A

    async def play_ns(kind, disc_at_send, k=60):
        state = {"closed": 0, "sends_after": 0, "bodies": 0}
        disc = asyncio.Event()

        async def gen():
            try:
                for i in range(1, k + 1):
                    yield ({"data": str(i)} if kind == "sse" else b"item:%d;" % i)
            finally:
                state["closed"] += 1
        first = [True]

        async def receive():
            if first[0]:
                first[0] = False
                return {"type": "http.request", "body": b"", "more_body": False}
            await disc.wait()
            return {"type": "http.disconnect"}

        async def send(m):       # never suspends
            if m["type"] == "http.response.body" and m.get("more_body"):
                state["bodies"] += 1
                if disc.is_set():
                    state["sends_after"] += 1
                if state["bodies"] == disc_at_send:
                    disc.set()
        app = A.SendEventResponse(gen(), ping_interval=2) if kind == "sse" else A.StreamResponse(gen())
        exc = ""
        try:
            await asyncio.wait_for(app({"type": "http", "method": "GET", "path": "/", "headers": []}, receive, send), 300)
        except BaseException as e:  # noqa
            exc = type(e).__name__
        for _ in range(6):
            await asyncio.sleep(0)
        me = asyncio.current_task()
        state["pending"] = len([t for t in asyncio.all_tasks() if t is not me and not t.done()])
        state["exc"] = exc
        return state

    for kind in ("stream", "sse"):
        for at in (1, 2, 5):
            st = vloop.run(play_ns(kind, at))
            ctx.count()
            case = {"response": "SendEventResponse" if kind == "sse" else "StreamResponse", "producer": "60 items, never awaits", "send": "never suspends",
                    "client_gone_during_body_send": at}
            if st["exc"]:
                ctx.violation(case, "the call returns", st["exc"], "zero-delay ASGI stream: the call ended with %s" % st["exc"])
            elif st["sends_after"] > 3:
                ctx.violation(case, "at most the producer's next step after the disconnect", {"body_sends_after_the_disconnect": st["sends_after"]},
                              "zero-delay ASGI stream: the disconnect watcher never gets a turn - %d more items were produced and sent after the client had gone" % st["sends_after"])
            elif st["pending"] or st["closed"] != 1:
                ctx.violation(case, "cleanup once, nothing pending", {"pending": st["pending"], "closed": st["closed"]}, "zero-delay ASGI stream: cleanup / pending tasks")
            ctx.nontriv(("nosuspend", kind, at))


PLAIN_INV = ["DeliveredInOrder", "ClosedOnce", "Settled", "CompleteWhenUndisturbed", "RaisedIsReported", "RaisedOnlyIfProducerRaised",
             "SendFailureReported", "NothingAfterFailure"]
PLAIN_ACTIONS = ["MSendStart", "MSpawn", "MTop", "MItem", "MEnd", "MProducerRaise", "MRelease", "MSendBody", "MSent", "MFin", "MRaise", "MSendFinal",
                 "MSendFailed", "MReturn", "WStart", "WDisc", "WCancelled"]


def run_plain_stream(ctx, wd):
    """the plain ASGI StreamResponse (two tasks): StreamAsgiTask.tla by TLC, every virtual-time execution validated against it"""
    tlc.sany(wd + "/StreamAsgiTask.tla")
    K = dict(MaxN=2, MaxFail=5)
    tlc.write_mc(wd, "MC_StreamAsgiTask", "StreamAsgiTask", constants=K,
                 cfg_lines=["SPECIFICATION Spec", "CHECK_DEADLOCK FALSE"] + ["INVARIANT " + i for i in PLAIN_INV])
    res = tlc.run_tlc(wd, "MC_StreamAsgiTask", workers=4)
    ctx.add_tlc("StreamAsgiTask", res, K)
    if res.violated:
        raise common.MachineryError("StreamAsgiTask.tla: " + tlc.describe(res))
    tlc.check_coverage(res, PLAIN_ACTIONS)
    for prop in ("Terminates", "ReturnsAfterNextStep"):
        tlc.write_mc(wd, "MC_StreamAsgiTaskLive", "StreamAsgiTask", constants=K, cfg_lines=["SPECIFICATION FairSpec", "CHECK_DEADLOCK FALSE", "PROPERTY " + prop])
        lres = tlc.run_tlc(wd, "MC_StreamAsgiTaskLive", workers=4, coverage=False)
        if lres.violated:
            raise common.MachineryError("StreamAsgiTask.tla liveness %s: %s" % (prop, tlc.describe(lres)))
    sc = [c for c in scenarios(ctx.tier) if c["kind"] == "stream"] + [c for c in fail_scenarios(ctx.tier) if c["kind"] == "stream"]
    traces = []
    for c in sc:
        try:
            ev, info = vloop.run(play(c))
        except vloop.Deadlock as e:
            ev, info = [], {"exc": "Deadlock:" + str(e), "pending": 0, "closed": 0, "begun": False}
        traces.append({"n": c["k"], "raiseAt": c["raiseAt"], "failAt": c.get("failAt", 0), "events": ev})
        ctx.count()
        case = {"scenario": c}
        if info["exc"] and info["exc"] != "NeverReturned":
            ctx.violation(case, "the call returns or raises the producer's exception", info["exc"], "ASGI stream: the call ended with %s" % info["exc"])
        elif info["pending"]:
            ctx.violation(case, "no pending task", info, "ASGI stream: %d task(s) still pending after the call returned and the loop ran on" % info["pending"])
        elif info["begun"] and info["closed"] != 1 and not info["exc"]:
            ctx.violation(case, "cleanup exactly once", info, "ASGI stream: the user's generator cleanup ran %d time(s)" % info["closed"])
    acc, rejected = tracecheck.validate(wd, "TraceStreamAsgiTask", traces, constants=dict(MaxN=3, MaxFail=100), invariants=PLAIN_INV)
    ctx.traces_validated += acc
    ctx.bounds["asgi_task_level_plain"] = {"scenarios": len(sc), "events": sum(len(t["events"]) for t in traces)}
    for tid, name, st in tracecheck.validate.last_invariant_failures:
        ctx.violation({"scenario": sc[tid]}, "invariant " + name, {k: st[k] for k in ("mpc", "wpc", "closed", "delivered", "outcome") if isinstance(st, dict) and k in st},
                      "recorded ASGI stream reaches a state violating %s of StreamAsgiTask.tla" % name)
    for tid, prefix in rejected:
        ev = traces[tid]["events"]
        ctx.drift_at({"scenario": sc[tid], "events": [e["e"] for e in ev[max(0, prefix - 6):prefix + 1]]}, "a behaviour of StreamAsgiTask.tla",
                     ev[prefix] if prefix < len(ev) else None, "recorded ASGI stream is not a behaviour of StreamAsgiTask.tla at event %d" % (prefix + 1))
