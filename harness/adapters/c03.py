"""C03 - a Range header resolves to the canonical set of satisfiable byte ranges.

spec/Range.tla carries the property (Classify, CanonicalOut, ExactUnion) and the code's pipeline
(extract, satisfiability, order, sort, merge loop).  TLC enumerates every (size, spec list) within
the bounds; each is rendered to header text in several syntaxes and given to the real parse_range.
Large random range sets are recorded and validated against TraceRange.tla with their own numbers;
arbitrary text is checked for outcome class and canonical form.
"""
import random
import re
import sys

from .. import tlc, graph, common, tracecheck

CONSTS = {
    "quick": dict(MaxSize=3, MaxNum=3, MaxSpecs=3, Fixed=True),
    "thorough": dict(MaxSize=4, MaxNum=4, MaxSpecs=3, Fixed=True),
}
INV = ["Classify", "CanonicalOut", "ExactUnion", "Rejected"]
ACTIONS = ["Extract", "CheckSat", "CheckOrder", "Sort", "MergeStep"]


def spec_text(s):
    if s["k"] == "fl":
        return "%d-%d" % (s["a"], s["b"])
    if s["k"] == "from":
        return "%d-" % s["a"]
    return "-%d" % s["b"]


def render(specs, variant):
    parts = [spec_text(s) for s in specs]
    if variant == 4:   # numbers with leading zeros denote the same positions
        parts = [re.sub(r"\d+", lambda m: "00" + m.group(0), p) for p in parts]
        return "bytes=" + ",".join(parts)
    if variant == 0:
        return "bytes=" + ",".join(parts)
    if variant == 1:
        return "bytes=" + ", ".join(parts)
    if variant == 2:   # an unparseable list member is ignored (tests/test_responses.py sanctions "bytes=0-10,hello")
        return "bytes=" + ",hello,".join(parts) + ",hello"
    return "bytes=" + " ,\t".join(parts)


def call(header, size):
    from baize.responses import FileResponseMixin
    from baize.exceptions import HTTPException
    try:
        r = FileResponseMixin.parse_range(header, size)
        return "ok", [tuple(x) for x in r]
    except HTTPException as e:
        return str(e.status_code), []
    except BaseException as e:  # noqa
        return type(e).__name__, []


def canonical_bad(result, size):
    if not result:
        return "empty result"
    for a, b in result:
        if not (0 <= a < b <= size):
            return "range (%d,%d) empty or outside [0,%d)" % (a, b, size)
    for (a, b), (c, d) in zip(result, result[1:]):
        if not b < c:
            return "ranges (%d,%d),(%d,%d) not strictly ascending / disjoint / non-adjacent" % (a, b, c, d)
    return None


def denote(specs, size):
    pos = set()
    for s in specs:
        if s["k"] == "fl":
            pos |= set(range(s["a"], min(s["b"], size - 1) + 1))
        elif s["k"] == "from":
            pos |= set(range(s["a"], size))
        else:
            pos |= set(range(max(0, size - s["b"]), size))
    return pos


def run(ctx):
    K = CONSTS[ctx.tier]
    ctx.bounds = dict(K)
    ctx.rule = ("every (size, spec list) of Range.tla in 4 header syntaxes on the real parse_range; non-trivial = inputs with "
                ">= 2 specs that overlap, touch or arrive out of order, or that are rejected; plus large random sets and text")
    ctx.assumptions = ["a header member that is not a range-spec is ignored (sanctioned by the upstream test)",
                       "when a header is both malformed and unsatisfiable either 400 or 416 is accepted"]
    wd = tlc.workdir_for("c03")
    tlc.sany(wd + "/Range.tla")
    cfg = ["SPECIFICATION Spec", "CHECK_DEADLOCK FALSE"] + ["INVARIANT " + i for i in INV]
    tlc.write_mc(wd, "MC_Range", "Range", constants=K, cfg_lines=cfg)
    res = tlc.run_tlc(wd, "MC_Range", dump=True, heap="8g")
    ctx.add_tlc("Range", res, K)
    if res.violated:
        raise common.MachineryError("Range.tla: " + tlc.describe(res))
    tlc.check_coverage(res, ACTIONS)

    # standing witness: the pre-repair mechanism must violate the invariants
    if ctx.tier == "quick":
        KW = dict(K, Fixed=False)
        tlc.write_mc(wd, "MC_RangeOrig", "Range", constants=KW, cfg_lines=cfg)
        wres = tlc.run_tlc(wd, "MC_RangeOrig", coverage=False)
        if not wres.violated:
            raise common.MachineryError("witness failed: Range.tla with Fixed=FALSE satisfies all invariants")
        ctx.notes.append("witness: original merge loop (Fixed=FALSE) violates %s after %d states" % (wres.violated, wres.distinct))

    # Apalache: the same invariants for ALL natural sizes and numbers (up to three specs), decided symbolically
    ok, info = tlc.run_apalache(wd, "RangeSym", {"Fixed": True})
    if not ok:
        raise common.MachineryError("RangeSym.tla (Apalache): invariant violated over unbounded naturals: %r" % (info,))
    ctx.models.append({"model": "RangeSym (Apalache, unbounded naturals, <= 3 specs, length 1)", "result": "NoError", "wall_s": info["wall_s"]})
    if ctx.tier == "thorough":
        wok, winfo = tlc.run_apalache(wd, "RangeSym", {"Fixed": False})
        if wok:
            raise common.MachineryError("witness failed: RangeSym.tla with Fixed=FALSE satisfies the invariants")
        ctx.notes.append("witness (Apalache): original pipeline violates the invariants, e.g. %s" % (winfo.get("counterexample"),))

    g = graph.Graph.load(res.dot)
    n = 0
    for nid in g.terminal():
        st = g.state(nid)
        if st["pc"] != "done":
            raise common.MachineryError("terminal state not done")
        specs = [dict(s) for s in st["specs"]]
        size = st["size"]
        allowed = set()
        mal = any(s["k"] == "fl" and s["a"] > s["b"] for s in specs)
        uns = any((s["b"] == 0 or s["b"] > size) if s["k"] == "suf" else s["a"] >= size for s in specs)
        if mal:
            allowed.add("400")
        if uns:
            allowed.add("416")
        if not allowed:
            allowed.add("ok")
        if st["outcome"] not in allowed:
            raise common.MachineryError("model outcome outside the allowed set")
        exp_result = [tuple(x) for x in st["result"]]
        n += 1
        for variant in range(5):
            header = render(specs, variant)
            out, result = call(header, size)
            ctx.count()
            ctx.traces_validated += 1
            case = {"header": header, "size": size}
            if out not in allowed:
                ctx.violation(case, {"outcome": sorted(allowed), "result": exp_result}, {"outcome": out, "result": result},
                              "range header classified %s, statement allows %s" % (out, sorted(allowed)))
            elif out == "ok" and result != exp_result:
                bad = canonical_bad(result, size)
                what = "result is not canonical: " + bad if bad else "union of returned ranges differs from the positions the specs denote"
                ctx.violation(case, {"outcome": "ok", "result": exp_result}, {"outcome": out, "result": result}, what)
        if len(specs) >= 2 and (st["outcome"] != "ok" or len(exp_result) < len(specs) or
                                [tuple(x) for x in st["ranges"]] != sorted(tuple(x) for x in st["ranges"])):
            ctx.nontriv((size, tuple(spec_text(s) for s in specs)))
        if n in (5, 700, 7000):
            ctx.sample({"header": render(specs, 0), "size": size, "outcome": st["outcome"], "result": exp_result})
    ctx.exhaustive = True

    # ---- code -> spec: large random range sets with the trace's own numbers
    rnd = random.Random(ctx.seed)
    traces = []
    N = 300 if ctx.tier == "quick" else 3000
    for _ in range(N):
        size = rnd.choice([rnd.randint(1, 50), rnd.randint(1000, 10 ** 6)])
        k = rnd.randint(1, 40 if rnd.random() < 0.3 else 6)
        specs = []
        for _ in range(k):
            t = rnd.random()
            hi = size + (size // 10 if rnd.random() < 0.1 else -1)
            a = rnd.randint(0, max(0, hi))
            if t < 0.6:
                b = a + rnd.choice([0, 1, rnd.randint(0, max(1, size // 4)), size * 2]) if rnd.random() < 0.97 else a - 1
                specs.append({"k": "fl", "a": a, "b": max(0, b)})
            elif t < 0.8:
                specs.append({"k": "from", "a": a, "b": 0})
            else:
                specs.append({"k": "suf", "a": 0, "b": rnd.choice([1, rnd.randint(0, size), size, size + 1])})
        header = render(specs, rnd.randint(0, 3))
        out, result = call(header, size)
        ctx.count()
        if out == "ok":
            bad = canonical_bad(result, size)
            got = set()
            for a, b in result:
                got |= set(range(a, b)) if size <= 50 else set()
            if bad or (size <= 50 and got != denote(specs, size)):
                ctx.violation({"header": header, "size": size}, "canonical ranges covering exactly the denoted positions",
                              {"outcome": out, "result": result}, "random range set: " + (bad or "union differs"))
        elif out not in ("400", "416"):
            ctx.violation({"header": header, "size": size}, "ok / 400 / 416", {"outcome": out}, "parse_range raised " + out)
        traces.append({"size": size, "specs": specs, "header": header,
                       "events": [{"outcome": out, "result": [list(x) for x in result]}]})
    tk = dict(MaxSize=0, MaxNum=0, MaxSpecs=0, Fixed=True)
    acc, rejected = tracecheck.validate(wd, "TraceRange", traces, constants=tk, invariants=INV)
    ctx.traces_validated += acc
    for tid, name, st in tracecheck.validate.last_invariant_failures:
        ctx.violation({"header": traces[tid]["header"], "size": traces[tid]["size"]}, "invariant " + name, st,
                      "recorded parse_range result violates %s of Range.tla" % name)
    for tid, _ in rejected:
        t = traces[tid]
        # both outcomes allowed when malformed and unsatisfiable at once: the model picks the code's order
        specs, size = t["specs"], t["size"]
        mal = any(s["k"] == "fl" and s["a"] > s["b"] for s in specs)
        uns = any((s["b"] == 0 or s["b"] > size) if s["k"] == "suf" else s["a"] >= size for s in specs)
        if mal and uns and t["events"][0]["outcome"] in ("400", "416"):
            continue
        ctx.violation({"header": t["header"], "size": size}, "the end state of Range.tla on this input", t["events"][0],
                      "recorded parse_range result is not what the specification computes")
    ctx.sample({"random_header": traces[0]["header"][:120], "size": traces[0]["size"], "observed": traces[0]["events"][0]})

    # ---- arbitrary text: outcome class and canonical form only
    alphabet = "0123456789-,= \tbytesBX;\u00e9"
    M = 3000 if ctx.tier == "quick" else 30000
    for i in range(M):
        r = rnd.random()
        if r < 0.5:
            text = "".join(rnd.choice(alphabet) for _ in range(rnd.randint(0, 14)))
        elif r < 0.9:
            text = "bytes=" + "".join(rnd.choice("0123456789-,, ") for _ in range(rnd.randint(0, 12)))
        else:
            text = rnd.choice(["", "bytes", "bytes=", "=", "bytes=-", "bytes=--1", "items=0-1", "bytes=0-1=2", "bytes=" + "9" * 5000 + "-",
                               "bytes=0-" + "9" * 5000, "bytes=-" + "9" * 5000, "bytes=1-2-3", "bytes=\u0663-\u0664"])
        size = rnd.choice([0, 1, 5, 100])
        out, result = call(text, size)
        ctx.count()
        if out == "ok":
            bad = canonical_bad(result, size)
            if bad:
                ctx.violation({"header": text, "size": size}, "canonical ranges or 400/416", {"outcome": out, "result": result},
                              "arbitrary text: result is not canonical: " + bad)
            else:
                ctx.nontriv(("text", text, size))
        elif out not in ("400", "416"):
            ctx.violation({"header": text[:80], "size": size}, "ok / 400 / 416", {"outcome": out},
                          "parse_range raised %s on arbitrary text" % out)


if __name__ == "__main__":
    sys.exit(common.main("C03", run))
