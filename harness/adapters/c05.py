"""C05 - every response obeys the server-gateway protocol.

spec/HttpProtocol.tla: the ASGI and WSGI recognisers, and an emitter composed with fault injection
(send failure at the n-th call, client disconnect, producer exception, server-side close()).
TLC checks LegalPrefix / LegalComplete on the model; every (shape, fault) behaviour is forced onto
real responses; every execution's raw emissions are recorded and validated, event by event, by TLC
against TraceHttpProtocol.tla.
"""
import shutil
import sys

from .. import tlc, graph, common, servers, recipes, protocol, tracecheck

CONSTS = {"quick": dict(MaxBodies=2), "thorough": dict(MaxBodies=3)}


def unexpected_exception(ctx, res, case):
    """no fault was injected: the call must not raise (an HTTPException is the framework's way to answer and is left to the caller)"""
    from baize.exceptions import HTTPException
    if isinstance(res.exc, servers.Livelock):
        ctx.violation(case, "the call returns", str(res.exc), "%s never returns after the client has gone (busy loop on receive)" % case["recipe"])
    elif res.exc is not None and not isinstance(res.exc, HTTPException) and not case.get("fault"):
        ctx.violation(case, "a complete response", type(res.exc).__name__ + ": " + str(res.exc)[:120],
                      "%s raised %s although nothing failed" % (case["recipe"], type(res.exc).__name__))


def make_trace(iface, res, ended, case, zerocopy=False):
    if iface == "wsgi":
        evs, why = protocol.wsgi_events(res)
    else:
        evs, why = protocol.asgi_events(res, zerocopy)
    return {"iface": iface, "ended": ended, "events": evs, "case": case, "why": why}


def denial(inner, with_ext=True, closes=None):
    """WebsocketDenialResponse(inner) behind an adapter that lets the http harness server drive it: the scope becomes a websocket
    scope (with or without the denial extension), websocket.http.response.* events are renamed back for the recogniser,
    websocket.close events are counted, anything else passes through unchanged (and is then not a legal event)"""
    from baize.asgi.websocket import WebsocketDenialResponse
    d = WebsocketDenialResponse(inner)

    async def app(scope, receive, send):
        s2 = dict(scope, type="websocket", extensions={"websocket.http.response": {}} if with_ext else {})
        s2.pop("method", None)       # a websocket scope has no method
        s2["subprotocols"] = []

        async def r2():
            m = await receive()
            if m["type"] == "http.disconnect":
                return {"type": "websocket.disconnect", "code": 1006}
            if m["type"] == "http.request":
                return {"type": "websocket.connect"}
            return m

        async def s3(m):
            t = m.get("type", "")
            if t.startswith("websocket.http.response."):
                m = dict(m, type="http.response." + t.rsplit(".", 1)[1])
            elif t.startswith("http."):
                m = dict(m, type="not-a-websocket-event:" + t)      # an http event on a websocket scope is not what the extension defines
            elif t == "websocket.close" and closes is not None:
                closes.append(dict(m))
                return
            await send(m)
        await d(s2, r2, s3)
    return app


def execute(iface, app, req, fault=None, zerocopy=False):
    """run with an optional fault; returns (result, ended)"""
    kind, at = fault if fault else ("none", 0)
    if iface == "wsgi":
        ca = at if kind == "close" else None
        r = servers.wsgi_call(app, req, close_after=ca)
        ended = "raised" if r.exc is not None else ("closed" if r.stopped_early else "returned")
        return r, ended
    ext = {"http.response.zerocopysend": {}} if zerocopy else None
    r = servers.asgi_call(app, req, extensions=ext, send_fail_at=at if kind == "sendfail" and at >= 1 else None,
                          disconnect_after_sends=at if kind == "disconnect" else None)
    return r, "raised" if r.exc is not None else "returned"


def run(ctx):
    K = CONSTS[ctx.tier]
    ctx.bounds = dict(K)
    ctx.rule = ("(response shape, fault kind, fault point) behaviours of HttpProtocol.tla forced onto real responses, plus every "
                "recipe x request variant x interface; each execution's raw emissions validated by TLC against the recogniser; "
                "non-trivial = executions with a fault injected, a range error path, a non-ASCII header source, or zero-copy")
    ctx.assumptions = ["a failing send() raises and the server sends nothing more on its own",
                       "servers.py delivers http.disconnect only when the harness decides to"]
    wd = tlc.workdir_for("c05")
    tlc.sany(wd + "/HttpProtocol.tla")
    cfg = ["SPECIFICATION Spec", "CHECK_DEADLOCK FALSE", "INVARIANT LegalPrefix", "INVARIANT LegalComplete"]
    tlc.write_mc(wd, "MC_HttpProtocol", "HttpProtocol", constants=K, cfg_lines=cfg)
    res = tlc.run_tlc(wd, "MC_HttpProtocol", dump=True)
    ctx.add_tlc("HttpProtocol", res, K)
    if res.violated:
        raise common.MachineryError("HttpProtocol.tla: " + tlc.describe(res))
    tlc.check_coverage(res, ["EmitStart", "EmitBody", "EmitFinal"])
    g = graph.Graph.load(res.dot)
    env = recipes.Env(tlc.scratch())
    R = recipes.response_recipes()
    traces = []
    try:
        # ---- spec -> code: each terminal state is a (shape, fault) scenario
        for nid in g.terminal():
            st = g.state(nid)
            iface, plan, fault = st["iface"], st["plan"], (st["fault"]["kind"], st["fault"]["at"])
            exp_bodies = len([e for e in st["sent"] if e["k"] != "start"])
            for name, build, pieces in R:
                if pieces != plan:
                    continue
                if fault[0] == "producer" and not name.startswith(("Stream(", "SSE(")):
                    continue
                if fault[0] == "producer":
                    k = plan
                    chunks = [b"c%d" % j for j in range(k)]
                    if name.startswith("SSE"):
                        chunks = [{"data": "d%d" % j} for j in range(k)]
                        app = recipes.pkg(iface).SendEventResponse(recipes.stream(iface, chunks, raise_at=fault[1] - 1), ping_interval=30)
                    else:
                        app = recipes.pkg(iface).StreamResponse(recipes.stream(iface, chunks, raise_at=fault[1] - 1))
                    if fault[1] < 1 or fault[1] > k + 1:
                        continue
                else:
                    try:
                        app = build(iface, env)
                    except Exception:  # constructor refuses (noted below): not a protocol matter
                        continue
                req = servers.Req()
                r, ended = execute(iface, app, req, fault if fault[0] != "producer" else None)
                case = {"recipe": name, "iface": iface, "fault": list(fault)}
                t = make_trace(iface, r, ended, case)
                traces.append(t)
                ctx.count()
                if fault[0] != "none":
                    ctx.nontriv((name, iface, fault))
                got_bodies = len([e for e in t["events"] if e["k"] != "start"])
                # mechanism level: same number of pieces and same way of ending as the emitter model
                model_end = st["ended"]
                if iface == "wsgi":
                    # a plain Response returns a tuple (one item), generators yield pieces; the model counts pieces
                    pass
                elif fault[0] == "disconnect":
                    if ended != model_end:   # how many pieces slip out before the watcher task runs is C06's subject
                        ctx.drift_at(case, {"ended": model_end}, {"ended": ended, "exc": repr(r.exc)}, "ending differs from the emitter model")
                elif (got_bodies, ended) != (exp_bodies, model_end):
                    ctx.drift_at(case, {"bodies": exp_bodies, "ended": model_end}, {"bodies": got_bodies, "ended": ended,
                                 "exc": repr(r.exc)}, "emission differs from the emitter model")
        # ---- all recipes x request variants, no fault; file responses also with send failures
        for name, build, pieces in R:
            for method, hdrs in recipes.REQUEST_VARIANTS:
                if hdrs and not name.startswith("File"):
                    continue
                for iface, zc in (("wsgi", False), ("asgi", False), ("asgi", True)):
                    if zc and not name.startswith("File"):
                        continue
                    faults = [None]
                    if name.startswith("File") and iface == "asgi":
                        faults += [("sendfail", n) for n in (1, 2, 3, 4)]
                    if name.startswith("File") and iface == "wsgi":
                        faults += [("close", n) for n in (0, 1, 2)]
                    for fault in faults:
                        case = {"recipe": name, "iface": iface, "zerocopy": zc, "method": method, "headers": hdrs,
                                "fault": list(fault) if fault else None}
                        try:
                            app = build(iface, env)
                        except Exception as e:  # constructor refuses: not a protocol matter - unless it is an existing file that is refused
                            if name.startswith("File"):
                                ctx.violation(case, "a response for an existing file", type(e).__name__ + ": " + str(e)[:120],
                                              "%s cannot be constructed (%s): the file cannot be served" % (name, type(e).__name__))
                            else:
                                ctx.notes.append("recipe %s cannot be built: %r" % (name, e))
                            continue
                        r, ended = execute(iface, app, servers.Req(method=method, headers=hdrs), fault, zc)
                        unexpected_exception(ctx, r, case)
                        traces.append(make_trace(iface, r, ended, case, zc))
                        ctx.count()
                        if fault or hdrs or zc or "non-ascii" in name or "latin-1" in name:
                            ctx.nontriv((name, iface, zc, method, str(hdrs), str(fault)))
        # ---- WebSocket denial: every recipe sent as the HTTP answer to a websocket handshake (ASGI extension), and without the extension
        for name, build, pieces in R:
            try:
                build("asgi", env)
            except Exception:  # constructor refuses (already noted above): not a protocol matter
                continue
            for fault in (None, ("sendfail", 1), ("sendfail", 2), ("disconnect", 1)):
                case = {"recipe": "WebsocketDenialResponse(%s)" % name, "iface": "asgi", "zerocopy": False, "method": "GET", "headers": [],
                        "fault": list(fault) if fault else None}
                closes = []
                r, ended = execute("asgi", denial(build("asgi", env), True, closes), servers.Req(), fault, False)
                unexpected_exception(ctx, r, case)
                traces.append(make_trace("asgi", r, ended, case, False))
                ctx.count()
                if closes:
                    ctx.violation(case, "only websocket.http.response.* events", closes, "denial response also sent websocket.close")
                ctx.nontriv(("denial", name, str(fault)))
            closes = []
            r, ended = execute("asgi", denial(build("asgi", env), False, closes), servers.Req(), None, False)
            ctx.count()
            if r.events or len(closes) != 1 or r.exc is not None:
                ctx.violation({"recipe": "WebsocketDenialResponse(%s) without the extension" % name}, "exactly one websocket.close",
                              {"closes": closes, "other": [m.get("type") for m in r.events], "exc": repr(r.exc)},
                              "denial without the extension must answer with exactly one websocket.close")
        # ---- the static-file applications with a not-found handler; fault: the file is removed at the moment the response starts
        #      (between the application's stat() and the response's open()): whatever happens then, one response at most
        import os
        import baize.wsgi as W
        import baize.asgi as A
        sdir = os.path.join(env.dir, "static5")
        os.makedirs(os.path.join(sdir, "d"), exist_ok=True)
        for iface, pkg in (("wsgi", W), ("asgi", A)):
            for appname in ("Files", "Pages"):
                for path, vanish in (("/f.txt", False), ("/f.txt", True), ("/missing", False), ("/d", False), ("/d/", False), ("/p", True)):
                    for method in ("GET", "HEAD"):
                        for fn in ("f.txt", "p.html", "d/index.html"):
                            with open(os.path.join(sdir, fn), "wb") as f:
                                f.write(b"static content " * 300)
                        app = getattr(pkg, appname)(sdir, handle_404=pkg.PlainTextResponse("nothing here", 404))
                        target = os.path.join(sdir, "f.txt" if path == "/f.txt" else "p.html")
                        hook = (lambda t=target: os.path.exists(t) and os.unlink(t)) if vanish else None
                        req = servers.Req(method=method, path=path, headers=[("Host", "testserver")])
                        if iface == "wsgi":
                            r = servers.wsgi_call(app, req, on_start=hook)
                            ended = "raised" if r.exc is not None else "returned"
                        else:
                            r = servers.asgi_call(app, req, on_start=hook)
                            ended = "raised" if r.exc is not None else "returned"
                        case = {"recipe": "%s(dir, handle_404=...) %s %s%s" % (appname, method, path, ", file removed when the response starts" if vanish else ""),
                                "iface": iface, "fault": ["vanish", 1] if vanish else None}
                        if not vanish:
                            unexpected_exception(ctx, r, case)
                        traces.append(make_trace(iface, r, ended, case))
                        ctx.count()
                        ctx.nontriv(("static", iface, appname, path, vanish, method))
    finally:
        shutil.rmtree(env.dir, True)

    # ---- code -> spec: TLC judges every recorded sequence
    tr = [{"iface": t["iface"], "ended": t["ended"], "events": t["events"]} for t in traces]
    acc, rejected = tracecheck.validate(wd, "TraceHttpProtocol", tr, constants={"MaxBodies": 0}, extra_steps=1)
    ctx.traces_validated += acc
    for tid, prefix in rejected:
        t = traces[tid]
        q, pos = protocol.run_recogniser(t["iface"], t["events"])
        if prefix < len(t["events"]):
            what = "%s emission is not a legal %s sequence at event %d (%s)" % (
                t["case"]["recipe"], t["iface"].upper(), prefix + 1, "; ".join(t["why"][:2]) or t["events"][prefix]["k"])
        else:
            what = "%s returned normally but its %s sequence is incomplete (ends in state %s)" % (
                t["case"]["recipe"], t["iface"].upper(), q)
        ctx.violation(t["case"], "a legal %s sequence" % t["iface"], {"events": t["events"], "ended": t["ended"], "why": t["why"]}, what)
    for t in traces[:2] + traces[-2:]:
        ctx.sample({"case": t["case"], "ended": t["ended"], "events": [e["k"] + ("+" if e["more"] else "") for e in t["events"]]})


if __name__ == "__main__":
    sys.exit(common.main("C05", run))
