"""C10 - the request body is read once, completely, and consistently cached.

spec/RequestBody.tla: user tasks and the three shared computations (body/json/form futures of
cached_property) as entities stepping from suspension point to suspension point, under EVERY
interleaving; TLC checks OnceOnly, BodyExact, CacheStable, ErrorsDocumented.  For each scenario the
model yields the set of admissible outcome vectors; the real Request (ASGI under the virtual-time
loop with several task orders and message timings; WSGI sequentially) must produce one of them, and
the statement's value/identity clauses are evaluated on what the accessors returned.
"""
import asyncio
import itertools
import json
import sys

from .. import tlc, graph, common, servers, vloop
from ..tlaval import Rec

OPS = ("body", "stream", "json", "form", "close")
BODIES = {
    "json": (b'{"k": [1, 2, "\xc3\xa9"], ', b'"z": null}', "application/json"),
    "urlencoded": (b"a=1&b=%C3%A9", b"&a=2", "application/x-www-form-urlencoded"),
    "multipart": (b'--BB\r\nContent-Disposition: form-data; name="f"\r\n\r\nva', b'lue\r\n--BB\r\nContent-Disposition: form-data; '
                  b'name="u"; filename="x.bin"\r\n\r\n\x00\x01\r\n--BB--\r\n', "multipart/form-data; boundary=BB"),
}


def scenarios(tier):
    out = []
    progs1 = [p for n in (1, 2, 3) for p in itertools.product(OPS, repeat=n)]
    if tier == "quick":
        progs1 = [p for p in progs1 if len(p) <= 2] + [("body", "stream", "body"), ("stream", "body", "json"), ("form", "body", "stream"),
                                                         ("json", "json", "body"), ("form", "close", "form")]
    pairs = [(a, b) for a in [("body",), ("stream",), ("json",), ("form",), ("body", "stream"), ("stream", "body"), ("json", "body")]
             for b in [("body",), ("stream",), ("json",), ("form",), ("body", "body")]]
    for ctype in ("json", "urlencoded", "multipart"):
        for nch in (1, 2):
            for disc in (0, 1, 2):
                if disc > nch:
                    continue
                for p in progs1:
                    out.append(dict(nchunks=nch, discAt=disc, ctype=ctype, progs=(p,), atomic=False))
                    if disc == 0:
                        out.append(dict(nchunks=nch, discAt=0, ctype=ctype, progs=(p,), atomic=True))
                for a, b in pairs:
                    if tier == "quick" and ctype == "multipart" and disc == 1 and nch == 2:
                        continue
                    out.append(dict(nchunks=nch, discAt=disc, ctype=ctype, progs=(a, b), atomic=False))
        if tier == "thorough":
            for disc in (0, 2):
                for a, b, c3 in itertools.product([("body",), ("stream",), ("json",), ("form",)], repeat=3):
                    out.append(dict(nchunks=2, discAt=disc, ctype=ctype, progs=(a, b, c3), atomic=False))
    return out


def chunks_of(sc):
    a, b, _ = BODIES[sc["ctype"]]
    return [a + b] if sc["nchunks"] == 1 else [a, b]


def classify(exc):
    from baize.exceptions import HTTPException
    from baize.asgi import ClientDisconnect
    if isinstance(exc, ClientDisconnect):
        return "ClientDisconnect"
    if isinstance(exc, HTTPException):
        return "HTTPError"
    if isinstance(exc, RuntimeError) and "onsumed" in str(exc):
        return "RuntimeError"
    return type(exc).__name__


async def play_asgi(sc, order, timing):
    """run the scenario's programs as concurrent tasks; returns (results per task, values, receive calls)"""
    from baize.asgi import Request
    full = b"".join(chunks_of(sc))
    msgs = []
    ch = chunks_of(sc)
    for i, c in enumerate(ch, 1):
        if sc["discAt"] == i:
            msgs.append({"type": "http.disconnect"})
            break
        msgs.append({"type": "http.request", "body": c, "more_body": i < len(ch)})
        if i == len(ch) and timing in ("sleep0", "late"):
            del msgs[-1]["more_body"]        # optional in ASGI, default False
    calls = [0]
    returned = [0]
    events = []
    play_asgi.last_events = events

    async def receive():
        calls[0] += 1
        k = calls[0]
        if timing == "sleep0":
            await asyncio.sleep(0)
        elif timing == "tick":
            await asyncio.sleep(1)
        elif timing == "late" and k == 1:
            await asyncio.sleep(2)
        if not msgs:
            await asyncio.Event().wait()
        returned[0] += 1
        return msgs.pop(0)

    scope = {"type": "http", "method": "POST", "path": "/", "query_string": b"", "headers": [(b"content-type", BODIES[sc["ctype"]][2].encode())]}
    req = Request(scope, receive)
    results = {t: [] for t in range(len(sc["progs"]))}
    values = {t: [] for t in range(len(sc["progs"]))}

    async def task(t, prog):
        for op in prog:
            try:
                if op == "body":
                    v = await req.body
                elif op == "json":
                    v = await req.json
                elif op == "form":
                    v = await req.form
                elif op == "stream":
                    v = b"".join([c async for c in req.stream()])
                else:
                    v = await req.close()
                results[t].append("ok")
                values[t].append(v)
            except BaseException as e:  # noqa
                results[t].append(classify(e))
                values[t].append(None)
            events.append({"t": t + 1, "r": results[t][-1], "rx": returned[0]})

    ts = [asyncio.ensure_future(task(t, sc["progs"][t])) for t in order]
    await asyncio.wait_for(asyncio.gather(*ts), 100)
    return results, values, calls[0], full


def play_wsgi(sc, deliver=None, extra=b""):
    """deliver: the pieces wsgi.input really holds (None: the whole body); extra: bytes of a following request on the same connection"""
    from baize.wsgi import Request
    full = b"".join(chunks_of(sc))
    pieces = chunks_of(sc) if deliver is None else deliver
    r = servers.Req(method="POST", headers=[("Content-Type", BODIES[sc["ctype"]][2]), ("Content-Length", str(len(full)))],
                    chunks=list(pieces) + ([extra] if extra else []))
    env = servers.make_environ(r)
    play_wsgi.last_input = env["wsgi.input"]
    req = Request(env)
    res, vals = [], []
    for op in sc["progs"][0]:
        try:
            if op == "body":
                v = req.body
            elif op == "json":
                v = req.json
            elif op == "form":
                v = req.form
            elif op == "stream":
                v = b"".join(req.stream(chunk_size=7))
            else:
                v = req.close()
            res.append("ok")
            vals.append(v)
        except BaseException as e:  # noqa
            res.append(classify(e) if not isinstance(e, RuntimeError) else ("RuntimeError" if "onsumed" in str(e) else "RuntimeError?"))
            vals.append(None)
    return {0: res}, {0: vals}, None, full


def value_clauses(sc, results, values, full):
    """what the accessors returned: exact body, parsed values, identical cached objects, replay"""
    bad = []
    seen = {}
    want_json = json.loads(full.decode()) if sc["ctype"] == "json" else None
    for t, prog in enumerate(sc["progs"]):
        for k, op in enumerate(prog):
            if results[t][k] != "ok":
                continue
            v = values[t][k]
            if op in ("body", "stream") and v != full:
                bad.append("%s returned %d bytes, the request body has %d" % (op, len(v) if v is not None else -1, len(full)))
            if op == "json" and v != want_json:
                bad.append("json returned %r" % (v,))
            if op == "form":
                items = [(a, b if isinstance(b, str) else "<file>") for a, b in v.multi_items()]
                want = [("a", "1"), ("b", "é"), ("a", "2")] if sc["ctype"] == "urlencoded" else [("f", "value"), ("u", "<file>")]
                if items != want:
                    bad.append("form returned %r" % (items,))
            if op in ("body", "json", "form"):
                if op in seen and seen[op] is not v:
                    bad.append("repeated access to .%s returned a different object" % op)
                seen[op] = v
    return bad


def empty_bodies(ctx):
    """the empty body (no chunk at all, or only empty messages): b"" is a body like any other - cached, replayed, consumed once"""
    import baize.wsgi as W
    import baize.asgi as A
    seqs = [p for n in (1, 2, 3) for p in itertools.product(("body", "stream"), repeat=n)]
    for iface in ("wsgi", "asgi"):
        for variant in ("content-length 0", "no content-length", "two empty messages"):
            if iface == "wsgi" and variant == "two empty messages":
                continue
            for prog in seqs:
                if iface == "wsgi":
                    hs = [("Content-Length", "0")] if variant == "content-length 0" else []
                    req = W.Request(servers.make_environ(servers.Req(method="POST", headers=hs, chunks=[])))
                    do = {"body": lambda: req.body, "stream": lambda: b"".join(req.stream())}
                else:
                    msgs = [{"type": "http.request", "body": b"", "more_body": True}, {"type": "http.request", "body": b""}] \
                        if variant == "two empty messages" else [{"type": "http.request"}]
                    hs = [("Content-Length", "0")] if variant == "content-length 0" else []

                    async def receive(msgs=msgs):
                        return msgs.pop(0) if msgs else {"type": "http.disconnect"}
                    req = A.Request(servers.make_scope(servers.Req(method="POST", headers=hs)), receive, None)

                    async def abody():
                        return await req.body

                    async def astream():
                        return b"".join([c async for c in req.stream()])
                    do = {"body": lambda: servers.loop().run_until_complete(abody()), "stream": lambda: servers.loop().run_until_complete(astream())}
                got = []
                for op in prog:
                    try:
                        got.append(do[op]())
                    except BaseException as e:  # noqa
                        got.append(classify(e))
                # the documented behaviour, as for any other body
                want, streamed, cached = [], False, False
                for op in prog:
                    if op == "body":
                        want.append("RuntimeError" if (streamed and not cached) else b"")
                        cached = cached or not streamed
                    else:
                        want.append(b"" if (cached or not streamed) else "RuntimeError")
                        streamed = True
                ctx.count()
                if got != want:
                    ctx.violation({"iface": iface, "empty_body": variant, "accesses": list(prog)}, [w if isinstance(w, str) else "b''" for w in want],
                                  [g if isinstance(g, str) else repr(g) for g in got], "the empty request body is not cached / replayed / consumed like any other body")
                ctx.nontriv(("empty", iface, variant, prog))


def run(ctx):
    scs = scenarios(ctx.tier)
    ctx.bounds = {"scenarios": len(scs)}
    ctx.rule = ("every scenario (chunking, disconnect position, content type, programs of 1-3 tasks) of RequestBody.tla run on the "
                "real Request: ASGI under virtual time with every task start order x 4 message timings, WSGI sequentially; the "
                "outcome vector must be admissible in the model; non-trivial = scenarios with >= 2 tasks, a disconnect, or a "
                "stream/body mix")
    ctx.assumptions = ["valid JSON / form bodies (malformed bodies belong to C12)", "receive() is only used by the request object"]
    wd = tlc.workdir_for("c10")
    tlc.sany(wd + "/RequestBody.tla")
    K = {"Scenarios": frozenset(Rec(s) for s in scs)}
    cfg = ["SPECIFICATION Spec", "CHECK_DEADLOCK FALSE", "INVARIANT OnceOnly", "INVARIANT BodyExact", "INVARIANT ErrorsDocumented",
           "PROPERTY CacheStable"]
    tlc.write_mc(wd, "MC_RequestBody", "RequestBody", constants=K, cfg_lines=cfg)
    res = tlc.run_tlc(wd, "MC_RequestBody", dump=True, heap="8g")
    ctx.add_tlc("RequestBody", res, ctx.bounds)
    if res.violated:
        raise common.MachineryError("RequestBody.tla: " + tlc.describe(res))
    tlc.check_coverage(res, ["Deliver", "FutStart", "FutMsg", "FutBody", "Next"])   # the task steps are labelled Next (quantified over a state-dependent set)
    g = graph.Graph.load(res.dot)
    allowed = {}
    for nid in g.terminal():
        st = g.state(nid)
        key = st["sc"]
        if any(tk["st"] != "done" for tk in st["tk"].values()) if isinstance(st["tk"], dict) else any(x["st"] != "done" for x in st["tk"]):
            # a terminal state with a task still waiting: only legal when the script ended without a final message
            pass
        tks = st["tk"]
        seq = [tks[i] for i in sorted(tks)] if isinstance(tks, dict) else list(tks)
        outcome = (tuple(tuple(x["res"]) for x in seq), st["rx"])
        allowed.setdefault(key, set()).add(outcome)
    n = 0
    asgi_traces = []
    for sc in scs:
        key = Rec(sc)
        if key not in allowed:
            raise common.MachineryError("scenario without terminal state in the model: %r" % (sc,))
        runs = []
        if sc["atomic"]:
            runs.append(("wsgi", None, None))
        else:
            orders = list(itertools.permutations(range(len(sc["progs"]))))
            for order in orders:
                for timing in ("immediate", "sleep0", "tick", "late"):
                    runs.append(("asgi", order, timing))
        for iface, order, timing in runs:
            case = {"iface": iface, "ctype": sc["ctype"], "chunks": sc["nchunks"], "disconnect_at": sc["discAt"],
                    "programs": [list(p) for p in sc["progs"]], "start_order": order, "timing": timing}
            try:
                if iface == "wsgi":
                    results, values, calls, full = play_wsgi(sc)
                else:
                    results, values, calls, full = vloop.run(play_asgi(sc, order, timing))
                    asgi_traces.append({"sc": {"nchunks": sc["nchunks"], "discAt": sc["discAt"], "ctype": sc["ctype"], "atomic": False,
                                               "progs": [list(p) for p in sc["progs"]]}, "events": list(play_asgi.last_events), "case": case})
            except (asyncio.TimeoutError, vloop.Deadlock) as e:
                ctx.violation(case, "all tasks finish", type(e).__name__, "an accessor never returned")
                continue
            n += 1
            ctx.count()
            ctx.traces_validated += 1
            vec = tuple(tuple(results[t]) for t in range(len(sc["progs"])))
            ok_vecs = {o[0] for o in allowed[key]}
            obs = {"results": [list(v) for v in vec], "receive_calls": calls}
            nm = (sc["discAt"] if sc["discAt"] else sc["nchunks"])
            if calls is not None and calls > nm:
                ctx.violation(case, "at most %d receive() calls" % nm, obs, "a server message was requested after the final one / read twice")
            elif vec not in ok_vecs:
                flat = [r for v in vec for r in v]
                if any(r not in ("ok", "RuntimeError", "ClientDisconnect", "HTTPError") for r in flat):
                    what = "an accessor raised %s" % [r for r in flat if r not in ("ok", "RuntimeError", "ClientDisconnect", "HTTPError")][0]
                else:
                    what = "outcome of the accesses is not admissible in RequestBody.tla"
                ctx.violation(case, {"admissible": [[list(x) for x in o] for o in sorted(ok_vecs)][:6]}, obs, what)
            else:
                bad = value_clauses(sc, results, values, full)
                if bad:
                    ctx.violation(case, "exact body / identical cached objects", obs, bad[0], {"failed_clauses": bad})
            if len(sc["progs"]) > 1 or sc["discAt"] or ("stream" in sc["progs"][0] and len(sc["progs"][0]) > 1):
                ctx.nontriv((iface, str(order), timing) + tuple(sorted((k, str(v)) for k, v in sc.items())))
            if n in (10, 2000):
                ctx.sample({"case": case, "observed": obs, "admissible": len(ok_vecs)})
    # code -> spec: the ORDER in which the accesses of concurrent tasks finished, and the number of server messages consumed at each
    # of those moments, must be explained by some interleaving of RequestBody.tla (silent steps: deliveries, the shared computations)
    from .. import tracecheck
    acc, rejected = tracecheck.validate(wd, "TraceRequestBody", [{"sc": t["sc"], "events": t["events"]} for t in asgi_traces],
                                        constants={"Scenarios": frozenset()}, invariants=["OnceOnly", "BodyExact", "ErrorsDocumented"])
    ctx.traces_validated += acc
    ctx.bounds["asgi_traces"] = len(asgi_traces)
    inv_failures = list(tracecheck.validate.last_invariant_failures)
    # binding self-test: the same traces with one field falsified (a message count, a result, the finishing task) must be rejected
    import copy
    probe = [copy.deepcopy({"sc": t["sc"], "events": t["events"]}) for t in asgi_traces if len(t["events"]) >= 2 and len(t["sc"]["progs"]) >= 2][:30]
    for i, t in enumerate(probe):
        e = t["events"][-1]
        if i % 3 == 0:
            e["rx"] += 1
        elif i % 3 == 1:
            e["r"] = "ok" if e["r"] != "ok" else "ClientDisconnect"
        else:
            t["events"] = [t["events"][-1]] * (len(t["events"]) + 1)       # one task finishing more accesses than its program has
    if probe and ctx.conforming() and not rejected and not inv_failures:
        pacc, prej = tracecheck.validate(wd, "TraceRequestBody", probe, constants={"Scenarios": frozenset()})
        # (a falsified trace can happen to be another legal interleaving; most cannot)
        if pacc > len(probe) // 5:
            raise common.MachineryError("trace validation accepted %d of %d falsified traces: TraceRequestBody.tla does not bind" % (pacc, len(probe)))
        ctx.notes.append("binding self-test: %d falsified traces (message count / result / finishing task), %d rejected" % (len(probe), len(probe) - pacc))
    for tid, name, st in inv_failures:
        ctx.violation(asgi_traces[tid]["case"], "invariant " + name, None, "recorded execution reaches a state violating %s of RequestBody.tla" % name)
    for tid, prefix in rejected:
        t = asgi_traces[tid]
        ctx.drift_at(t["case"], "an interleaving of RequestBody.tla", t["events"][:prefix + 1][-4:],
                     "the order of finished accesses / consumed messages is not explained by RequestBody.tla at event %d" % (prefix + 1))
    # WSGI has no disconnect event: a client that goes away shows as wsgi.input ending before CONTENT_LENGTH bytes were read,
    # and a connection that is kept open holds more than CONTENT_LENGTH bytes.  Neither may change what the accessors return.
    for sc in scs:
        if len(sc["progs"]) != 1 or sc["atomic"]:
            continue
        full = b"".join(chunks_of(sc))
        cases = []
        if sc["discAt"]:
            cases.append(("input ends early", chunks_of(sc)[:sc["discAt"] - 1] + ([] if sc["discAt"] > 1 else []), b""))
            cases.append(("input ends inside the last piece", [full[:len(full) - 3]], b""))
        else:
            cases.append(("connection holds a following request", None, b"GET /next HTTP/1.1\r\n\r\n"))
        for label, deliver, extra in cases:
            results, values, _, _ = play_wsgi(sc, deliver, extra)
            ctx.count()
            case = {"iface": "wsgi", "ctype": sc["ctype"], "program": list(sc["progs"][0]), "input": label,
                    "content_length": len(full), "bytes_available": len(b"".join(deliver)) if deliver is not None else len(full) + len(extra)}
            bad = None
            for op, res, v in zip(sc["progs"][0], results[0], values[0]):
                if res == "ok" and op in ("body", "stream") and v != full:
                    bad = "%s returned %d bytes for a request body of %d bytes (%s)" % (op, len(v), len(full), label)
                elif res == "ok" and op in ("json", "form") and deliver is not None:
                    bad = "%s returned a value parsed from a truncated body" % op
                elif res not in ("ok", "HTTPError", "RuntimeError"):
                    bad = "an accessor raised %s" % res
            if extra and not bad:
                inp = play_wsgi.last_input
                left = inp.rest + b"".join(inp.chunks)
                if any(op in ("body", "stream", "json", "form") for op in sc["progs"][0]) and not left.endswith(extra):
                    bad = "the request object read beyond CONTENT_LENGTH into the following request"
            if bad:
                ctx.violation(case, "the whole body or an error, nothing beyond CONTENT_LENGTH", {"results": results[0]}, bad)
            ctx.nontriv(("wsgi-len", label) + tuple(sorted((k, str(v)) for k, v in sc.items())))
    empty_bodies(ctx)
    ctx.exhaustive = True


if __name__ == "__main__":
    sys.exit(common.main("C10", run))
