"""C06 - streaming responses always terminate and release the producer.

WSGI: spec/SseWsgi.tla (relay thread, consumer generator, server; one-slot queue, stop flag, future)
is model checked (NoStuck, ClosedOnce, NoLeak, Delivered, RaisedIsReported; liveness Terminates under
fairness); every transition of its state graph is forced onto the real SendEventResponse with the
cooperative scheduler of harness/sched.py; after each replayed schedule the run is completed fairly
and the statement's clauses are evaluated on what the real threads did.  The pre-repair finally
block (Fixed=FALSE) is kept as a witness: TLC must find its deadlock.

ASGI: spec/StreamAsgi.tla (tick-based model of the streaming loop, watcher, relay task and ping
timer) enumerates timing configurations; each is run on the real classes under the virtual-time
loop of harness/vloop.py and its observed trace is checked against the model's bounds.
"""
import sys
import threading

from .. import tlc, graph, common, sched, servers
from . import c06_asgi

WSGI_INV = ["NoStuck", "ClosedOnce", "NoLeak", "Delivered", "RaisedIsReported"]
WSGI_ACTIONS = ["RelayStart", "RelayYield", "RelayPut", "RelayExhausted", "RelayRaise", "RelayPutNone", "RelayClose", "SrvFirstNext",
                "SrvNext", "ConsGet", "ConsTimeout", "SrvClose", "ConsDrain", "ConsJoin"]


class ProducerError(Exception):
    pass


class WsgiRun:
    """a real SendEventResponse whose threads move only when granted"""

    def __init__(self, n, raise_at, cleanup_raises=False):
        import baize.wsgi.responses as R
        self.R = R
        self.s = s = sched.Sched()
        self.saved_queue = R.queue
        R.queue = sched.make_queue_module(s)
        self.n, self.raise_at = n, raise_at
        self.log = []
        self.yields = 0
        self.yields_at_close = None     # how far the producer was when the server asked to close
        self.out = []
        self.results = []
        self.started_iter = False
        run = self

        def gen():
            try:
                for i in range(1, n + 1):
                    if raise_at == i:
                        s.point("raise")
                        raise ProducerError("producer failed at %d" % i)
                    s.point(("yield", i))
                    run.yields += 1
                    yield {"data": str(i)}
                s.point("exhausted")
            except GeneratorExit:
                run.log.append("closed")
                if cleanup_raises:
                    raise ProducerError("cleanup failed")
                raise
            except BaseException:
                run.log.append("closed")
                raise
            else:
                run.log.append("closed")

        class Iterable:
            """the user's iterable: iterating gives the generator, close() is a control point"""

            def __init__(self):
                self.g = gen()

            def __iter__(self):
                return self.g

            def close(self):
                s.point("closing")
                self.g.close()

        self.resp = R.SendEventResponse(Iterable(), ping_interval=3)
        self.pool = sched.Pool(s)
        self.resp.thread_pool = self.pool

        def server():
            s.register("server")
            it = None
            while True:
                c = s.point("server-idle")
                if c in ("next", "close") and it is None:
                    it = iter(run.resp({"REQUEST_METHOD": "GET"}, lambda *a, **k: None))
                if c == "next":
                    run.started_iter = True
                    try:
                        run.out.append(next(it))
                    except StopIteration:
                        run.results.append("exhausted")
                    except ProducerError:
                        run.results.append("raised")
                    except BaseException as e:  # noqa
                        run.results.append("error:" + type(e).__name__)
                elif c == "close":
                    try:
                        it.close()
                        run.results.append("closed")
                    except ProducerError:
                        run.results.append("raised")
                    except BaseException as e:  # noqa
                        run.results.append("error:" + type(e).__name__)
                elif c == "quit":
                    break
            s.finish()

        with s.cv:
            s.status["server"] = ("running",)
        self.thread = threading.Thread(target=server, daemon=True)
        self.thread.start()
        ok, _ = s.wait_quiet()
        if not ok:
            raise common.MachineryError("server thread did not reach its idle point")

    # ---- driving
    GRANT = {"SrvFirstNext": ("server", "next"), "SrvNext": ("server", "next"), "SrvClose": ("server", "close"),
             "ConsGet": ("server", "go"), "ConsDrain": ("server", "go"), "ConsJoin": ("server", "go"),
             "ConsTimeout": ("server", "timeout")}

    def apply(self, action):
        who, dec = self.GRANT.get(action, ("relay", "go"))
        if dec == "close" and self.yields_at_close is None:
            self.yields_at_close = self.yields
        st = self.s.status.get(who)
        if st is None or st[0] != "parked":
            return False
        ok, _ = self.s.step(who, dec)
        return ok

    def queue_items(self):
        if not self.s.queues:
            return []
        return [0 if x is None else int(x["data"]) for x in list(self.s.queues[-1].queue)]

    def observe(self):
        s = self.s
        with s.cv:
            st = dict(s.status)
        fut = self.pool.future
        rel = st.get("relay")
        if rel is None:
            rpc = "none"
        elif rel[0] == "done":
            rpc = "done"
        elif rel[0] == "parked":
            lab = rel[1]
            if lab == "relay-start":
                rpc = "done" if (fut is not None and fut.cancelled()) else "queued"
            elif lab == "exhausted":
                rpc = "atExhausted"
            elif lab == "closing":
                rpc = "atClose"
            elif lab == "raise":
                rpc = "atRaise"
            elif isinstance(lab, tuple) and lab[0] == "yield":
                rpc = "atYield"
            elif isinstance(lab, tuple) and lab[0] in ("put", "blocked-put"):
                rpc = "atPutNone" if lab[1] is None else "atPut"
            else:
                rpc = "?%r" % (lab,)
        else:
            rpc = "running"
        srv = st.get("server")
        if srv[0] == "parked":
            lab = srv[1]
            if lab == "server-idle":
                cpc = "ret" if self.results else ("yielded" if self.started_iter else "unstarted")
            elif lab == "join":
                cpc = "join"
            elif isinstance(lab, tuple) and lab[0] in ("get", "blocked-get"):
                cpc = "get" if lab[1] is not None else "drain"
            else:
                cpc = "?%r" % (lab,)
        else:
            cpc = srv[0]
        delivered = []
        pings = 0
        for b in self.out:
            if b == b": ping\n\n":
                pings += 1
            else:
                try:
                    delivered.append(int(b.split(b"data: ")[1].split(b"\n")[0]))
                except Exception:  # noqa
                    delivered.append(-1)
        outcome = self.results[-1] if self.results else "open"
        return {"rpc": rpc, "cpc": cpc, "delivered": delivered, "pings": pings, "genClosed": len(self.log),
                "produced": self.yields, "outcome": outcome}

    def complete(self, no_relay_start=False):
        """close (if still open) and let every thread that can move, move; returns what went wrong, if anything.
        no_relay_start: every pool worker is busy elsewhere - a relay job that has not started yet never starts"""
        s = self.s
        for _ in range(200):
            with s.cv:
                st = dict(s.status)
            srv, rel = st.get("server"), st.get("relay")
            if srv[0] == "parked" and srv[1] == "server-idle":
                if self.results:
                    break
                if self.yields_at_close is None:
                    self.yields_at_close = self.yields
                if not s.step("server", "close")[0]:
                    return "close() blocked outside any control point (real block)"
                continue
            qitems = self.queue_items()
            moved = False
            if rel is not None and rel[0] == "parked":
                lab = rel[1]
                blocked = isinstance(lab, tuple) and lab[0] in ("put", "blocked-put") and len(qitems) >= 1
                fut = self.pool.future
                if lab == "relay-start" and ((fut is not None and fut.cancelled()) or no_relay_start):
                    blocked = True   # nothing to do for a cancelled job / no worker will ever pick it up
                if not blocked:
                    if not s.step("relay", "go")[0]:
                        return "relay thread blocked outside any control point (real block)"
                    moved = True
            if not moved and srv[0] == "parked":
                lab = srv[1]
                if lab == "join":
                    fut = self.pool.future
                    if fut is not None and fut.done():
                        s.step("server", "go")
                        moved = True
                elif isinstance(lab, tuple) and lab[0] in ("get", "blocked-get"):
                    if qitems:
                        s.step("server", "go")
                        moved = True
                    elif lab[1] is not None:
                        s.step("server", "timeout")
                        moved = True
            if not moved:
                return "deadlock: server parked at %r, relay parked at %r, queue %r - the call never returns" % (
                    srv[1] if len(srv) > 1 else srv, rel[1] if rel and len(rel) > 1 else rel, qitems)
        else:
            return "no termination within 200 scheduling steps"
        return None

    def final_clauses(self):
        bad = []
        o = self.observe()
        if o["outcome"] not in ("closed", "exhausted", "raised"):
            bad.append("server call ended with %s" % o["outcome"])
        if self.raise_at and o["produced"] + 1 >= self.raise_at and o["outcome"] not in ("raised",) and "raise" in self._reached:
            bad.append("the producer's exception was swallowed (outcome %s)" % o["outcome"])
        started = o["produced"] > 0 or self._gen_started
        if self.yields_at_close is not None and o["produced"] > self.yields_at_close + 1:
            bad.append("after close() the producer was advanced by %d more items (at most the step in flight is allowed)" % (o["produced"] - self.yields_at_close))
        if o["genClosed"] > 1:
            bad.append("generator cleanup ran %d times" % o["genClosed"])
        if started and o["genClosed"] != 1:
            bad.append("generator was started but its cleanup ran %d times" % o["genClosed"])
        with self.s.cv:
            rel = self.s.status.get("relay")
        fut = self.pool.future
        if rel is not None and rel[0] != "done" and not (fut is not None and fut.cancelled()):
            bad.append("pool thread still alive / blocked at %r after the call returned" % (rel,))
        d = o["delivered"]
        if d != list(range(1, len(d) + 1)) or len(d) > o["produced"]:
            bad.append("delivered %r is not an in-order, duplicate-free prefix of what was yielded (%d)" % (d, o["produced"]))
        return bad

    def shutdown(self):
        s = self.s
        try:
            with s.cv:
                st = dict(s.status)
            if st.get("server", ("",))[0] == "parked" and st["server"][1] == "server-idle":
                s.step("server", "quit", timeout=2)
            rel = st.get("relay")
            if rel is not None and rel[0] == "parked" and rel[1] == "relay-start":
                s.step("relay", "go", timeout=2)
        finally:
            self.R.queue = self.saved_queue

    _reached = ()
    _gen_started = False


def replay_wsgi(ctx, g):
    parent = g.bfs_tree()
    n_edges = 0
    for a, lab, b in g.edges():
        init, path = g.path_to(parent, a)
        st0 = g.state(init)
        steps = [l for l, _ in path] + [lab]
        run = WsgiRun(st0["n"], st0["raiseAt"], st0["cleanupRaises"])
        reached = set()
        try:
            ok = True
            cur = init
            for i, l in enumerate(steps):
                name, _ = graph.parse_action(l)
                if not run.apply(name):
                    ok = False
                    break
                with run.s.cv:
                    rel = run.s.status.get("relay")
                if rel and rel[0] == "parked":
                    if rel[1] == "raise":
                        reached.add("raise")
                    if rel[1] != "relay-start":
                        run._gen_started = True
            run._reached = reached
            exp = g.state(b)
            case = {"n": st0["n"], "raise_at": st0["raiseAt"], "cleanup_raises": st0["cleanupRaises"], "schedule": steps}
            if ok:
                o = run.observe()
                model = {"rpc": exp["rpc"], "cpc": exp["cpc"], "delivered": list(exp["delivered"]), "pings": exp["pings"],
                         "genClosed": exp["genClosed"], "produced": exp["produced"],
                         "outcome": "open" if exp["cpc"] != "ret" else ("raised" if exp["fut"] == "failed" else
                                                                         ("closed" if exp["closing"] else "exhausted"))}
                q_model = list(exp["q"])
                q_real = run.queue_items() if o["cpc"] != "ret" and o["cpc"] != "unstarted" else q_model
                if o != model or (q_real != q_model and o["cpc"] in ("get", "drain", "join", "yielded")):
                    ctx.drift_at(case, dict(model, q=q_model), dict(o, q=q_real), "thread states differ from SseWsgi.tla")
            else:
                ctx.drift_at(case, "schedule can be followed", run.observe(), "schedule of SseWsgi.tla cannot be forced onto the threads")
            # the statement, on the real threads: finish the run fairly from here
            problem = run.complete()
            bad = [problem] if problem else run.final_clauses()
            if bad:
                ctx.violation(case, "call returns; generator cleaned up exactly once; no thread left; delivery in order",
                              run.observe(), bad[0], {"failed_clauses": bad, "module": "SseWsgi"})
                if problem and "outside any control point" in problem:
                    # a thread that keeps running for ten seconds without reaching queue, future or producer: a busy loop. Every further
                    # schedule would wait for it again - three of these are a verdict
                    ctx.runaway = getattr(ctx, "runaway", 0) + 1
                    if ctx.runaway >= 3:
                        raise servers.Livelock("WSGI event stream: " + problem + " (in %d schedules; the remaining ones were not replayed)" % ctx.runaway)
            # the same schedule with every pool worker busy elsewhere: a relay that has not started yet never will
            if ok and exp["rpc"] == "queued":
                run2 = WsgiRun(st0["n"], st0["raiseAt"], st0["cleanupRaises"])
                try:
                    if all(run2.apply(graph.parse_action(l)[0]) for l in steps):
                        problem = run2.complete(no_relay_start=True)
                        bad = [problem] if problem else [b for b in run2.final_clauses() if "pool thread" not in b or not run2.pool.future.cancelled()]
                        if bad:
                            ctx.violation(dict(case, pool="every worker busy: the relay job never starts"),
                                          "close() returns although the relay never started", run2.observe(), bad[0],
                                          {"failed_clauses": bad, "module": "SseWsgi"})
                        ctx.count()
                        ctx.nontriv(tuple(["nopool", st0["n"], st0["raiseAt"]] + steps))
                finally:
                    run2.shutdown()
            ctx.count()
            ctx.traces_validated += 1
            n_edges += 1
            if "SrvClose" in steps or st0["raiseAt"]:
                ctx.nontriv(tuple([st0["n"], st0["raiseAt"], st0["cleanupRaises"]] + steps))
            if n_edges in (40, 400):
                ctx.sample({"case": case, "observed": run.observe()})
        finally:
            run.shutdown()
    return n_edges


def run_stream_wsgi(ctx, wd):
    """the thread-free WSGI StreamResponse: every next()/close() sequence of StreamWsgi.tla on the real class"""
    import baize.wsgi as W
    tlc.sany(wd + "/StreamWsgi.tla")
    K = dict(MaxN=3)
    tlc.write_mc(wd, "MC_StreamWsgi", "StreamWsgi", constants=K,
                 cfg_lines=["SPECIFICATION Spec", "CHECK_DEADLOCK FALSE", "INVARIANT ClosedOnce", "INVARIANT InOrder"])
    res = tlc.run_tlc(wd, "MC_StreamWsgi", dump=True, workers=4)
    ctx.add_tlc("StreamWsgi", res, K)
    if res.violated:
        raise common.MachineryError("StreamWsgi.tla: " + tlc.describe(res))
    tlc.check_coverage(res, ["SrvNext", "SrvClose"])
    g = graph.Graph.load(res.dot)
    parent = g.bfs_tree()
    keep = []      # the application keeps references to its responses (a registry, a traceback ...): no help from the garbage collector
    for a, lab, b in g.edges():
        init, path = g.path_to(parent, a)
        st0, exp = g.state(init), g.state(b)
        log = []

        def gen(n=st0["n"], ra=st0["raiseAt"], log=log):     # (bind this run's log: older generators are finalised later)
            try:
                for i in range(1, n + 1):
                    if ra == i:
                        raise ProducerError("item %d" % i)
                    yield b"item:%d;" % i
                if ra == n + 1:
                    raise ProducerError("end")
            finally:
                log.append("cleaned")
        resp = W.StreamResponse(gen())
        keep.append(resp)
        it = iter(resp({"REQUEST_METHOD": "GET"}, lambda *x, **k: None))
        got, outcome = [], "open"
        for l in [x for x, _ in path] + [lab]:
            name, _ = graph.parse_action(l)
            try:
                if name == "SrvNext":
                    got.append(next(it))
                else:
                    it.close()
                    outcome = "closed"
            except StopIteration:
                outcome = "exhausted"
            except ProducerError:
                outcome = "raised"
            except BaseException as e:  # noqa
                outcome = "error:" + type(e).__name__
        ctx.count()
        ctx.traces_validated += 1
        obs = {"delivered": len(got), "cleaned": len(log), "outcome": outcome}
        want = {"delivered": exp["pos"], "cleaned": exp["cleaned"], "outcome": exp["outcome"]}
        case = {"wsgi_stream_items": st0["n"], "raise_at": st0["raiseAt"], "calls": [x for x, _ in path] + [lab]}
        if got != [b"item:%d;" % i for i in range(1, len(got) + 1)]:
            ctx.violation(case, "items in order", [x.decode() for x in got], "WSGI StreamResponse delivered items out of order")
        elif obs != want:
            what = "WSGI StreamResponse: after %s the user's generator cleanup ran %d time(s), expected %d" % (outcome, obs["cleaned"], want["cleaned"]) \
                if obs["cleaned"] != want["cleaned"] else "WSGI StreamResponse ended as %s, expected %s" % (outcome, want["outcome"])
            ctx.violation(case, want, obs, what, {"module": "StreamWsgi"})
        if "SrvClose" in case["calls"] or st0["raiseAt"]:
            ctx.nontriv(("wsgi-stream",) + tuple(case["calls"]) + (st0["n"], st0["raiseAt"]))
    del keep[:]


def run(ctx):
    maxn = 2 if ctx.tier == "quick" else 3
    ctx.bounds = {"wsgi": {"MaxN": maxn, "pings": 2}}
    ctx.rule = ("WSGI: every transition of SseWsgi.tla forced onto real threads, then completed fairly and judged; ASGI: every "
                "timing configuration of StreamAsgi.tla run under virtual time; non-trivial = schedules containing a close(), a "
                "producer exception or a disconnect")
    ctx.assumptions = ["the user's generator always takes its next step eventually", "asyncio's FIFO ready queue",
                       "threads are pre-empted observably only at queue / future / generator-yield operations"]
    wd = tlc.workdir_for("c06")
    tlc.sany(wd + "/SseWsgi.tla")
    K = dict(MaxN=maxn, Fixed=True, CancelFirst=True)
    cfg = ["SPECIFICATION Spec", "CONSTRAINT Bound", "CHECK_DEADLOCK FALSE"] + ["INVARIANT " + i for i in WSGI_INV]
    tlc.write_mc(wd, "MC_SseWsgi", "SseWsgi", constants=K, cfg_lines=cfg)
    res = tlc.run_tlc(wd, "MC_SseWsgi", dump=True, workers=4)
    ctx.add_tlc("SseWsgi", res, K)
    if res.violated:
        raise common.MachineryError("SseWsgi.tla: " + tlc.describe(res))
    tlc.check_coverage(res, WSGI_ACTIONS)
    # liveness under fairness (no state constraint other than the ping bound)
    tlc.write_mc(wd, "MC_SseWsgiLive", "SseWsgi", constants=dict(MaxN=2, Fixed=True, CancelFirst=True),
                 cfg_lines=["SPECIFICATION FairSpec", "CONSTRAINT Bound", "CHECK_DEADLOCK FALSE", "PROPERTY Terminates"])
    lres = tlc.run_tlc(wd, "MC_SseWsgiLive", workers=4, coverage=False)
    ctx.add_tlc("SseWsgi(liveness)", lres, dict(MaxN=2))
    if lres.violated:
        raise common.MachineryError("SseWsgi.tla liveness: " + tlc.describe(lres))
    # pool exhausted: no fairness for the relay's start; close() must return all the same
    tlc.write_mc(wd, "MC_SseWsgiNoPool", "SseWsgi", constants=dict(MaxN=2, Fixed=True, CancelFirst=True),
                 cfg_lines=["SPECIFICATION FairSpecNoPool", "CONSTRAINT Bound", "CHECK_DEADLOCK FALSE", "PROPERTY CloseReturns"])
    pres = tlc.run_tlc(wd, "MC_SseWsgiNoPool", workers=4, coverage=False)
    ctx.add_tlc("SseWsgi(liveness CloseReturns, no pool worker)", pres, dict(MaxN=2))
    if pres.violated:
        raise common.MachineryError("SseWsgi.tla liveness CloseReturns: " + tlc.describe(pres))
    tlc.write_mc(wd, "MC_SseWsgiNoCancel", "SseWsgi", constants=dict(MaxN=2, Fixed=True, CancelFirst=False),
                 cfg_lines=["SPECIFICATION FairSpecNoPool", "CONSTRAINT Bound", "CHECK_DEADLOCK FALSE", "PROPERTY CloseReturns"])
    wres2 = tlc.run_tlc(wd, "MC_SseWsgiNoCancel", workers=4, coverage=False)
    if wres2.violated != "CloseReturns":
        raise common.MachineryError("witness failed: SseWsgi.tla with CancelFirst=FALSE does not violate CloseReturns (%s)" % wres2.violated)
    ctx.notes.append("witness: a finally block that does not try cancel() first (CancelFirst=FALSE) violates CloseReturns when no pool worker is free")
    # witness: the original finally block must deadlock in the model
    tlc.write_mc(wd, "MC_SseWsgiOrig", "SseWsgi", constants=dict(MaxN=2, Fixed=False, CancelFirst=True),
                 cfg_lines=["SPECIFICATION Spec", "CONSTRAINT Bound", "CHECK_DEADLOCK FALSE", "INVARIANT NoStuck"])
    wres = tlc.run_tlc(wd, "MC_SseWsgiOrig", workers=4, coverage=False)
    if wres.violated != "NoStuck":
        raise common.MachineryError("witness failed: SseWsgi.tla with Fixed=FALSE does not violate NoStuck (%s)" % wres.violated)
    ctx.notes.append("witness: original finally block (Fixed=FALSE) violates NoStuck after %d states, schedule %s" % (
        wres.distinct, [l for l, _ in wres.trace]))

    g = graph.Graph.load(res.dot)
    ne = replay_wsgi(ctx, g)
    ctx.bounds["wsgi"]["edges_replayed"] = ne

    run_stream_wsgi(ctx, wd)
    c06_asgi.run_asgi(ctx, wd)
    from . import c06_sse_task
    c06_sse_task.run_task_level(ctx, wd)


if __name__ == "__main__":
    sys.exit(common.main("C06", run))
