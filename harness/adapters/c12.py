"""C12 - untrusted input never escapes as a non-HTTP error.

spec/Robust.tla enumerates (channel, fragment sequence, entry point) and fixes the class-level
oracle (OutcomeAllowed: value / HTTP 4xx / disconnect / stream-consumed).  Every enumerated case is
concretised and given to the real accessor / application on both interfaces; what comes out is
classified.  Noise beyond the fragment space (random Latin-1, bit-flipped and truncated bodies) is
sampled with the same oracle.
"""
import os
import random
import shutil
import sys

from .. import tlc, graph, common, servers, recipes

BIG = "9" * 5000
FR = {
    "path": {"seg": "a", "slash": "/", "dot2": "..", "pct": "%2e", "nul": "\x00", "hi": "\xff", "uni": "é", "big": BIG, "date": "2021-13-45",
             "long": "n" * 300, "br": "[", "nl": "\n", "ipre": "i/", "dpre": "d/", "mpre": "m/", "num": "1x2"},
    "query": {"kv": "a=1", "amp": "&", "eq": "=", "pct": "%", "pctbad": "%zz", "hi": "\xff\xfe", "plus": "+", "semi": ";", "uni": "é", "big": BIG},
    "host": {"name": "example.com", "port": ":80", "br": "[", "br2": "]", "at": "@", "hi": "\xff", "sp": " ", "colon": ":", "big": BIG, "slash": "/"},
    "cookie": {"kv": "a=b", "semi": ";", "eq": "=", "dq": '"', "bs": "\\", "oct": "\\073", "octbad": "\\9", "hi": "\xff", "sp": " ", "big": BIG},
    "accept": {"mt": "text/html", "star": "*/*", "comma": ",", "semi": ";", "q": "q=0.5", "slash": "/", "dq": '"', "hi": "\xff", "eq": "="},
    "ctype": {"json": "application/json", "form": "application/x-www-form-urlencoded", "multi": "multipart/form-data", "semi": ";",
              "cs8": "charset=utf-8", "csbad": "charset=nonsense-7", "cs16": "charset=utf-16", "bnd": "boundary=BB", "bndq": 'boundary="B B"',
              "dq": '"', "eq": "=", "hi": "\xff", "jsonbadcs": "application/json; charset=nonsense-7", "json16": "application/json; charset=utf-16",
              "formbadcs": "application/x-www-form-urlencoded; charset=nonsense-7", "form16": "application/x-www-form-urlencoded; charset=utf-16",
              "multinob": "multipart/form-data; charset=zz", "csundef": "charset=undefined", "cspuny": "charset=punycode",
              "formundef": "application/x-www-form-urlencoded; charset=undefined", "jsonundef": "application/json; charset=undefined",
              "multiundef": "multipart/form-data; boundary=BB; charset=undefined"},
    "clen": {"num": "12", "neg": "-5", "big": BIG, "sp": " ", "x": "x", "plus": "+", "dot": ".", "uni": "٣"},
    "date": {"ok": "Wed, 21 Oct 2015 07:28:00 GMT", "big": "Wed, 21 Oct 99999 07:28:00 GMT", "y0": "Mon, 01 Jan 0001 00:00:00 +2359", "junk": "yesterday",
             "num": "0", "hi": "\xff", "comma": ",", "y9999": "Fri, 31 Dec 9999 23:59:59 -0100", "y9999b": "Fri, 31 Dec 9999 12:00:00 -2359",
             "y1": "Mon, 01 Jan 0001 00:00:00 +0100", "bigzone": "Tue, 15 Nov 1994 08:12:31 +99999999999999999999",
             "hugeyear": "Tue, 15 Nov 19940000000000000000000 08:12:31 GMT", "bigsec": "Tue, 15 Nov 1994 08:12:99999999999999999999 GMT"},
    "referer": {"url": "http://ex.com/a", "br": "http://[", "hi": "\xff", "sp": " ", "port": ":99999", "at": "@", "br6": "http://[::1", "uni": "é", "badport": "http://example.com:x/",
                "userbadport": "http://a:b@c:d/", "bigport": "http://h:99999/"},
    "range": {"unit": "bytes=", "r": "0-1", "suf": "-1", "from": "1-", "comma": ",", "big": BIG + "-", "bigsuf": "-" + BIG, "junk": "x", "eq": "=",
              "uni": "٣-٤", "sp": " "},
    "ifrange": {"etag": '"abc"', "date": "Wed, 21 Oct 2015 07:28:00 GMT", "junk": "x", "hi": "\xff", "w": "W/"},
    "inm": {"star": "*", "tag": '"abc"', "w": "W/", "comma": ",", "dq": '"', "hi": "\xff", "sp": " "},
    "ims": {"ok": "Wed, 21 Oct 2015 07:28:00 GMT", "big": "Wed, 21 Oct 99999 07:28:00 GMT", "junk": "soon", "num": "1", "neg": "Thu, 01 Jan 1970 00:00:00 -9999",
            "hi": "\xff", "y9999": "Fri, 31 Dec 9999 23:59:59 -0100", "y1": "Mon, 01 Jan 0001 00:00:00 +0100",
            "bigzone": "Tue, 15 Nov 1994 08:12:31 +99999999999999999999", "hugeyear": "Tue, 15 Nov 19940000000000000000000 08:12:31 GMT",
            "nozone": "Tue, 15 Nov 1994 08:12:31", "minus0": "Tue, 15 Nov 1994 08:12:31 -0000"},
    "body": {"obj": b'{"a": 1}', "open": b"[" * 50, "deep": b"[" * 100000, "bad8": b"\xff\xfe", "nul": b"\x00", "kv": b"a=1&b=2", "pct": b"%zz%", "amp": b"&&=",
             "mp": b'--BB\r\nContent-Disposition: form-data; name="f"\r\n\r\nv\r\n', "mpend": b"--BB--\r\n", "mpnocolon": b"--BB\r\nContent-Disposition\r\n\r\nv\r\n",
             "mpnodisp": b"--BB\r\nX-Other: 1\r\n\r\nv\r\n", "mpnoname": b"--BB\r\nContent-Disposition: form-data\r\n\r\nv\r\n",
             "mpfileonly": b'--BB\r\nContent-Disposition: attachment; filename="x.txt"\r\n\r\nv\r\n',
             "mpempty": b"--BB\r\n\r\nv\r\n", "mpcont": b'--BB\r\nContent-Disposition: form-data;\r\n name="f"\r\n\r\nv\r\n', "mphi": b'--BB\r\nContent-Disposition: form-data; name="\xff"; filename="\xfe"\r\n\r\n\xff\r\n', "big": BIG.encode(), "manyamp": b"a=1&" * 1500, "ampamp": b"&" * 2500, "manysemi": b"a=1;" * 1500},
}
ENTRIES = {
    "path": ["url", "router", "files", "pages", "mount"], "query": ["query_params", "url"], "host": ["url", "hosts"], "cookie": ["cookies"],
    "accept": ["accepted"], "ctype": ["content_type", "json", "form"], "clen": ["content_length"], "date": ["date"], "referer": ["referrer"],
    "range": ["file"], "ifrange": ["file"], "inm": ["files"], "ims": ["files"], "body": ["json", "form-url", "form-multi", "json-utf16"],
}
HEADER_OF = {"host": "Host", "cookie": "Cookie", "accept": "Accept", "ctype": "Content-Type", "clen": "Content-Length", "date": "Date",
             "referer": "Referer", "range": "Range", "ifrange": "If-Range", "inm": "If-None-Match", "ims": "If-Modified-Since"}


def classify(exc):
    from baize.exceptions import HTTPException
    from baize.asgi import ClientDisconnect
    if exc is None:
        return "value", None
    if isinstance(exc, HTTPException):
        return ("http4xx", exc.status_code) if 400 <= exc.status_code < 500 else ("escape", "HTTPException(%s)" % exc.status_code)
    if isinstance(exc, ClientDisconnect):
        return "disconnect", None
    if isinstance(exc, RuntimeError) and "onsumed" in str(exc):
        return "consumed", None
    import traceback
    tb = traceback.extract_tb(exc.__traceback__)
    where = next((("%s:%d" % (os.path.basename(f.filename), f.lineno)) for f in reversed(tb) if "/baize/" in f.filename), "?")
    return "escape", "%s at %s" % (type(exc).__name__, where)


class World:
    def __init__(self):
        self.env = recipes.Env(tlc.scratch())

    def apps(self, iface):
        p = recipes.pkg(iface)
        env = self.env

        def leaf(name):
            return p.PlainTextResponse(name)
        return {
            "router": p.Router(("/", leaf("home")), ("/i/{n:int}", leaf("int")), ("/d/{d:date}", leaf("date")), ("/m/{x:decimal}", leaf("dec")),
                               ("/u/{u:uuid}", leaf("uuid")), ("/{rest:any}", leaf("any"))),
            "files": p.Files(env.tree), "pages": p.Pages(env.tree),
            "mount": p.Subpaths(("/a", leaf("a")), ("", p.Files(env.tree))),
            "hosts": p.Hosts((r"example\.com(:\d+)?", leaf("ex")), (r".*", leaf("other"))),
            "file": p.FileResponse(env.small),
        }


def run_case(world, iface, channel, entry, raw, body=None, host=None):
    """apply the entry point to the value on one interface; returns (class, detail)"""
    p = recipes.pkg(iface)
    kw = {"headers": []}
    given_body, body = body, b""
    if channel == "path":
        kw["path"] = raw if raw.startswith("/") or entry == "url" else "/" + raw
        if host is not None:
            kw["headers"] = [("Host", host)]
    elif channel == "query":
        kw["query"] = raw
    elif channel == "body":
        body = raw
        ct = {"json": "application/json", "form-url": "application/x-www-form-urlencoded; charset=utf-8", "form-multi": "multipart/form-data; boundary=BB",
              "json-utf16": "application/json; charset=utf-16"}[entry]
        kw["headers"] = [("Content-Type", ct)]
        kw["method"] = "POST"
    else:
        kw["headers"] = [(HEADER_OF[channel], raw)]
    if channel == "ctype":
        body = given_body if given_body is not None else (b'{"a": 1}' if entry == "json" else b"a=1&b=%C3%A9")
        kw["method"] = "POST"
    if channel in ("inm", "ims"):
        kw["path"] = "/a.txt"
    try:
        req = servers.Req(chunks=[body] if body else [], **kw)
        if iface == "wsgi":
            env = servers.make_environ(req)
            if channel == "path" and all(ord(c) < 256 for c in kw["path"]):
                env["PATH_INFO"] = kw["path"]      # raw bytes as a server hands them over (Latin-1), not necessarily UTF-8
            if channel == "query" and all(ord(c) < 256 for c in raw):
                env["QUERY_STRING"] = raw
        else:
            scope = servers.make_scope(req)
            if channel == "query" and all(ord(c) < 256 for c in raw):
                scope["query_string"] = raw.encode("latin-1")
    except (UnicodeEncodeError, ValueError):
        return "skip", None     # not expressible on this interface (e.g. non-Latin-1 header text)
    accessor = {"url": "url", "query_params": "query_params", "cookies": "cookies", "accepted": "accepted_types", "content_type": "content_type",
                "content_length": "content_length", "date": "date", "referrer": "referrer", "json": "json", "form": "form", "form-url": "form",
                "form-multi": "form", "json-utf16": "json"}.get(entry)
    try:
        if accessor:
            if iface == "wsgi":
                r = p.Request(env)
                v = getattr(r, accessor)
                if accessor == "url" or (accessor == "referrer" and v is not None):
                    str(v), v.path, v.query, v.port, v.hostname, v.netloc, v.username, v.password, repr(v)
                if accessor == "accepted_types":
                    r.accepts("text/html")
                if accessor == "form":
                    v.multi_items()
                    r.close()
            else:
                msgs = servers.make_messages(req)

                async def receive():
                    return msgs.pop(0) if msgs else {"type": "http.disconnect"}
                r = p.Request(scope, receive)

                async def go():
                    v = getattr(r, accessor)
                    if hasattr(v, "__await__"):
                        v = await v
                    if accessor == "url" or (accessor == "referrer" and v is not None):
                        str(v), v.path, v.query, v.port, v.hostname, v.netloc, v.username, v.password, repr(v)
                    if accessor == "accepted_types":
                        r.accepts("text/html")
                    if accessor == "form":
                        v.multi_items()
                        await r.close()
                servers.loop().run_until_complete(go())
            return classify(None)
        app = world.apps(iface)[entry]
        res = servers.wsgi_call(app, env) if iface == "wsgi" else servers.asgi_call(app, scope, servers.make_messages(req))
        if res.exc is not None:
            return classify(res.exc)
        if res.status is not None and res.status >= 500:
            return "escape", "status %s" % res.status
        return "value", res.status
    except BaseException as e:  # noqa
        return classify(e)


def run(ctx):
    L = 2 if ctx.tier == "quick" else 3
    frag_pairs = frozenset((c, f) for c, d in FR.items() for f in d)
    entry_pairs = frozenset((c, e) for c, es in ENTRIES.items() for e in es)
    K = dict(Channels=frozenset(FR), FragmentsOf=frag_pairs, EntriesOf=entry_pairs, MaxLen=L)
    ctx.bounds = {"channels": len(FR), "fragments": sum(len(d) for d in FR.values()), "MaxLen": L}
    ctx.rule = ("every (channel, fragment sequence <= MaxLen, entry point) of Robust.tla on both interfaces, plus random Latin-1 noise and "
                "bit-flipped / truncated bodies; non-trivial = values containing a non-ASCII, NUL, bracket, 5000-digit or malformed fragment")
    ctx.assumptions = ["header text is Latin-1 (what a server hands to the application)", "the server-controlled parts of environ/scope are well-formed",
                       "the model fixes the outcome class only; precise outcomes are the subject of the other properties"]
    wd = tlc.workdir_for("c12")
    tlc.sany(wd + "/Robust.tla")
    tlc.write_mc(wd, "MC_Robust", "Robust", constants=K, cfg_lines=["SPECIFICATION Spec", "CHECK_DEADLOCK FALSE", "INVARIANT OutcomeAllowed"])
    res = tlc.run_tlc(wd, "MC_Robust", dump=True, heap="8g")
    ctx.add_tlc("Robust", res, ctx.bounds)
    if res.violated:
        raise common.MachineryError("Robust.tla: " + tlc.describe(res))
    tlc.check_coverage(res, ["Call"])
    g = graph.Graph.load(res.dot)
    world = World()
    seen_escape = {}
    try:
        n = 0
        for nid in g.init:
            st = g.state(nid)
            ch, entry = st["channel"], st["entry"]
            frs = [FR[ch][f] for f in st["value"]]
            raw = (b"" if ch == "body" else "").join(frs) if frs else (b"" if ch == "body" else "")
            n += 1
            for iface in ("wsgi", "asgi"):
                cls, detail = run_case(world, iface, ch, entry, raw)
                if cls == "skip":
                    continue
                ctx.count()
                ctx.traces_validated += 1
                if cls == "escape":
                    key = (ch, entry, iface, detail)
                    seen_escape[key] = seen_escape.get(key, 0) + 1
                    if seen_escape[key] <= 2:
                        shown = raw[:60] + (b"..." if len(raw) > 60 else b"") if isinstance(raw, bytes) else raw[:60] + ("..." if len(raw) > 60 else "")
                        ctx.violation({"channel": ch, "entry": entry, "iface": iface, "fragments": list(st["value"]), "value": repr(shown)},
                                      "a value, an HTTP 4xx, client-disconnect or stream-consumed", detail,
                                      "%s via %s (%s): %s escapes" % (ch, entry, iface, detail))
            if any(f in ("nul", "hi", "big", "br", "bad8", "deep", "csbad", "cs16", "uni", "bigsuf", "y0", "y1", "y9999", "y9999b", "bigzone", "hugeyear", "bigsec", "nozone", "minus0", "neg", "csundef", "cspuny", "formundef", "jsonundef", "multiundef", "mpnocolon", "mpnodisp", "mphi", "mpnoname", "mpfileonly", "mpempty", "mpcont",
                         "octbad", "pctbad", "br6", "date", "long", "nl") for f in st["value"]):
                ctx.nontriv((ch, entry, st["value"]))
            if n in (10, 4000):
                ctx.sample({"channel": ch, "entry": entry, "fragments": list(st["value"])})
        # two channels at once: request path x Host header through the applications that build URLs from both (redirects, mounts)
        xpaths = ["//[/../sub", "/[/../sub", "//]/../sub", "//[zz]/../sub", "/sub", "//sub", "/sub/..", "///sub", "/%5B/../sub", "//\uff03/../sub", "/sub?x", "/sub#f",
                  "//[::1]/../sub", "/a/../sub", "//@/../sub", "//:80/../sub", "/\\/../sub"]
        xhosts = [None, "", "/", "[", "]", "a:b", "@", ":80@", "]:[::1]@", "]:x[::1]@:80", "example.com", "[::1]:80", "\uff03", "a b", "?", "#"]
        for xp in xpaths:
            for xh in xhosts:
                for entry in ("pages", "files", "mount", "router", "url"):
                    for iface in ("wsgi", "asgi"):
                        cls, detail = run_case(world, iface, "path", entry, xp, host=xh)
                        if cls == "skip":
                            continue
                        ctx.count()
                        if cls == "escape":
                            key = ("path+host", entry, iface, detail)
                            seen_escape[key] = seen_escape.get(key, 0) + 1
                            if seen_escape[key] <= 2:
                                ctx.violation({"channel": "path+host", "entry": entry, "iface": iface, "path": xp, "host": xh},
                                              "a value, an HTTP 4xx, client-disconnect or stream-consumed", detail,
                                              "path %r with Host %r via %s (%s): %s escapes" % (xp, xh, entry, iface, detail))
            ctx.nontriv(("path+host", xp))
        # every codec name Python knows, declared as the charset of a JSON / urlencoded / multipart body
        import encodings.aliases
        codecs_ = sorted(set(encodings.aliases.aliases.values()) | set(encodings.aliases.aliases) | {"undefined", "punycode", "idna", "raw_unicode_escape", "unicode_escape", "utf-8-sig", "utf_8_sig", "x", ""})
        mp_body = FR["body"]["mphi"] + FR["body"]["mp"] + FR["body"]["mpend"]
        for cs in codecs_:
            for ct, body in (("application/json", b'{"a": "\xe9\xff"}'), ("application/json", b'{"a": 1}'), ("application/x-www-form-urlencoded", b"a=1&b=%C3%A9&c=\xff\xfe"),
                             ("application/x-www-form-urlencoded", b"a=1"), ("multipart/form-data; boundary=BB", mp_body)):
                for iface in ("wsgi", "asgi"):
                    cls, detail = run_case(world, iface, "ctype", "json" if "json" in ct else "form", "%s; charset=%s" % (ct, cs), body=body)
                    ctx.count()
                    if cls == "escape":
                        key = ("ctype", ct, iface, detail)
                        seen_escape[key] = seen_escape.get(key, 0) + 1
                        if seen_escape[key] <= 2:
                            ctx.violation({"channel": "ctype", "entry": ct, "iface": iface, "charset": cs, "body": repr(body[:40])},
                                          "a value, an HTTP 4xx, client-disconnect or stream-consumed", detail,
                                          "charset=%s on a %s body (%s): %s escapes" % (cs, ct.split(";")[0], iface, detail))
            ctx.nontriv(("codec", cs))
        # noise beyond the fragment space
        rnd = random.Random(ctx.seed)
        N = 1500 if ctx.tier == "quick" else 20000
        bodies = [FR["body"]["obj"] * 3, FR["body"]["kv"] * 5, FR["body"]["mp"] + FR["body"]["mp"] + FR["body"]["mpend"]]
        for i in range(N):
            ch = rnd.choice([c for c in FR if c != "body"] + ["body"] * 4)
            entry = rnd.choice(ENTRIES[ch])
            if ch == "body":
                b = bytearray(rnd.choice(bodies))
                for _ in range(rnd.randint(1, 4)):
                    op = rnd.random()
                    if op < 0.5 and b:
                        j = rnd.randrange(len(b))
                        b[j] ^= 1 << rnd.randrange(8)
                    elif op < 0.8 and b:
                        del b[rnd.randrange(len(b)):]
                    else:
                        b[rnd.randrange(len(b) + 1):0] = bytes(rnd.randrange(256) for _ in range(rnd.randint(1, 5)))
                raw = bytes(b)
            else:
                base = "".join(rnd.choice(list(FR[ch].values())) for _ in range(rnd.randint(0, 3)))[:200]
                noise = "".join(chr(rnd.randrange(256)) for _ in range(rnd.randint(0, 6)))
                k = rnd.randint(0, len(base))
                raw = base[:k] + noise + base[k:]
                if ch != "path":
                    raw = raw.replace("\n", "").replace("\r", "").replace("\0", "")   # a server does not deliver these in a header
            for iface in ("wsgi", "asgi"):
                cls, detail = run_case(world, iface, ch, entry, raw)
                if cls == "skip":
                    continue
                ctx.count()
                if cls == "escape":
                    key = (ch, entry, iface, detail)
                    seen_escape[key] = seen_escape.get(key, 0) + 1
                    if seen_escape[key] <= 2:
                        ctx.violation({"channel": ch, "entry": entry, "iface": iface, "noise": repr(raw[:80])},
                                      "a value, an HTTP 4xx, client-disconnect or stream-consumed", detail,
                                      "%s via %s (%s): %s escapes" % (ch, entry, iface, detail))
        # keys the specifications make optional left out by the server: QUERY_STRING (PEP 3333: "may be empty or absent"), the
        # query_string / root_path / client / server of an ASGI scope - every accessor still returns a value
        import baize.wsgi as W
        import baize.asgi as A
        for iface in ("wsgi", "asgi"):
            for missing in (("QUERY_STRING",), ("CONTENT_TYPE",), ("REMOTE_ADDR", "REMOTE_PORT"), ("REMOTE_PORT",), ("REMOTE_ADDR",), ("SCRIPT_NAME",)) if iface == "wsgi" else \
                    (("query_string",), ("root_path",), ("client",), ("server",), ("query_string", "root_path", "client", "server")):
                req = servers.Req(path="/page", headers=[("Host", "example.com")])
                src = servers.make_environ(req) if iface == "wsgi" else servers.make_scope(req)
                for k in missing:
                    src.pop(k, None)
                r = (W if iface == "wsgi" else A).Request(src)
                for entry in ("query_params", "url", "client", "content_type", "cookies", "accepted_types"):
                    ctx.count()
                    try:
                        v = getattr(r, entry)
                        if entry == "url":
                            str(v), v.path, v.query
                        cls, detail = "value", None
                    except BaseException as e:  # noqa
                        cls, detail = classify(e)
                    if cls == "escape":
                        ctx.violation({"iface": iface, "keys_left_out_by_the_server": list(missing), "entry": entry}, "a value", detail,
                                      "request.%s (%s) with the optional %s left out: %s escapes" % (entry, iface, "/".join(missing), detail))
                    ctx.nontriv(("optional-key", iface, missing, entry))
    finally:
        shutil.rmtree(world.env.dir, True)
    if seen_escape:
        ctx.notes.append("distinct escapes: %s" % sorted("%s/%s/%s %s x%d" % (k + (v,)) for k, v in seen_escape.items())[:40])


if __name__ == "__main__":
    sys.exit(common.main("C12", run))
