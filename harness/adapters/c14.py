"""C14 - conditional requests never yield a stale 304 and always revalidate a fresh copy.

spec/Conditional.tla: a file on a virtual clock (sub-second ticks), the history of responses with
their validators, conditional requests in every syntactic form; TLC checks NoStale,
FreshAfterChange, EtagRevalidates, StarMatches, DateRevalidates over all histories.  Every edge is
replayed (DFS) on the real Files / Pages apps on both interfaces with `baize.staticfiles.os.stat`
virtualised so that the model's timestamps are what the code sees.
"""
import os
import shutil
import zlib
import sys

from .. import tlc, graph, common, servers

CONSTS = {"quick": dict(TPS=2, MaxSteps=5, MaxResp=2), "thorough": dict(TPS=2, MaxSteps=6, MaxResp=3)}
INV = ["NoStale", "FreshAfterChange", "EtagRevalidates", "StarMatches", "DateRevalidates"]
BASE = 1600000000


class OsProxy:
    """stands in for the `os` name inside baize.staticfiles: stat() of the modelled file is virtual"""

    def __init__(self, real, target):
        self._real, self._target = real, target
        self.virtual = None   # (size, mtime, ctime)

    def __getattr__(self, name):
        return getattr(self._real, name)

    def virtualise(self, st):
        size, mtime, ctime = self.virtual
        lst = list(st)
        lst[6] = size
        d = {"st_atime": float(st.st_atime), "st_mtime": mtime, "st_ctime": ctime,
             "st_atime_ns": st.st_atime_ns, "st_mtime_ns": int(mtime * 1e9), "st_ctime_ns": int(ctime * 1e9)}
        lst[7], lst[8], lst[9] = int(st.st_atime), int(mtime), int(ctime)
        return self._real.stat_result(tuple(lst), d)

    def stat(self, path, *a, **k):
        st = self._real.stat(path, *a, **k)
        if self.virtual is not None and self._real.path.realpath(path) == self._target:
            return self.virtualise(st)
        return st


def content(ver, size):
    return (b"v%d" % ver).ljust(size, b".")[:size]


def run(ctx):
    K = CONSTS[ctx.tier]
    ctx.bounds = dict(K)
    ctx.rule = ("every edge of the history graph of Conditional.tla replayed on real Files/Pages (WSGI and ASGI) under a virtual "
                "file clock; non-trivial = conditional requests after a modification, sub-second changes, list/weak forms")
    ctx.assumptions = ["every modification advances the clock by at least one tick (two versions never share an mtime)",
                       "a date-only request cannot detect a change within the same second (HTTP dates have 1 s granularity)"]
    wd = tlc.workdir_for("c14")
    tlc.sany(wd + "/Conditional.tla")
    cfg = ["SPECIFICATION Spec", "CHECK_DEADLOCK FALSE"] + ["INVARIANT " + i for i in INV]
    tlc.write_mc(wd, "MC_Conditional", "Conditional", constants=K, cfg_lines=cfg)
    res = tlc.run_tlc(wd, "MC_Conditional", dump=True, heap="8g")
    ctx.add_tlc("Conditional", res, K)
    if res.violated:
        raise common.MachineryError("Conditional.tla: " + tlc.describe(res))
    tlc.check_coverage(res, ["Tick", "Modify", "Restore", "Chmod", "Plain", "Cond"])
    g = graph.Graph.load(res.dot)

    import baize.staticfiles as SF
    import baize.wsgi as W
    import baize.asgi as A
    base = os.path.join(tlc.scratch(), "c14")
    shutil.rmtree(base, True)
    os.makedirs(base)
    target = os.path.join(base, "page.html")
    with open(target, "wb") as f:
        f.write(b"...")
    proxy = OsProxy(os, os.path.realpath(target))
    saved = SF.os
    SF.os = proxy
    # ... and os.stat itself answers virtually for that one file, so that the check does not depend on HOW the library reaches stat()
    # (os.stat through its own `os` name, os.path.getmtime, pathlib)
    real_stat = os.stat

    def vstat(path, *a, **k):
        st = real_stat(path, *a, **k)
        try:
            if proxy.virtual is not None and isinstance(path, (str, bytes, os.PathLike)) and os.path.realpath(path) == proxy._target:
                return proxy.virtualise(st)
        except (OSError, ValueError):
            pass
        return st
    os.stat = vstat
    apps = [("Files", "wsgi", W.Files(base), "/page.html"), ("Files", "asgi", A.Files(base), "/page.html"),
            ("Pages", "wsgi", W.Pages(base), "/page"), ("Pages", "asgi", A.Pages(base), "/page.html")]
    TPS = K["TPS"]
    thin = True      # a request that ends a longest history is replayed on one of the four apps, every other edge on all four

    def set_file(fs):
        with open(target, "wb") as f:
            f.write(content(fs["ver"], fs["size"]))
        proxy.virtual = (fs["size"], BASE + fs["mtime"] / TPS, BASE + fs["ctime"] / TPS)

    def do_request(app, iface, path, headers):
        req = servers.Req(path=path, headers=headers)
        r = servers.wsgi_call(app, req) if iface == "wsgi" else servers.asgi_call(app, req)
        h = dict(r.header_multiset())
        return {"status": r.status, "body": r.body, "etag": h.get("etag"), "lm": h.get("last-modified"),
                "exc": type(r.exc).__name__ if r.exc else None}

    def headers_for(form, sent):
        tag, lm = sent["etag"], sent["lm"]
        bare = tag.strip('"') if tag else "x"
        return {
            "etag": [("If-None-Match", tag)], "weak": [("If-None-Match", "W/" + tag)],
            "listFirst": [("If-None-Match", '%s, "0000"' % tag)], "listLast": [("If-None-Match", '"0000", %s' % tag)],
            "weakListLast": [("If-None-Match", '"0000", W/%s' % tag)], "weakFirstThenTag": [("If-None-Match", 'W/"0000",%s' % tag)],
            "listTwoLines": [("If-None-Match", tag), ("If-None-Match", '"0000"')],
            "star": [("If-None-Match", "*")], "lm": [("If-Modified-Since", lm)],
            "both": [("If-None-Match", tag), ("If-Modified-Since", lm)],
            "bothRev": [("If-Modified-Since", lm), ("If-None-Match", tag)], "staleEtag": [("If-None-Match", '"0000"')],
        }[form]

    try:
        for ai, (appname, iface, app, path) in enumerate(apps if not os.environ.get("C14_TRACES_ONLY") else []):   # (debugging aid)

            def make_real(init):
                return []      # real responses recorded so far (parallel to the model's resp)

            def step(real, src, lab, dst):
                s0, s1 = g.state(src), g.state(dst)
                name, args = graph.parse_action(lab)
                if name not in ("Plain", "Cond"):
                    return real
                if thin and s1["steps"] == K["MaxSteps"] and zlib.crc32(("%s>%s" % (src, dst)).encode()) % len(apps) != ai:
                    return real
                set_file(s0["file"])
                case = {"app": appname, "iface": iface, "history_len": s0["steps"], "action": lab,
                        "file": dict(s0["file"]), "clock": s0["clock"]}
                ctx.count()
                ctx.traces_validated += 1
                if name == "Plain":
                    o = do_request(app, iface, path, [])
                    exp_body = content(s0["file"]["ver"], s0["file"]["size"])
                    if o["status"] != 200 or o["body"] != exp_body or not o["etag"] or not o["lm"]:
                        ctx.violation(case, {"status": 200, "body": exp_body.decode()}, _j(o), "plain request does not return the current content with validators")
                        return None
                    return real + [o]
                j, form = args
                sent = real[j - 1]
                o = do_request(app, iface, path, headers_for(form, sent))
                want = s1["last"]
                case.update({"form": form, "validators_from_response": j, "sent": {"etag": sent["etag"], "lm": sent["lm"]}})
                if want["status"] == 304:
                    if o["status"] != 304:
                        ctx.violation(case, 304, _j(o), "unchanged file not revalidated (%s form)" % form)
                    elif o["body"] != b"":
                        ctx.violation(case, "empty body", _j(o), "304 with a body")
                else:
                    exp_body = content(s0["file"]["ver"], s0["file"]["size"])
                    if o["status"] == 304:
                        ctx.violation(case, {"status": 200, "body": exp_body.decode()}, _j(o), "stale 304: the file changed since that response")
                    elif o["status"] != 200 or o["body"] != exp_body:
                        ctx.violation(case, {"status": 200, "body": exp_body.decode()}, _j(o), "full response does not carry the new content")
                    elif o["etag"] == sent["etag"] and s0["file"]["mtime"] != s0["resp"][j - 1]["tag"][0]:
                        ctx.violation(case, "new validators", _j(o), "full response after a change carries the old ETag")
                if s0["file"]["mtime"] != s0["resp"][j - 1]["tag"][0] or form not in ("etag", "lm"):
                    ctx.nontriv((appname, iface, s0["file"], s0["resp"], form, j))
                if len(s1["resp"]) > len(s0["resp"]):
                    if o["status"] != 200 or not o["etag"] or not o["lm"]:
                        return None      # already reported; its validators cannot seed further requests
                    return real + [o]
                return real

            graph.dfs_replay(g, make_real, step)
        long_histories(ctx, wd, apps, proxy, target, do_request, headers_for)
        ctx.sample({"history_example": "Plain; RewriteSameSize; Cond(1, weakListLast) -> 200 with new validators", "apps": [a[0] + "/" + a[1] for a in apps]})
    finally:
        SF.os = saved
        os.stat = real_stat
        shutil.rmtree(base, True)
    ctx.exhaustive = True


FORMS = ["etag", "weak", "listFirst", "listLast", "weakListLast", "star", "lm", "both", "bothRev", "staleEtag", "weakFirstThenTag", "listTwoLines"]
TRACE_TPS = 3
TRACE_INV = INV + ["TPlainOK", "TStatusOK", "TBodyCurrent", "TTagged"]


def long_histories(ctx, wd, apps, proxy, target, do_request, headers_for):
    """code -> spec: random histories far longer than the exhaustive bound, recorded on the real applications and judged by TLC:
    the invariants of Conditional.tla evaluated on what was observed (violation), the decision rule itself (drift)"""
    import email.utils
    import random
    import re
    from .. import tracecheck
    wd = tlc.workdir_for("c14trace")     # (the directory of the first TLC run has been reused for the file tree)
    n_hist, n_steps = (60, 70) if ctx.tier == "quick" else (400, 150)
    rnd = random.Random(1000 + ctx.seed)
    traces, meta = [], []
    for h in range(n_hist):
        appname, iface, app, path = apps[h % len(apps)]
        fs = {"ver": 1, "size": 3, "mtime": TRACE_TPS, "ctime": TRACE_TPS}
        clock, used, real, etags, events = 2 * TRACE_TPS, {TRACE_TPS}, [], {}, []

        def put():
            with open(target, "wb") as f:
                f.write(content(fs["ver"], fs["size"]))
            proxy.virtual = (fs["size"], BASE + fs["mtime"] / TRACE_TPS, BASE + fs["ctime"] / TRACE_TPS)

        def observe(o):
            m = re.match(rb"v(\d+)", o["body"])
            lm = 0
            if o["lm"]:
                try:
                    lm = int(email.utils.parsedate_to_datetime(o["lm"]).timestamp()) - BASE
                except (TypeError, ValueError):
                    lm = 0
            eid = 0
            if o["status"] == 200 and o["etag"]:
                eid = etags.setdefault(o["etag"], len(etags) + 1)
            return {"status": o["status"] or 0, "ver": int(m.group(1)) if m else 0, "eid": eid, "lm": max(lm, 0), "empty": o["body"] == b""}

        for _ in range(n_steps):
            x = rnd.random()
            if x < 0.12:
                n = rnd.choice([1, 1, 2, TRACE_TPS, TRACE_TPS + 1, 3 * TRACE_TPS])
                clock += n
                events.append({"a": "Tick", "n": n})
            elif x < 0.30:
                kind = rnd.choice(["same", "other", "touch"])
                size = fs["size"] if kind != "other" else rnd.choice([s for s in (3, 4, 5, 7, 9) if s != fs["size"]])
                clock += 1
                fs = {"ver": fs["ver"] + (kind != "touch"), "size": size, "mtime": clock, "ctime": clock}
                used.add(clock)
                events.append({"a": "Mod", "size": size, "newver": kind != "touch"})
            elif x < 0.36:
                ds = [d for d in range(1, 2 * TRACE_TPS + 2) if fs["mtime"] - d >= 0 and fs["mtime"] - d not in used]
                if not ds:
                    continue
                d = rnd.choice(ds)
                clock += 1
                used.add(fs["mtime"] - d)
                fs = {"ver": fs["ver"] + 1, "size": fs["size"], "mtime": fs["mtime"] - d, "ctime": clock}
                events.append({"a": "Restore", "d": d})
            elif x < 0.40:
                clock += 1
                fs = dict(fs, ctime=clock)
                events.append({"a": "Chmod"})
            elif x < 0.55 or not real:
                put()
                o = do_request(app, iface, path, [])
                ev = dict(observe(o), a="Plain")
                events.append(ev)
                ctx.count()
                if ev["status"] == 200 and o["etag"] and o["lm"]:
                    real.append(o)
            else:
                put()
                j = len(real) - rnd.randrange(min(len(real), 4)) if rnd.random() < 0.8 else rnd.randrange(len(real)) + 1
                f = rnd.choice(FORMS)
                o = do_request(app, iface, path, headers_for(f, real[j - 1]))
                ev = dict(observe(o), a="Cond", j=j, f=f)
                events.append(ev)
                ctx.count()
                ctx.nontriv(("long", h, len(events)))
                if ev["status"] == 200:
                    if not (o["etag"] and o["lm"]):
                        break          # a full response without validators: the invariants report it; nothing can follow from it
                    real.append(o)
            if events[-1]["a"] in ("Plain", "Cond") and events[-1]["status"] == 200 and len(real) != sum(
                    1 for e in events if e["a"] in ("Plain", "Cond") and e["status"] == 200):
                break
        traces.append({"events": events})
        meta.append({"app": appname, "iface": iface})
    tk = dict(TPS=TRACE_TPS, MaxSteps=1000000, MaxResp=1000000)
    acc, rejected = tracecheck.validate(wd, "TraceConditional", traces, constants=dict(tk, Strict=False), invariants=TRACE_INV)
    ctx.traces_validated += acc
    bad = set()
    for tid, name, st in tracecheck.validate.last_invariant_failures:
        bad.add(tid)
        lastrec = (st or {}).get("last", {}) if isinstance(st, dict) else {}
        upto = (st or {}).get("l", 1) - 1 if isinstance(st, dict) else len(traces[tid]["events"])
        ctx.violation(dict(meta[tid], history=traces[tid]["events"][:upto], source="long recorded history"),
                      "invariant %s of Conditional.tla on the observed responses" % name, {"file": (st or {}).get("file"), "response": lastrec},
                      "recorded history of %d steps: the observed response violates %s (%s/%s, form %s)" % (
                          upto, name, meta[tid]["app"], meta[tid]["iface"], lastrec.get("form", "plain")))
    for tid, prefix in rejected:
        if tid not in bad:
            raise common.MachineryError("TraceConditional (observation mode) cannot follow the driver's own history %d at event %d: %r" % (
                tid, prefix + 1, traces[tid]["events"][prefix:prefix + 1]))
    good = [t for i, t in enumerate(traces) if i not in bad]
    acc2, rejected2 = tracecheck.validate(wd, "TraceConditional", good, constants=dict(tk, Strict=True))
    for tid, prefix in rejected2:
        t = good[tid]
        ctx.drift_at({"history": t["events"][:prefix + 1]}, "the decision rule of Conditional.tla", t["events"][prefix] if prefix < len(t["events"]) else None,
                     "recorded history departs from the decision rule of Conditional.tla at event %d" % (prefix + 1))
    ctx.sample({"long_history_steps": len(traces[0]["events"]), "first_events": traces[0]["events"][:5], "histories": len(traces)})
    if ctx.conforming() and not rejected2:
        binding_selftest(ctx, wd, good, tk)


def binding_selftest(ctx, wd, traces, tk):
    """the trace specification must reject a falsified observation: every 304 after a modification turned into ... is not needed -
    one status flipped per history must violate an invariant or (strict reading) be rejected"""
    import copy
    from .. import tracecheck
    fal = []
    for t in traces[:12]:
        idx = [i for i, e in enumerate(t["events"]) if e["a"] == "Cond" and e["f"] not in ("star",)]
        if not idx:
            continue
        t2 = copy.deepcopy(t)
        e = t2["events"][idx[len(idx) // 2]]
        if e["status"] == 200:
            e.update(status=304, ver=0, eid=0, lm=0, empty=True)
        else:
            e.update(status=200, ver=1, eid=1, lm=0, empty=False)
        t2["events"] = t2["events"][:idx[len(idx) // 2] + 1]
        fal.append(t2)
    if not fal:
        return
    acc, rej = tracecheck.validate(wd, "TraceConditional", fal, constants=dict(tk, Strict=True))
    if acc:
        raise common.MachineryError("binding self-test: %d of %d falsified histories were accepted by TraceConditional (strict)" % (acc, len(fal)))
    ctx.notes.append("binding self-test: %d histories with one flipped status all rejected by TraceConditional" % len(fal))


def _j(o):
    return {"status": o["status"], "body": o["body"][:20].decode("latin-1"), "etag": o["etag"], "lm": o["lm"], "exc": o["exc"]}


if __name__ == "__main__":
    sys.exit(common.main("C14", run))
