"""C14 - conditional requests never yield a stale 304 and always revalidate a fresh copy.

spec/Conditional.tla: a file on a virtual clock (sub-second ticks), the history of responses with
their validators, conditional requests in every syntactic form; TLC checks NoStale,
FreshAfterChange, EtagRevalidates, StarMatches, DateRevalidates over all histories.  Every edge is
replayed (DFS) on the real Files / Pages apps on both interfaces with `baize.staticfiles.os.stat`
virtualised so that the model's timestamps are what the code sees.
"""
import os
import shutil
import zlib
import sys

from .. import tlc, graph, common, servers

CONSTS = {"quick": dict(TPS=2, MaxSteps=5, MaxResp=2), "thorough": dict(TPS=2, MaxSteps=6, MaxResp=3)}
INV = ["NoStale", "FreshAfterChange", "EtagRevalidates", "StarMatches", "DateRevalidates"]
BASE = 1600000000


class OsProxy:
    """stands in for the `os` name inside baize.staticfiles: stat() of the modelled file is virtual"""

    def __init__(self, real, target):
        self._real, self._target = real, target
        self.virtual = None   # (size, mtime, ctime)

    def __getattr__(self, name):
        return getattr(self._real, name)

    def stat(self, path, *a, **k):
        st = self._real.stat(path, *a, **k)
        if self.virtual is not None and self._real.path.realpath(path) == self._target:
            size, mtime, ctime = self.virtual
            lst = list(st)
            lst[6] = size
            d = {"st_atime": float(st.st_atime), "st_mtime": mtime, "st_ctime": ctime,
                 "st_atime_ns": st.st_atime_ns, "st_mtime_ns": int(mtime * 1e9), "st_ctime_ns": int(ctime * 1e9)}
            lst[7], lst[8], lst[9] = int(st.st_atime), int(mtime), int(ctime)
            return self._real.stat_result(tuple(lst), d)
        return st


def content(ver, size):
    return (b"v%d" % ver).ljust(size, b".")[:size]


def run(ctx):
    K = CONSTS[ctx.tier]
    ctx.bounds = dict(K)
    ctx.rule = ("every edge of the history graph of Conditional.tla replayed on real Files/Pages (WSGI and ASGI) under a virtual "
                "file clock; non-trivial = conditional requests after a modification, sub-second changes, list/weak forms")
    ctx.assumptions = ["every modification advances the clock by at least one tick (two versions never share an mtime)",
                       "a date-only request cannot detect a change within the same second (HTTP dates have 1 s granularity)"]
    wd = tlc.workdir_for("c14")
    tlc.sany(wd + "/Conditional.tla")
    cfg = ["SPECIFICATION Spec", "CHECK_DEADLOCK FALSE"] + ["INVARIANT " + i for i in INV]
    tlc.write_mc(wd, "MC_Conditional", "Conditional", constants=K, cfg_lines=cfg)
    res = tlc.run_tlc(wd, "MC_Conditional", dump=True, heap="8g")
    ctx.add_tlc("Conditional", res, K)
    if res.violated:
        raise common.MachineryError("Conditional.tla: " + tlc.describe(res))
    tlc.check_coverage(res, ["Tick", "Modify", "Restore", "Chmod", "Plain", "Cond"])
    g = graph.Graph.load(res.dot)

    import baize.staticfiles as SF
    import baize.wsgi as W
    import baize.asgi as A
    base = os.path.join(tlc.scratch(), "c14")
    shutil.rmtree(base, True)
    os.makedirs(base)
    target = os.path.join(base, "page.html")
    with open(target, "wb") as f:
        f.write(b"...")
    proxy = OsProxy(os, os.path.realpath(target))
    saved = SF.os
    SF.os = proxy
    apps = [("Files", "wsgi", W.Files(base), "/page.html"), ("Files", "asgi", A.Files(base), "/page.html"),
            ("Pages", "wsgi", W.Pages(base), "/page"), ("Pages", "asgi", A.Pages(base), "/page.html")]
    TPS = K["TPS"]
    thin = True      # a request that ends a longest history is replayed on one of the four apps, every other edge on all four

    def set_file(fs):
        with open(target, "wb") as f:
            f.write(content(fs["ver"], fs["size"]))
        proxy.virtual = (fs["size"], BASE + fs["mtime"] / TPS, BASE + fs["ctime"] / TPS)

    def do_request(app, iface, path, headers):
        req = servers.Req(path=path, headers=headers)
        r = servers.wsgi_call(app, req) if iface == "wsgi" else servers.asgi_call(app, req)
        h = dict(r.header_multiset())
        return {"status": r.status, "body": r.body, "etag": h.get("etag"), "lm": h.get("last-modified"),
                "exc": type(r.exc).__name__ if r.exc else None}

    def headers_for(form, sent):
        tag, lm = sent["etag"], sent["lm"]
        bare = tag.strip('"') if tag else "x"
        return {
            "etag": [("If-None-Match", tag)], "weak": [("If-None-Match", "W/" + tag)],
            "listFirst": [("If-None-Match", '%s, "0000"' % tag)], "listLast": [("If-None-Match", '"0000", %s' % tag)],
            "weakListLast": [("If-None-Match", '"0000", W/%s' % tag)], "weakFirstThenTag": [("If-None-Match", 'W/"0000",%s' % tag)],
            "listTwoLines": [("If-None-Match", tag), ("If-None-Match", '"0000"')],
            "star": [("If-None-Match", "*")], "lm": [("If-Modified-Since", lm)],
            "both": [("If-None-Match", tag), ("If-Modified-Since", lm)],
            "bothRev": [("If-Modified-Since", lm), ("If-None-Match", tag)], "staleEtag": [("If-None-Match", '"0000"')],
        }[form]

    try:
        for ai, (appname, iface, app, path) in enumerate(apps):

            def make_real(init):
                return []      # real responses recorded so far (parallel to the model's resp)

            def step(real, src, lab, dst):
                s0, s1 = g.state(src), g.state(dst)
                name, args = graph.parse_action(lab)
                if name not in ("Plain", "Cond"):
                    return real
                if thin and s1["steps"] == K["MaxSteps"] and zlib.crc32(("%s>%s" % (src, dst)).encode()) % len(apps) != ai:
                    return real
                set_file(s0["file"])
                case = {"app": appname, "iface": iface, "history_len": s0["steps"], "action": lab,
                        "file": dict(s0["file"]), "clock": s0["clock"]}
                ctx.count()
                ctx.traces_validated += 1
                if name == "Plain":
                    o = do_request(app, iface, path, [])
                    exp_body = content(s0["file"]["ver"], s0["file"]["size"])
                    if o["status"] != 200 or o["body"] != exp_body or not o["etag"] or not o["lm"]:
                        ctx.violation(case, {"status": 200, "body": exp_body.decode()}, _j(o), "plain request does not return the current content with validators")
                        return None
                    return real + [o]
                j, form = args
                sent = real[j - 1]
                o = do_request(app, iface, path, headers_for(form, sent))
                want = s1["last"]
                case.update({"form": form, "validators_from_response": j, "sent": {"etag": sent["etag"], "lm": sent["lm"]}})
                if want["status"] == 304:
                    if o["status"] != 304:
                        ctx.violation(case, 304, _j(o), "unchanged file not revalidated (%s form)" % form)
                    elif o["body"] != b"":
                        ctx.violation(case, "empty body", _j(o), "304 with a body")
                else:
                    exp_body = content(s0["file"]["ver"], s0["file"]["size"])
                    if o["status"] == 304:
                        ctx.violation(case, {"status": 200, "body": exp_body.decode()}, _j(o), "stale 304: the file changed since that response")
                    elif o["status"] != 200 or o["body"] != exp_body:
                        ctx.violation(case, {"status": 200, "body": exp_body.decode()}, _j(o), "full response does not carry the new content")
                    elif o["etag"] == sent["etag"] and s0["file"]["mtime"] != s0["resp"][j - 1]["tag"][0]:
                        ctx.violation(case, "new validators", _j(o), "full response after a change carries the old ETag")
                if s0["file"]["mtime"] != s0["resp"][j - 1]["tag"][0] or form not in ("etag", "lm"):
                    ctx.nontriv((appname, iface, s0["file"], s0["resp"], form, j))
                if len(s1["resp"]) > len(s0["resp"]):
                    if o["status"] != 200 or not o["etag"] or not o["lm"]:
                        return None      # already reported; its validators cannot seed further requests
                    return real + [o]
                return real

            graph.dfs_replay(g, make_real, step)
        ctx.sample({"history_example": "Plain; RewriteSameSize; Cond(1, weakListLast) -> 200 with new validators", "apps": [a[0] + "/" + a[1] for a in apps]})
    finally:
        SF.os = saved
        shutil.rmtree(base, True)
    ctx.exhaustive = True


def _j(o):
    return {"status": o["status"], "body": o["body"][:20].decode("latin-1"), "etag": o["etag"], "lm": o["lm"], "exc": o["exc"]}


if __name__ == "__main__":
    sys.exit(common.main("C14", run))
