"""C02 - file responses deliver exactly the requested bytes with truthful framing.

spec/FileResponse.tla: Decide (status, headers, plan) then one EmitStep per yielded item / send()
following the real loops of WSGI, ASGI fake_sendfile and zero-copy.  TLC checks StatusOK,
LengthTruthful, BodyExact, MultipartShape, UnsatHeader, RangeHeader, LastOnlyFinal for every case;
every case is then executed on the real FileResponse classes against real files.
"""
import os
import shutil
import sys
from email.utils import formatdate

from .. import tlc, graph, common, servers
from . import c03

INV = ["StatusOK", "LengthTruthful", "BodyExact", "MultipartShape", "UnsatHeader", "RangeHeader", "LastOnlyFinal"]
CT = "text/x-v"
MSGLEN = len("Range header: start must be less than end")


def fl(a, b):
    return {"k": "fl", "a": a, "b": b}


def fr(a):
    return {"k": "from", "a": a, "b": 0}


def suf(n):
    return {"k": "suf", "a": 0, "b": n}


def cases(tier):
    if tier == "quick":
        sizes, chunks = [0, 1, 4, 5, 8, 10, 11], [1, 4]
        nums = [0, 1, 3, 4, 5, 9, 10]
    else:
        sizes, chunks = [0, 1, 3, 4, 5, 8, 9, 10, 11, 99, 100, 101], [1, 4, 100]
        nums = [0, 1, 3, 4, 5, 8, 9, 10, 11, 98, 99, 100]
    singles = [fl(a, b) for a in nums for b in nums] + [fr(a) for a in nums] + [suf(n) for n in nums]
    rep = [fl(0, 0), fl(0, 3), fl(1, 1), fl(3, 4), fl(4, 9), fl(5, 5), fl(9, 10), fl(0, 100), fr(3), fr(9), suf(1), suf(4), fl(5, 4)]
    if tier == "thorough":
        rep += [fl(9, 9), fl(10, 10), fl(98, 99), fl(99, 100), fl(8, 11), fr(99), suf(2), suf(100)]
    pairs = [(x, y) for x in rep for y in rep]
    triples = [(fl(0, 0), fl(2, 2), fl(1, 1)), (fl(0, 1), fl(9, 9), fl(4, 5)), (fl(9, 10), fl(0, 0), fl(5, 5)), (fl(0, 9), fl(3, 4), suf(1)),
               (suf(1), fr(8), fl(0, 0)), (fl(4, 4), fl(0, 0), fl(10, 10))]
    out = []

    def add(size, chunk, iface, method, specs, has, ifr):
        out.append({"size": size, "chunk": chunk, "iface": iface, "method": method, "specs": tuple(specs), "hasRange": has,
                    "ifr": ifr, "bl": 13, "ctl": len(CT), "msglen": MSGLEN})
    for size in sizes:
        for chunk in chunks:
            if tier == "thorough" and chunk == 100 and size < 99:
                continue
            for iface in ("wsgi", "asgi", "zerocopy"):
                add(size, chunk, iface, "GET", (), False, "absent")
                add(size, chunk, iface, "HEAD", (), False, "absent")
                for s in singles:
                    add(size, chunk, iface, "GET", (s,), True, "absent")
                for k, p in enumerate(pairs):
                    if tier == "thorough" or (k + size + chunk) % 3 == 0:
                        add(size, chunk, iface, "GET", p, True, "absent")
                for t in triples:
                    add(size, chunk, iface, "GET", t, True, "absent")
                for specs in [(fl(0, 0),), (fl(1, 3),), (fl(0, 0), fl(3, 4)), (fl(5, 4),), (fr(100),)]:
                    add(size, chunk, iface, "HEAD", specs, True, "absent")
                    for ifr in ("etag", "date", "staleEtag", "staleDate", "laterDate", "muchLaterDate", "garbage", "weakEtag"):
                        add(size, chunk, iface, "GET", specs, True, ifr)
                add(size, chunk, iface, "GET", (), False, "etag")
    return out


def big_cases(tier, seed):
    """sizes and numbers of real files: digit-count steps up to 10^6, the chunk sizes servers really use (4 KiB, 64 KiB, the classes'
    default), sizes that are exact multiples of the chunk, one to four range specs anywhere in the file"""
    import random
    rnd = random.Random(4200 + seed)
    sizes = [999, 1000, 4096, 9999, 10000, 65536, 99999, 100000, 262144, 999999] if tier == "quick" else \
        [999, 1000, 1001, 4095, 4096, 4097, 9999, 10000, 65535, 65536, 65537, 99999, 100000, 131072, 262144, 999999, 1000000]
    out = []
    n_per = 9 if tier == "quick" else 40
    for size in sizes:
        for _ in range(n_per):
            chunk = rnd.choice([4096, 65536, 262144, size, max(1, size // 2), 1000])
            iface = rnd.choice(["wsgi", "asgi", "zerocopy"])
            k = rnd.choice([0, 1, 1, 2, 2, 3, 4])
            specs = []
            for _ in range(k):
                kind = rnd.random()
                edge = [0, 9, 10, 99, 100, 999, 1000, 9999, 10000, 99999, 100000, size - 1, size, size + 1, size // 2]
                pick = lambda: max(0, rnd.choice(edge) if rnd.random() < 0.6 else rnd.randrange(size + 10))  # noqa
                if kind < 0.6:
                    a = pick()
                    b = max(a, pick()) if rnd.random() < 0.9 else pick()
                    specs.append(fl(a, b))
                elif kind < 0.8:
                    specs.append(fr(pick()))
                else:
                    specs.append(suf(max(1, pick())))
            ifr = rnd.choice(["absent"] * 6 + ["etag", "staleEtag", "date"]) if specs else "absent"
            out.append({"size": size, "chunk": chunk, "iface": iface, "method": rnd.choice(["GET", "GET", "GET", "HEAD"]), "specs": tuple(specs),
                        "hasRange": bool(specs), "ifr": ifr, "bl": 13, "ctl": len(CT), "msglen": MSGLEN})
    return out


class Files:
    def __init__(self):
        self.dir = os.path.join(tlc.scratch(), "files")
        os.makedirs(self.dir, exist_ok=True)
        self.cache = {}

    def get(self, size):
        if size not in self.cache:
            p = os.path.join(self.dir, "f%d.bin" % size)
            data = bytes(i % 251 for i in range(size))
            with open(p, "wb") as f:
                f.write(data)
            os.utime(p, (1600000000, 1600000000))
            self.cache[size] = (p, data, os.stat(p))
        return self.cache[size]


def headers_of(c, path, st):
    from baize.wsgi import FileResponse
    h = []
    if c["hasRange"]:
        h.append(("Range", c03.render([dict(s) for s in c["specs"]], 0)))
    etag = '"%s"' % FileResponse.generate_etag(st)
    ifr = {"absent": None, "etag": etag, "date": formatdate(st.st_mtime, usegmt=True), "staleEtag": '"0123456789abcdef"',
           "staleDate": formatdate(st.st_mtime - 86400, usegmt=True), "laterDate": formatdate(st.st_mtime + 1, usegmt=True),
           "muchLaterDate": formatdate(st.st_mtime + 86400 * 400, usegmt=True), "garbage": "xyz", "weakEtag": "W/" + etag}[c["ifr"]]
    if ifr is not None:
        h.append(("If-Range", ifr))
    return h


def execute(c, files):
    """run one case on the real class; returns observation dict"""
    path, data, st = files.get(c["size"])
    req = servers.Req(method=c["method"], path="/f", headers=headers_of(c, path, st))
    if c["iface"] == "wsgi":
        from baize.wsgi import FileResponse
        resp = FileResponse(path, content_type=CT, chunk_size=c["chunk"], stat_result=st)
        r = servers.wsgi_call(resp, req)
        hdr = dict((k.lower(), v) for k, v in r.headers)
        events = [(len(x), True) for x in r.items]
        raw = r
    else:
        from baize.asgi import FileResponse
        resp = FileResponse(path, content_type=CT, chunk_size=c["chunk"], stat_result=st)
        ext = {"http.response.zerocopysend": {}} if c["iface"] == "zerocopy" else None
        r = servers.asgi_call(resp, req, extensions=ext)
        hdr = dict((k.decode("latin-1").lower(), v.decode("latin-1")) for k, v in r.headers)
        events = []
        for m in r.events[1:]:
            if m["type"] == "http.response.zerocopysend":
                events.append((m.get("count", -1), m.get("more_body", False)))
            else:
                events.append((len(m.get("body", b"")), m.get("more_body", False)))
        raw = r
    return {"status": r.status, "hdr": hdr, "body": r.body, "events": events, "exc": type(r.exc).__name__ if r.exc else None,
            "raw": raw}


def expected_body(c, st_model, data, hdr):
    status = st_model["status"]
    if c["method"] == "HEAD" or status == 416:
        return b""
    if status == 400:
        return None
    if status == 200:
        return data
    ranges = [(a, b) for a, b in _parsed(c)]
    if not st_model["multi"]:
        a, b = ranges[0]
        return data[a:b]
    ctype = hdr.get("content-type", "")
    if "boundary=" not in ctype:
        return b"<no boundary>"
    boundary = ctype.split("boundary=", 1)[1]
    out = b""
    for a, b in ranges:
        out += ("--%s\nContent-Type: %s\nContent-Range: bytes %d-%d/%d\n\n" % (boundary, CT, a, b - 1, c["size"])).encode()
        out += data[a:b] + b"\n"
    return out + ("--%s--\n" % boundary).encode()


def _parsed(c):
    # the canonical ranges (same function the C03 check binds to the implementation)
    ex = []
    size = c["size"]
    for s in c["specs"]:
        if s["k"] == "fl":
            ex.append((s["a"], s["b"] + 1 if s["b"] < size else size))
        elif s["k"] == "from":
            ex.append((s["a"], size))
        else:
            ex.append((size - s["b"], size))
    res = []
    for a, b in sorted(ex):
        if res and a <= res[-1][1]:
            res[-1] = (res[-1][0], max(b, res[-1][1]))
        else:
            res.append((a, b))
    return res


def run(ctx):
    cs = cases(ctx.tier)
    big = big_cases(ctx.tier, ctx.seed)
    ctx.bounds = {"cases": len(cs), "large_cases": len(big)}
    cs = cs + big
    ctx.rule = ("every case (size, chunk, interface, method, Range specs, If-Range kind) of FileResponse.tla executed on the "
                "real classes against real files; non-trivial = 206 multipart, ranges clipped at the end, sizes that are a "
                "multiple of the chunk or around a digit-count step, If-Range gating, 400/416")
    ctx.assumptions = ["the file does not change between construction and sending", "boundary length 13, content type " + CT]
    wd = tlc.workdir_for("c02")
    tlc.sany(wd + "/FileResponse.tla")
    cfg = ["SPECIFICATION Spec", "CHECK_DEADLOCK FALSE"] + ["INVARIANT " + i for i in INV]
    files = Files()
    n = 0
    # TLC handles a constant set of a few thousand case records well, tens of thousands badly: one run per slice
    SLICE = 7000
    try:
        for off in range(0, len(cs), SLICE):
            K = {"Cases": frozenset(common_rec(c) for c in cs[off:off + SLICE])}
            name = "MC_FileResponse_%d" % (off // SLICE)
            tlc.write_mc(wd, name, "FileResponse", constants=K, cfg_lines=cfg)
            res = tlc.run_tlc(wd, name, dump=True, heap="8g")
            ctx.add_tlc("FileResponse[%d..%d)" % (off, min(off + SLICE, len(cs))), res, {"cases": len(K["Cases"])})
            if res.violated:
                raise common.MachineryError("FileResponse.tla: " + tlc.describe(res))
            tlc.check_coverage(res, ["Decide", "EmitStep", "Finish"])
            g = graph.Graph.load(res.dot)
            n = replay(ctx, g, files, n)
            os.unlink(res.dot)
        reuse(ctx, files)
    finally:
        shutil.rmtree(files.dir, True)
    ctx.exhaustive = True


def reuse(ctx, files):
    """one response object answering several requests in a row (an application object lives as long as the server): each answer
    is what a fresh object gives for the same request"""
    import itertools
    reqs = [("GET", (fl(0, 1),)), ("GET", ()), ("HEAD", ()), ("GET", (fl(0, 1), fl(5, 6))), ("GET", (fl(2, 2),)), ("GET", (fl(20, 30),)), ("HEAD", (fl(1, 3),))]
    for size, chunk in ((10, 4), (8, 4)):
        path, data, st = files.get(size)
        for iface in ("wsgi", "asgi", "zerocopy"):
            for order in itertools.permutations(range(len(reqs)), 3):
                if iface == "wsgi":
                    from baize.wsgi import FileResponse
                else:
                    from baize.asgi import FileResponse
                shared = FileResponse(path, content_type=CT, chunk_size=chunk, stat_result=st)
                hist = []
                for i in order:
                    method, specs = reqs[i]
                    c = {"size": size, "chunk": chunk, "iface": iface, "method": method, "specs": specs, "hasRange": bool(specs), "ifr": "absent"}
                    fresh = execute(c, files)
                    req = servers.Req(method=method, path="/f", headers=headers_of(c, path, st))
                    if iface == "wsgi":
                        r = servers.wsgi_call(shared, req)
                        hdr = dict((k.lower(), v) for k, v in r.headers)
                    else:
                        r = servers.asgi_call(shared, req, extensions={"http.response.zerocopysend": {}} if iface == "zerocopy" else None)
                        hdr = dict((k.decode("latin-1").lower(), v.decode("latin-1")) for k, v in r.headers)
                    ctx.count()
                    strip = lambda h: {k: (v if "boundary=" not in v else "multipart/byteranges; boundary=*") for k, v in h.items()}  # noqa
                    hist.append("%s %s" % (method, c03.render([dict(x) for x in specs], 0) if specs else "-"))
                    same_len = len(r.body) == len(fresh["body"])
                    if r.status != fresh["status"] or strip(hdr) != strip(fresh["hdr"]) or not same_len or ("boundary=" not in hdr.get("content-type", "") and r.body != fresh["body"]):
                        diff = sorted(k for k in set(hdr) | set(fresh["hdr"]) if strip(hdr).get(k) != strip(fresh["hdr"]).get(k))
                        ctx.violation({"size": size, "chunk": chunk, "iface": iface, "requests_on_one_response_object": list(hist)},
                                      {"status": fresh["status"], "headers": fresh["hdr"]}, {"status": r.status, "headers": hdr, "body_len": len(r.body)},
                                      "a response object that has answered a request answers the next one differently from a fresh one (%s)" % (", ".join(diff) or "status / body"))
                        break
                ctx.nontriv(("reuse", size, iface, order))
            if iface == "wsgi":
                continue
            # ... and two requests in flight on it at the same time (one event loop): each still gets its own framing
            import asyncio
            from baize.asgi import FileResponse as AFR
            for i, j in itertools.permutations(range(len(reqs)), 2):
                shared = AFR(path, content_type=CT, chunk_size=chunk, stat_result=st)
                ext = {"http.response.zerocopysend": {}} if iface == "zerocopy" else None
                outs = []

                async def one(k):
                    method, specs = reqs[k]
                    c = {"size": size, "chunk": chunk, "iface": iface, "method": method, "specs": specs, "hasRange": bool(specs), "ifr": "absent"}
                    scope = servers.make_scope(servers.Req(method=method, path="/f", headers=headers_of(c, path, st)), ext)
                    got = {"start": None, "len": 0}

                    async def receive():
                        await asyncio.Event().wait()

                    async def send(m):
                        await asyncio.sleep(0)
                        if m["type"] == "http.response.start":
                            got["start"] = (m["status"], sorted((a.decode("latin-1"), b.decode("latin-1")) for a, b in m["headers"]))
                        elif m["type"] == "http.response.zerocopysend":
                            got["len"] += m.get("count") or 0
                        else:
                            got["len"] += len(m.get("body", b""))
                        await asyncio.sleep(0)
                    await shared(scope, receive, send)
                    outs.append((k, c, got))
                servers.loop().run_until_complete(asyncio.gather(one(i), one(j)))
                ctx.count()
                for k, c, got in outs:
                    fresh = execute(c, files)
                    norm = lambda hs: sorted((a, b if "boundary=" not in b else "multipart/byteranges; boundary=*") for a, b in hs)  # noqa
                    if got["start"] is None or got["start"][0] != fresh["status"] or norm(got["start"][1]) != norm(fresh["hdr"].items()):
                        ctx.violation({"size": size, "chunk": chunk, "iface": iface, "two_requests_in_flight_on_one_response_object":
                                       ["%s %s" % (reqs[x][0], c03.render([dict(y) for y in reqs[x][1]], 0) if reqs[x][1] else "-") for x in (i, j)]},
                                      {"status": fresh["status"], "headers": fresh["hdr"]}, {"status": got["start"] and got["start"][0], "headers": got["start"] and dict(got["start"][1])},
                                      "two requests in flight on one response object: one of them gets the framing headers of the other")
                        break
                ctx.nontriv(("concurrent", size, iface, i, j))


def replay(ctx, g, files, n):
    if True:
        for nid in g.terminal():
            st = g.state(nid)
            if st["pc"] != "done":
                raise common.MachineryError("terminal state not done")
            c = dict(st["c"])
            n += 1
            path, data, fst = files.get(c["size"])
            o = execute(c, files)
            ctx.count()
            ctx.traces_validated += 1
            case = {"size": c["size"], "chunk": c["chunk"], "iface": c["iface"], "method": c["method"],
                    "range": c03.render([dict(s) for s in c["specs"]], 0) if c["hasRange"] else None, "if_range": c["ifr"]}
            hdr = o["hdr"]
            bad = []
            if o["exc"]:
                bad.append("response raised " + o["exc"])
            if o["status"] != st["status"]:
                bad.append("status %s, statement requires %s" % (o["status"], st["status"]))
            else:
                body = o["body"]
                if st["clen"] >= 0:
                    if hdr.get("content-length") != str(st["clen"]):
                        bad.append("Content-Length %r, expected %d" % (hdr.get("content-length"), st["clen"]))
                if "content-length" in hdr and c["method"] != "HEAD" and hdr["content-length"] != str(len(body)):
                    bad.append("declared Content-Length %s but %d body bytes sent" % (hdr["content-length"], len(body)))
                if c["method"] == "HEAD" and body != b"":
                    bad.append("HEAD sent %d body bytes" % len(body))
                cr = st["crange"]
                want_cr = None
                if cr and cr[0] == "unsat":
                    want_cr = "*/%d" % cr[1]
                elif cr and cr[0] == "range":
                    want_cr = "bytes %d-%d/%d" % (cr[1], cr[2], cr[3])
                if hdr.get("content-range") != want_cr:
                    bad.append("Content-Range %r, expected %r" % (hdr.get("content-range"), want_cr))
                eb = expected_body(c, st, data, hdr)
                if eb is not None and body != eb:
                    bad.append("body differs from the selected bytes (%d bytes sent, %d expected)" % (len(body), len(eb)))
                if st["status"] == 400 and c["size"] > 8 and data[:8] in body:
                    bad.append("400 response carries file data")
                if st["multi"] and not hdr.get("content-type", "").startswith("multipart/byteranges; boundary="):
                    bad.append("multipart content type missing")
                if not st["multi"] and st["status"] in (200, 206) and hdr.get("content-type") != CT:
                    bad.append("content type %r" % hdr.get("content-type"))
                if c["iface"] != "wsgi":
                    mores = [m for _, m in o["events"]]
                    if not mores or mores[-1] or not all(mores[:-1]):
                        bad.append("more_body flags %s: only the last body event may be final" % mores)
                # HEAD: same headers as GET
                if c["method"] == "HEAD":
                    g2 = execute(dict(c, method="GET"), files)
                    h1 = {k: v for k, v in hdr.items() if not (k == "content-type" and "boundary=" in v)}
                    h2 = {k: v for k, v in g2["hdr"].items() if not (k == "content-type" and "boundary=" in v)}
                    if h1 != h2 or o["status"] != g2["status"]:
                        bad.append("HEAD headers differ from GET headers")
            if bad:
                ctx.violation(case, {"status": st["status"], "content_length": st["clen"], "content_range": st["crange"]},
                              {"status": o["status"], "headers": hdr, "body_len": len(o["body"]), "exc": o["exc"]}, bad[0],
                              {"failed_clauses": bad, "module": "FileResponse"})
            else:
                exp_events = [((e["n"] if e["n"] >= 0 else -1), e["more"]) for e in st["ev"]]
                if st["status"] == 400:
                    exp_events = o["events"]   # message text is not modelled
                got_events = o["events"]
                if c["iface"] == "wsgi":   # WSGI items carry no more_body flag
                    exp_events = [n for n, _ in exp_events]
                    got_events = [n for n, _ in got_events]
                if got_events != exp_events:
                    ctx.drift_at(case, exp_events, got_events, "emitted pieces differ from FileResponse.tla")
            if st["multi"] or st["status"] in (400, 416) or c["ifr"] != "absent" or (c["size"] and c["size"] % c["chunk"] == 0) \
                    or (c["hasRange"] and any(s["b"] >= c["size"] for s in c["specs"] if s["k"] == "fl")):
                ctx.nontriv(tuple(sorted((k, str(v)) for k, v in case.items())))
            if n in (3, 400, 4000):
                ctx.sample({"case": case, "status": st["status"], "content_length": st["clen"], "events": [[e["n"], e["a"], e["more"]] for e in st["ev"]]})
    return n


def common_rec(c):
    from ..tlaval import Rec
    d = dict(c)
    d["specs"] = tuple(Rec(s) for s in c["specs"])
    return Rec(d)


if __name__ == "__main__":
    sys.exit(common.main("C02", run))
