"""C13 - response headers cannot be split or smuggled.

spec/HeaderMap.tla (the response header mapping: every mutating operation in terms of the checked
__setitem__) is model checked (MutationsClean, RejectAtMutation, LowerKeys) and every edge replayed
on a real MutableHeaders; every reachable store is emitted through real responses on both
interfaces.  spec/Cookie.tla gives the class-level quoting rule (OnePair); the classes are tied to
real characters by exhaustive per-character checks (all 256 for header / cookie text, delimiter
pairs, all Unicode code points for redirect targets in the thorough tier).
"""
import itertools
import sys

from .. import tlc, graph, common, servers

# tokens of the model; {CR} {LF} {NUL} stand for the control characters (a TLA+ string cannot hold them)
NAMES = {"X-A": "x-a", "x-a": "x-a", "X-b": "x-b", "x{LF}b": "x{LF}b", "n{NUL}": "n{NUL}"}
VALUES = ["v1", "v{CR}3", "v{LF}4", "v{NUL}5", "caf{E9}", ""]
BAD = {t for t in list(NAMES) + VALUES if any(x in t for x in ("{CR}", "{LF}", "{NUL}"))}
CTL = ("\r", "\n", "\0")


def real(tok):
    return tok.replace("{CR}", "\r").replace("{LF}", "\n").replace("{NUL}", "\0").replace("{E9}", "\u00e9")


def has_ctl(s):
    return any(c in s for c in CTL)


def emit_lines(headers_obj_factory):
    """header lines a response carrying these headers emits on both interfaces"""
    import baize.wsgi as W
    import baize.asgi as A
    out = {}
    for iface, pkg in (("wsgi", W), ("asgi", A)):
        r = pkg.Response(200)
        headers_obj_factory(r)
        res = servers.wsgi_call(r, servers.Req()) if iface == "wsgi" else servers.asgi_call(r, servers.Req())
        out[iface] = res.header_multiset() if res.exc is None else "exc:" + type(res.exc).__name__
    return out


def replay_headermap(ctx, g):
    from baize.datastructures import MutableHeaders

    def to_real(store):
        return {real(k): ", ".join(real(x) for x in v) for k, v in store}

    def make_real(init):
        return MutableHeaders(dict(to_real(g.state(init)["store"])))

    def step(real_obj, src, lab, dst):
        s0, s1 = g.state(src), g.state(dst)
        name, args = graph.parse_action(lab)
        args = tuple(real(a) for a in args)
        h = MutableHeaders(dict(real_obj))
        before = dict(h)
        try:
            if name == "SetItem":
                h[args[0]] = args[1]
            elif name == "AppendOp":
                h.append(args[0], args[1])
            elif name == "SetDefault":
                h.setdefault(args[0], args[1])
            elif name == "Update":
                h.update({args[0]: args[1], args[2]: args[3]})
            elif name == "DelItem":
                del h[args[0]]
            ret = "ok"
        except BaseException as e:  # noqa
            ret = type(e).__name__
        after = dict(h)
        ctx.count()
        ctx.traces_validated += 1
        case = {"store": before, "op": name, "args": list(args)}
        pairs = {"SetItem": [args[:2]], "AppendOp": [args[:2]], "SetDefault": [args[:2]], "Update": [args[:2], args[2:4]], "DelItem": []}[name]
        bad_in = any(has_ctl(k) or has_ctl(v) for k, v in pairs)
        stored_bad = [kv for kv in after.items() if has_ctl(kv[0]) or has_ctl(kv[1])]
        if stored_bad and not any(has_ctl(k) or has_ctl(v) for k, v in before.items()):
            ctx.violation(case, "rejected", {"stored": stored_bad, "ret": ret}, "a control character was stored through %s" % name)
        elif bad_in and name != "SetDefault" and ret == "ok" and not (name == "Update" and False):
            ctx.violation(case, "ValueError at the point of mutation", {"ret": ret, "store": after}, "%s accepted a name/value with a control character silently" % name)
        elif name == "SetDefault" and bad_in and ret == "ok" and after != before:
            ctx.violation(case, "ValueError", {"ret": ret}, "setdefault stored a control character")
        exp = {"store": to_real(s1["store"]), "ret": s1["ret"]}
        if {"store": after, "ret": ret} != exp:
            ctx.drift_at(case, exp, {"store": after, "ret": ret}, "header mapping differs from HeaderMap.tla")
        if bad_in:
            ctx.nontriv(("hm", tuple(sorted(before.items())), name, tuple(args)))
        # emission of the resulting store
        if ctx.n_emit < 400:
            ctx.n_emit += 1
            lines = emit_lines(lambda r: r.headers.update(after))
            for iface, ls in lines.items():
                if isinstance(ls, str) or any(has_ctl(k) or has_ctl(v) for k, v in ls):
                    ctx.violation(dict(case, iface=iface), "clean header lines", ls, "emitted header line contains CR/LF/NUL")
        return h

    return graph.dfs_replay(g, make_real, step)


def per_character(ctx):
    from baize.datastructures import MutableHeaders, Cookie
    import baize.wsgi as W
    import baize.asgi as A
    # header mapping: every one of the 256 Latin-1 characters (and a few beyond) in names and values, every mutator
    chars = [chr(i) for i in range(256)] + ["Ā", " ", "\U0001F600"]
    for c in chars:
        for where in ("value", "name"):
            for op in ("setitem", "append", "append2", "update", "setdefault"):
                h = MutableHeaders({"x-old": "1"})
                k, v = ("x-n", "a" + c + "b") if where == "value" else ("x" + c + "n", "val")
                try:
                    if op == "setitem":
                        h[k] = v
                    elif op == "append":
                        h.append(k, v)
                    elif op == "append2":
                        h.append("x-old", v) if where == "value" else h.append(k, v)
                    elif op == "update":
                        h.update({k: v})
                    else:
                        h.setdefault(k, v)
                    ret = "ok"
                except BaseException as e:  # noqa
                    ret = type(e).__name__
                ctx.count()
                stored = any(has_ctl(a) or has_ctl(b) for a, b in h.items())
                if c in CTL and (ret == "ok" or stored):
                    ctx.violation({"char": repr(c), "where": where, "op": op}, "ValueError, nothing stored", {"ret": ret, "store": dict(h)},
                                  "header %s containing %r accepted by %s" % (where, c, op))
                if c in CTL:
                    ctx.nontriv(("char", c, where, op))
    # the constructor paths (MutableHeaders(...), Response(headers=...)): the text may be refused, it must never reach a header line
    for c in sorted(CTL) + ["a", "\xe9"]:
        for where in ("value", "name"):
            k, v = ("x-n", "a" + c + "b") if where == "value" else ("x" + c + "n", "val")
            for pkg, iface in ((W, "wsgi"), (A, "asgi")):
                for how in ("mapping", "pairs", "response"):
                    case = {"char": repr(c), "where": where, "constructor": how, "iface": iface}
                    try:
                        if how == "response":
                            r = pkg.PlainTextResponse("x", 200, {k: v})
                        else:
                            r = pkg.PlainTextResponse("x")
                            r.headers = MutableHeaders({k: v} if how == "mapping" else [(k, v)])
                    except ValueError:
                        ctx.count()
                        ctx.nontriv(("ctor", c, where, how, "refused"))
                        continue
                    res = servers.wsgi_call(r, servers.Req()) if iface == "wsgi" else servers.asgi_call(r, servers.Req())
                    ctx.count()
                    if res.exc is not None and c in CTL:
                        continue          # refused while emitting: nothing went out
                    if any(has_ctl(a) or has_ctl(b) for a, b in res.header_multiset()):
                        ctx.violation(case, "refused, or clean header lines", res.header_multiset(),
                                      "header %s containing %r given to the constructor (%s) reaches the emitted header lines" % (where, c, how))
                    if c in CTL:
                        ctx.nontriv(("ctor", c, where, how, "emitted"))
    # cookies: name and value over all 256 characters, alone and next to each delimiter
    delims = [";", ",", "=", '"', "\\", " ", "\r", "\n"]
    cases = [c for c in (chr(i) for i in range(256))] + [a + b for a in delims for b in (chr(i) for i in range(256))] + \
            [b + a for a in delims for b in "\r\n\0;x"] + ["a; Domain=evil.com", "x\r\nSet-Cookie: y=1", 'v"; Secure; "', "a,b;c=d", "é;ü"]
    for text in cases:
        for where in ("value", "name"):
            for pkg, iface in ((W, "wsgi"), (A, "asgi")):
                r = pkg.Response(200)
                try:
                    if where == "value":
                        r.set_cookie("sid", text)
                    else:
                        r.set_cookie(text, "1")
                    res = servers.wsgi_call(r, servers.Req()) if iface == "wsgi" else servers.asgi_call(r, servers.Req())
                except BaseException as e:  # noqa
                    ctx.violation({"cookie_" + where: repr(text), "iface": iface}, "escaped", type(e).__name__, "set_cookie raised %s" % type(e).__name__)
                    continue
                ctx.count()
                case = {"cookie_" + where: repr(text), "iface": iface}
                if res.exc is not None:
                    if where == "value" or all(ord(ch) < 256 for ch in text):
                        ctx.violation(case, "escaped", type(res.exc).__name__, "emitting the cookie raised %s" % type(res.exc).__name__)
                    continue
                lines = [v for k, v in res.header_multiset() if k == "set-cookie"]
                if len(lines) != 1 or len(res.header_multiset()) != 2:
                    ctx.violation(case, "one set-cookie line", res.header_multiset(), "cookie text introduced another header line")
                    continue
                line = lines[0]
                if has_ctl(line) or any(ord(ch) > 126 or ord(ch) < 32 for ch in line):
                    ctx.violation(case, "clean ASCII line", line, "Set-Cookie line contains a control or non-ASCII character")
                parts = [p.strip() for p in line.split(";")]
                want_attrs = ["path=/", "samesite=lax"]
                if parts[1:] != want_attrs:
                    ctx.violation(case, {"attributes": want_attrs}, {"line": line}, "cookie %s introduced an additional attribute" % where)
                if "," in parts[0].replace("\\054", "") and False:
                    pass
                if any(d in text for d in ";,\r\n\0"):
                    ctx.nontriv(("cookie", where, text))
    # the other cookie attributes given hostile text: refused when the cookie is set, or nothing of it on the header line
    hostile = ["lax\r\nSet-Cookie: admin=1", "lax\n", "strict\0", "lax; domain=evil.example", "none\r", "lax\r\n\r\n<html>"]
    for attr in ("samesite", "path", "domain"):
        for text in hostile:
            for pkg, iface in ((W, "wsgi"), (A, "asgi")):
                r = pkg.Response(200)
                case = {"cookie_attribute": attr, "text": repr(text), "iface": iface}
                ctx.count()
                try:
                    r.set_cookie("sid", "v", **{attr: text})
                except (ValueError, TypeError):
                    ctx.nontriv(("cookie-attr", attr, text, "refused"))
                    continue
                res = servers.wsgi_call(r, servers.Req()) if iface == "wsgi" else servers.asgi_call(r, servers.Req())
                if res.exc is not None:
                    continue      # refused at emission: nothing went out
                lines = [v for k, v in res.header_multiset() if k == "set-cookie"]
                if len(res.header_multiset()) != 2 or len(lines) != 1 or has_ctl(lines[0]) or "evil.example" in lines[0] or "admin" in lines[0]:
                    ctx.violation(case, "refused, or one clean Set-Cookie line without the injected text", res.header_multiset(),
                                  "cookie attribute %s is written to the header line unchecked (%r)" % (attr, text[:24]))
                ctx.nontriv(("cookie-attr", attr, text, "emitted"))
    # redirect targets
    import urllib.parse
    cps = range(0x110000) if ctx.tier == "thorough" else itertools.chain(range(0x3000), range(0xD700, 0xE100), range(0xFF00, 0x10100), range(0x1F600, 0x1F650))
    safe = set("/#%[]=:;$&()+,!?*@'~" + "abcdefghijklmnopqrstuvwxyzABCDEFGHIJKLMNOPQRSTUVWXYZ0123456789_.-")
    for cp in cps:
        if 0xD800 <= cp <= 0xDFFF:
            continue
        c = chr(cp)
        url = "/a" + c + "b"
        try:
            r = W.RedirectResponse(url)
            loc = r.headers["location"]
        except BaseException as e:  # noqa
            ctx.violation({"redirect": repr(url)}, "escaped", type(e).__name__, "redirect target raised %s" % type(e).__name__)
            continue
        ctx.count()
        if any(ch not in safe for ch in loc):
            ctx.violation({"redirect": repr(url)}, "URI-safe ASCII", loc, "redirect Location contains an unsafe character")
        elif urllib.parse.unquote(loc) != url and c != "%":
            ctx.violation({"redirect": repr(url)}, url, loc, "redirect Location does not denote the target")
    for url in ("/x\r\nSet-Cookie: a=b", "/\0", "http://h/ ", "/a b\tc"):
        for pkg, iface in ((W, "wsgi"), (A, "asgi")):
            r = pkg.RedirectResponse(url)
            res = servers.wsgi_call(r, servers.Req()) if iface == "wsgi" else servers.asgi_call(r, servers.Req())
            ctx.count()
            hs = res.header_multiset()
            if res.exc or any(has_ctl(k) or has_ctl(v) or " " in v for k, v in hs if k == "location") or len(hs) != 2:
                ctx.violation({"redirect": repr(url), "iface": iface}, "one clean location line", hs, "redirect target split the header")
            ctx.nontriv(("redirect", url, iface))


T_NAMES = {"X-A": "x-a", "x-a": "x-a", "X-b": "x-b", "x-b": "x-b", "X-C": "x-c", "Content-Type": "content-type", "x{LF}b": "x{LF}b",
           "n{NUL}": "n{NUL}", "X{CR}": "x{CR}"}
T_VALUES = ["v1", "v2", "", "caf{E9}", "a;b=c", "v{CR}3", "v{LF}4", "v{NUL}5", "{LF}"]


def long_sequences(ctx):
    """code -> spec: long random operation sequences on one MutableHeaders, every call logged at its return with the full store,
    validated by TLC against HeaderMap.tla's actions with its invariants on"""
    import random
    from .. import tracecheck
    from baize.datastructures import MutableHeaders
    wd = tlc.workdir_for("c13trace")
    back = {real(t): t for t in list(T_NAMES) + list(T_NAMES.values()) + T_VALUES}
    rnd = random.Random(77 + ctx.seed)
    n_tr, n_ops = (150, 60) if ctx.tier == "quick" else (600, 100)
    bad = {t for t in list(T_NAMES) + T_VALUES if any(x in t for x in ("{CR}", "{LF}", "{NUL}"))}

    def project(h):
        return [[back.get(k, k), [back.get(x, x) for x in v.split(", ")]] for k, v in h.items()]

    traces, finals = [], []
    for _ in range(n_tr):
        h = MutableHeaders()
        events = []
        for _ in range(n_ops):
            op = rnd.choice(["SetItem", "SetItem", "AppendOp", "AppendOp", "SetDefault", "Update", "DelItem"])
            pb = 0.15
            pick_n = lambda: rnd.choice([n for n in T_NAMES if (n in bad) == (rnd.random() < pb)] or list(T_NAMES))  # noqa
            pick_v = lambda: rnd.choice([v for v in T_VALUES if (v in bad) == (rnd.random() < pb)] or T_VALUES)  # noqa
            k, v, k2, v2 = pick_n(), pick_v(), pick_n(), pick_v()
            if op == "Update" and k2 == k:
                continue
            try:
                if op == "SetItem":
                    h[real(k)] = real(v)
                elif op == "AppendOp":
                    h.append(real(k), real(v))
                elif op == "SetDefault":
                    h.setdefault(real(k), real(v))
                elif op == "Update":
                    h.update({real(k): real(v), real(k2): real(v2)})
                else:
                    del h[real(k)]
                ret = "ok"
            except (ValueError, KeyError) as e:
                ret = type(e).__name__
            events.append({"op": op, "k": k, "v": v, "k2": k2, "v2": v2, "ret": ret, "store": project(h)})
            ctx.count()
            if k in bad or v in bad or (op == "Update" and (k2 in bad or v2 in bad)):
                ctx.nontriv(("seq", len(traces), len(events)))
        traces.append({"init": [], "events": events})
        finals.append(dict(h))
    K = dict(Names=frozenset(T_NAMES), Values=frozenset(T_VALUES), BadTokens=frozenset(bad), LowerOf=frozenset(T_NAMES.items()),
             MaxOps=10 ** 6, Initial=frozenset({()}), UpdFirst=frozenset())
    acc, rejected = tracecheck.validate(wd, "TraceHeaderMap", traces, constants=K, invariants=["TClean", "LowerKeys"])
    ctx.traces_validated += acc
    for tid, name, st in tracecheck.validate.last_invariant_failures:
        ctx.violation({"ops": [[e["op"], e["k"], e["v"]] for e in traces[tid]["events"][:(st or {}).get("l", 1) - 1]][-6:], "source": "long recorded sequence"},
                      "invariant " + name, (st or {}).get("store"), "recorded operation sequence reaches a store violating %s of HeaderMap.tla" % name)
    for tid, prefix in rejected:
        t = traces[tid]
        if prefix >= len(t["events"]):
            continue
        e = t["events"][prefix]
        before = t["events"][prefix - 1]["store"] if prefix else []
        case = {"store_before": before, "op": e["op"], "args": [e["k"], e["v"]] + ([e["k2"], e["v2"]] if e["op"] == "Update" else []),
                "after_operations": prefix, "source": "long recorded sequence"}
        given = [e["k"], e["v"]] + ([e["k2"], e["v2"]] if e["op"] == "Update" else [])
        if e["op"] == "DelItem":
            given = []
        dirty = [p for p in e["store"] if p[0] in bad or any(x in bad for x in p[1])]
        if dirty:
            ctx.violation(case, "rejected", {"stored": dirty, "ret": e["ret"]}, "a control character was stored through %s (after %d operations)" % (e["op"], prefix))
        elif any(x in bad for x in given) and e["ret"] == "ok" and e["op"] != "SetDefault":
            ctx.violation(case, "ValueError at the point of mutation", {"ret": e["ret"], "store": e["store"]},
                          "%s accepted a name/value with a control character silently (after %d operations)" % (e["op"], prefix))
        else:
            ctx.drift_at(case, "a behaviour of HeaderMap.tla", e, "recorded operation sequence is not a behaviour of HeaderMap.tla at event %d" % (prefix + 1))
    # the final store of every sequence goes out through real responses
    for fin in finals[:60]:
        lines = emit_lines(lambda r: r.headers.update(fin))
        for iface, ls in lines.items():
            if isinstance(ls, str) or any(has_ctl(k) or has_ctl(v) for k, v in ls):
                ctx.violation({"store": fin, "iface": iface, "source": "long recorded sequence"}, "clean header lines", ls, "emitted header line contains CR/LF/NUL")
    # binding self-test: a falsified store must be rejected
    import copy
    fal = []
    for t in traces[:10]:
        t2 = copy.deepcopy(t)
        i = len(t2["events"]) // 2
        t2["events"][i]["store"] = t2["events"][i]["store"] + [["x-zz", ["v1"]]]
        t2["events"] = t2["events"][:i + 1]
        fal.append(t2)
    K2 = dict(K, Names=frozenset(list(T_NAMES) + ["x-zz"]), LowerOf=frozenset(list(T_NAMES.items()) + [("x-zz", "x-zz")]))
    acc2 = 0
    if ctx.conforming() and not rejected:
        acc2, _ = tracecheck.validate(wd, "TraceHeaderMap", fal, constants=K2)
    if acc2:
        raise common.MachineryError("binding self-test: %d falsified header-map traces accepted" % acc2)
    ctx.notes.append("TraceHeaderMap: %d sequences of %d operations validated; %d falsified ones rejected" % (len(traces), n_ops, len(fal)))
    ctx.sample({"long_sequence_events": traces[0]["events"][:3]})


def run(ctx):
    K = dict(Names=frozenset(NAMES), Values=frozenset(VALUES), BadTokens=frozenset(BAD), LowerOf=frozenset(NAMES.items()),
             MaxOps=2 if ctx.tier == "quick" else 3, Initial=frozenset({(), (("x-a", ("v1",)),)}),
             UpdFirst=frozenset({("X-A", "v1"), ("x{LF}b", "v1"), ("X-b", "v{CR}3")}))
    ctx.bounds = {"names": len(NAMES), "values": len(VALUES), "MaxOps": K["MaxOps"]}
    ctx.rule = ("every operation sequence of HeaderMap.tla replayed on MutableHeaders and emitted on both interfaces; every one of the "
                "256 characters (header name/value x 5 mutation paths; cookie name/value alone and beside 8 delimiters) and redirect "
                "targets over Unicode; non-trivial = inputs containing CR, LF, NUL, ';' or ','")
    ctx.assumptions = ["the constructor argument headers= is not a mutating operation", "cookie names/values are Latin-1",
                       "cookie attributes other than name/value (path, domain) come from the application, not from user text"]
    wd = tlc.workdir_for("c13")
    tlc.sany(wd + "/HeaderMap.tla")
    cfg = ["SPECIFICATION Spec", "CHECK_DEADLOCK FALSE", "INVARIANT Clean", "INVARIANT LowerKeys", "PROPERTY MutationsClean", "PROPERTY RejectAtMutation"]
    tlc.write_mc(wd, "MC_HeaderMap", "HeaderMap", constants=K, cfg_lines=cfg)
    res = tlc.run_tlc(wd, "MC_HeaderMap", dump=True, heap="6g")
    ctx.add_tlc("HeaderMap", res, ctx.bounds)
    if res.violated:
        raise common.MachineryError("HeaderMap.tla: " + tlc.describe(res))
    tlc.check_coverage(res, ["SetItem", "AppendOp", "SetDefault", "Update", "DelItem"])
    # class-level quoting rule
    tlc.sany(wd + "/Cookie.tla")
    KC = dict(MaxLen=3, Zones=frozenset({0}), Nows=frozenset({0}), Deltas=frozenset({0}))
    tlc.write_mc(wd, "MC_CookieQuote", "Cookie", constants=KC, cfg_lines=["SPECIFICATION Spec", "CHECK_DEADLOCK FALSE", "INVARIANT OnePair", "INVARIANT RoundTrip"])
    cres = tlc.run_tlc(wd, "MC_CookieQuote", heap="4g")
    ctx.add_tlc("Cookie(quoting)", cres, KC)
    if cres.violated:
        raise common.MachineryError("Cookie.tla: " + tlc.describe(cres))
    g = graph.Graph.load(res.dot)
    ctx.n_emit = 0
    n = replay_headermap(ctx, g)
    ctx.bounds["edges_replayed"] = n
    long_sequences(ctx)
    per_character(ctx)
    ctx.sample({"header_op": "append('X-A', 'v\\r3') on {'x-a': 'v1'} -> ValueError, store unchanged"})
    ctx.sample({"cookie_value": "a; Domain=evil.com", "emitted": 'sid="a\\073 Domain=evil.com"; path=/; samesite=lax'})


if __name__ == "__main__":
    sys.exit(common.main("C13", run))
