"""C17 - multi-value mappings stay consistent under any operation sequence.

spec/MultiMap.tla models both internal representations and every mutator's algorithm; TLC checks
Consistent / ViewsAgree / PostConditions in every reachable state; every edge of the state graph
is replayed on a real MutableMultiMapping (several concretisations of keys, values and of the
constructor form); long random sequences are validated against TraceMultiMap.tla.
"""
import random
import sys

from .. import tlc, graph, common, tracecheck
from ..tlaval import Raw

CONSTS = {
    "quick": dict(Keys=frozenset({"a", "b"}), Vals=frozenset({"1", "2"}), MaxInit=3, MaxLen=4, MaxSetList=2),
    "thorough": dict(Keys=frozenset({"a", "b"}), Vals=frozenset({"1", "2"}), MaxInit=4, MaxLen=5, MaxSetList=2),
}
# thorough also: three keys with shorter lists (TLC needs 2 min for it: Update ranges over all sub-mappings), one concretisation
THOROUGH_3KEYS = dict(Keys=frozenset({"a", "b", "c"}), Vals=frozenset({"1", "2"}), MaxInit=2, MaxLen=3, MaxSetList=2)
INVARIANTS = ["Consistent", "ViewsAgree", "PostConditions"]
ACTIONS = ["SetItem", "DelItem", "SetList", "PopList", "AppendOp", "Pop", "PopItem", "Clear", "SetDefault", "Update"]

KEYMAPS = [{"a": "a", "b": "b", "c": "c"}, {"a": "k&=", "b": " ", "c": "%41"}, {"a": "\u00e9", "b": "+%", "c": ""}]
VALMAPS = [{"1": "1", "2": "2", "3": "3"}, {"1": "", "2": "x y", "3": "&"}, {"1": "\u00fc&", "2": "=", "3": "+"}]
MISSING = object()


class Driver:
    def __init__(self, init_pairs, km, vm, form=0):
        from baize.datastructures import MutableMultiMapping, MultiMapping
        self.km, self.vm = km, vm
        pairs = [(km[k], vm[v]) for k, v in init_pairs]
        keys = [k for k, _ in pairs]
        if form == 1:
            raw = iter(pairs)
        elif form == 2:
            raw = MultiMapping(pairs)
        elif form == 3 and len(set(keys)) == len(keys):
            raw = dict(pairs)
        elif form == 4 and not pairs:
            raw = None
        else:
            raw = list(pairs)
        self.source = raw if form == 2 else None
        self.source_items = list(raw.multi_items()) if form == 2 else None
        # the caller's own pair list, and mappings built from that very list object before and after ours
        self.caller_list = raw if isinstance(raw, list) else None
        self.caller_copy = list(raw) if isinstance(raw, list) else None
        from baize.datastructures import QueryParams, FormData
        self.same_list = [QueryParams(raw)] if isinstance(raw, list) else []
        self.m = MutableMultiMapping(raw)
        if isinstance(raw, list):
            self.same_list.append(FormData(raw))
        self.universe = sorted(set(km.values()))

    def snapshot_siblings(self):
        """mappings built FROM this instance (and the one it was built from) are independent objects"""
        from baize.datastructures import QueryParams, FormData, MutableMultiMapping
        sib = [QueryParams(self.m), FormData(self.m), MutableMultiMapping(self.m)]
        if self.source is not None:
            sib.append(self.source)
        sib.extend(self.same_list)
        return [(o, [tuple(p) for p in o.multi_items()], list(o), {k: o.getlist(k) for k in self.universe}) for o in sib]

    def siblings_changed(self, snap):
        if self.caller_list is not None and self.caller_list != self.caller_copy:
            return "the list the mapping was built from changed when the mapping was mutated: %r -> %r" % (self.caller_copy, self.caller_list)
        for o, items, keys, lists in snap:
            now = [tuple(p) for p in o.multi_items()]
            if now != items or list(o) != keys or any(o.getlist(k) != v for k, v in lists.items()):
                return "%s built from the mapping changed when the mapping was mutated: %r -> %r" % (type(o).__name__, items, now)
            for k, v in lists.items():
                if (k in o) != bool(v) or (v and o[k] != v[-1]):
                    return "%s built from the mapping became inconsistent after the mapping was mutated" % type(o).__name__
        return None

    def views(self):
        m = self.m
        v = {"items": [tuple(p) for p in m.multi_items()], "dict": [tuple(p) for p in m.items()], "keys": list(m),
             "len": len(m), "getlist": {}, "getitem": {}, "contains": {}}
        for k in self.universe:
            v["getlist"][k] = list(m.getlist(k))
            v["contains"][k] = k in m
            try:
                v["getitem"][k] = m[k]
            except KeyError:
                v["getitem"][k] = "<KeyError>"
            except Exception as e:  # noqa
                v["getitem"][k] = "<%s>" % type(e).__name__
        return v

    def call(self, name, args):
        m, km, vm = self.m, self.km, self.vm
        try:
            if name == "SetItem":
                m[km[args[0]]] = vm[args[1]]
                ret = ("none",)
            elif name == "DelItem":
                del m[km[args[0]]]
                ret = ("none",)
            elif name == "SetList":
                m.setlist(km[args[0]], [vm[x] for x in args[1]])
                ret = ("none",)
            elif name == "PopList":
                ret = ("list", tuple(m.poplist(km[args[0]])))
            elif name == "AppendOp":
                m.append(km[args[0]], vm[args[1]])
                ret = ("none",)
            elif name == "Pop":
                if args[1]:
                    r = m.pop(km[args[0]], MISSING)
                    ret = ("default",) if r is MISSING else ("val", r)
                else:
                    ret = ("val", m.pop(km[args[0]]))
            elif name == "PopItem":
                k, v = m.popitem()
                ret = ("item", k, v)
            elif name == "Clear":
                m.clear()
                ret = ("none",)
            elif name == "SetDefault":
                ret = ("val", m.setdefault(km[args[0]], vm[args[1]]))
            elif name == "Update":
                m.update({km[k]: vm[v] for k, v in args[0]})
                ret = ("none",)
            else:
                raise common.MachineryError("unknown action " + name)
        except common.MachineryError:
            raise
        except BaseException as e:
            ret = (type(e).__name__,)
        return ret


def clauses(d, name, args, pre, post, ret):
    """C17's statement evaluated on one real call (pre/post = views before/after)."""
    bad = []
    L = post["items"]
    keys_in_L = []
    for k, _ in L:
        if k not in keys_in_L:
            keys_in_L.append(k)
    # views agree with the plain ordered list of pairs
    for k in d.universe:
        want = [v for kk, v in L if kk == k]
        if post["getlist"][k] != want:
            bad.append("getlist(%r) = %r but the item list holds %r" % (k, post["getlist"][k], want))
        if post["contains"][k] != bool(want):
            bad.append("membership of %r is %r but the item list holds %r" % (k, post["contains"][k], want))
        if want and post["getitem"][k] != want[-1]:
            bad.append("m[%r] = %r, last value in the item list is %r" % (k, post["getitem"][k], want[-1]))
        if not want and post["getitem"][k] != "<KeyError>":
            bad.append("m[%r] = %r for a key without pairs" % (k, post["getitem"][k]))
    if sorted(post["keys"]) != sorted(keys_in_L) or len(post["keys"]) != len(set(post["keys"])):
        bad.append("keys %r differ from the distinct keys of the item list %r" % (post["keys"], keys_in_L))
    if post["len"] != len(keys_in_L):
        bad.append("len = %d, distinct keys = %d" % (post["len"], len(keys_in_L)))
    if [k for k, _ in post["dict"]] != post["keys"]:
        bad.append("items() keys differ from iteration order")
    # operation post-conditions on the ordered list of pairs
    Lp = pre["items"]
    km, vm = d.km, d.vm

    def vals(lst, k):
        return [v for kk, v in lst if kk == k]

    def others(lst, k):
        return [p for p in lst if p[0] != k]

    had = lambda k: bool(vals(Lp, k))  # noqa
    if name in ("SetItem", "AppendOp", "SetDefault", "DelItem", "PopList", "Pop", "SetList"):
        k = km[args[0]]
        if others(L, k) != others(Lp, k):
            bad.append("%s(%r) changed pairs of other keys" % (name, k))
    if name == "SetItem":
        k, v = km[args[0]], vm[args[1]]
        if vals(L, k) != [v] or ret != ("none",):
            bad.append("after m[%r] = %r its value list is %r (ret %r)" % (k, v, vals(L, k), ret))
    elif name == "AppendOp":
        k, v = km[args[0]], vm[args[1]]
        if L != Lp + [(k, v)]:
            bad.append("append(%r, %r) did not add the pair at the end" % (k, v))
    elif name == "SetDefault":
        k, v = km[args[0]], vm[args[1]]
        if had(k):
            if L != Lp or ret != ("val", vals(Lp, k)[-1]):
                bad.append("setdefault on an existing key changed the mapping or returned %r" % (ret,))
        elif vals(L, k) != [v] or ret != ("val", v):
            bad.append("setdefault on a missing key: value list %r, returned %r" % (vals(L, k), ret))
    elif name == "DelItem":
        k = km[args[0]]
        if vals(L, k):
            bad.append("del m[%r] left values %r" % (k, vals(L, k)))
        if (ret == ("KeyError",)) != (not had(k)) or ret not in (("none",), ("KeyError",)):
            bad.append("del m[%r]: outcome %r with key %s" % (k, ret, "present" if had(k) else "absent"))
    elif name == "PopList":
        k = km[args[0]]
        if ret != ("list", tuple(vals(Lp, k))) or vals(L, k):
            bad.append("poplist(%r) returned %r, held %r, left %r" % (k, ret, vals(Lp, k), vals(L, k)))
    elif name == "Pop":
        k = km[args[0]]
        if had(k):
            if ret != ("val", vals(Lp, k)[-1]) or vals(L, k):
                bad.append("pop(%r) returned %r, last value was %r, left %r" % (k, ret, vals(Lp, k)[-1], vals(L, k)))
        else:
            want = ("default",) if args[1] else ("KeyError",)
            if ret != want or L != Lp:
                bad.append("pop of a missing key: %r (want %r)" % (ret, want))
    elif name == "SetList":
        k, vs = km[args[0]], [vm[x] for x in args[1]]
        if vals(L, k) != vs:
            bad.append("setlist(%r, %r) left value list %r" % (k, vs, vals(L, k)))
    elif name == "PopItem":
        if not Lp:
            if ret != ("KeyError",):
                bad.append("popitem on an empty mapping: %r" % (ret,))
        else:
            if ret[0] != "item" or not had(ret[1]) or ret[2] != vals(Lp, ret[1])[-1]:
                bad.append("popitem returned %r which is not (key, last value) of the mapping" % (ret,))
            elif vals(L, ret[1]) or others(L, ret[1]) != others(Lp, ret[1]):
                bad.append("popitem(%r) did not remove exactly that key" % (ret[1],))
    elif name == "Clear":
        if L or post["len"]:
            bad.append("clear left %r" % (L,))
    elif name == "Update":
        mp = {km[k]: vm[v] for k, v in args[0]}
        for k in d.universe:
            if k in mp and vals(L, k) != [mp[k]]:
                bad.append("update: key %r has values %r, want [%r]" % (k, vals(L, k), mp[k]))
            if k not in mp and vals(L, k) != vals(Lp, k):
                bad.append("update changed the untouched key %r" % k)
    return bad


def sibling_views(d, post):
    """QueryParams / FormData / MultiMapping built from the same pairs expose the same views;
    a query mapping parsed from its own string form equals itself"""
    from baize.datastructures import QueryParams, FormData, MultiMapping, MutableMultiMapping
    bad = []
    L = post["items"]
    for cls in (QueryParams, FormData, MultiMapping, MutableMultiMapping):
        o = cls(list(L))
        if [tuple(p) for p in o.multi_items()] != L:
            bad.append("%s(pairs).multi_items() differs" % cls.__name__)
        if list(o) != post["keys"] and sorted(o) != sorted(post["keys"]):
            bad.append("%s(pairs) keys differ" % cls.__name__)
        if len(o) != post["len"]:
            bad.append("%s(pairs) length differs" % cls.__name__)
        for k in d.universe:
            if o.getlist(k) != post["getlist"][k]:
                bad.append("%s(pairs).getlist(%r) differs" % (cls.__name__, k))
            if (k in o) != post["contains"][k]:
                bad.append("%s(pairs) membership of %r differs" % (cls.__name__, k))
            if k in o and o[k] != post["getitem"][k]:
                bad.append("%s(pairs)[%r] differs" % (cls.__name__, k))
    q = QueryParams(list(L))
    q2 = QueryParams(str(q))
    if not (q2 == q) or [tuple(p) for p in q2.multi_items()] != L:
        bad.append("QueryParams(str(q)) != q for %r (string form %r)" % (L, str(q)))
    q3 = QueryParams(str(q).encode("latin-1")) if all(ord(c) < 256 for c in str(q)) else q
    if not (q3 == q):
        bad.append("QueryParams(bytes(str(q))) != q for %r" % (L,))
    if not (d.m == MutableMultiMapping(list(L))):
        bad.append("mapping is not == to a fresh mapping of its own item list")
    return bad


def expect(st, km, vm):
    def cv(x):
        return vm.get(x, x) if isinstance(x, str) else x
    r = st["ret"]
    if r[0] == "val":
        r = ("val", vm[r[1]])
    elif r[0] == "list":
        r = ("list", tuple(vm[x] for x in r[1]))
    elif r[0] == "item":
        r = ("item", km[r[1]], vm[r[2]])
    return {"items": [(km[k], vm[v]) for k, v in st["lst"]], "dict": [(km[k], vm[v]) for k, v in st["dct"]], "ret": tuple(r)}


def replay_graph(ctx, g, variants=None):
    parent = g.bfs_tree()
    n = 0
    for a, lab, b in g.edges():
        init, path = g.path_to(parent, a)
        name, args = graph.parse_action(lab)
        for variant in range(variants or (2 if ctx.tier == "quick" else 3)):
            ci = (n + variant) % 3
            km, vm = KEYMAPS[ci], VALMAPS[(ci + variant) % 3]
            d = Driver(g.state(init)["lst"], km, vm, form=(n + variant) % 5)
            calls = []
            for l, _ in path:
                pn, pa = graph.parse_action(l)
                d.call(pn, pa)
                calls.append(l)
            pre = d.views()
            snap = d.snapshot_siblings()
            ret = d.call(name, args)
            post = d.views()
            calls.append(lab)
            failed = clauses(d, name, args, pre, post, ret) + sibling_views(d, post)
            alias = d.siblings_changed(snap)
            if alias:
                failed.append(alias)
            exp = expect(g.state(b), km, vm)
            obs = {"items": post["items"], "dict": post["dict"], "ret": ret}
            case = {"init": [list(p) for p in g.state(init)["lst"]], "calls": calls, "keys": km, "vals": vm}
            if failed:
                ctx.violation(case, exp, obs, failed[0], {"failed_clauses": failed[:6], "module": "MultiMap"})
            elif obs != exp:
                ctx.drift_at(case, exp, obs, "MultiMap state differs from the specification")
            ctx.traces_validated += 1
            ctx.count()
        n += 1
        ps = g.state(a)
        if len(set(k for k, _ in ps["lst"])) < len(ps["lst"]):  # a key with several values is involved
            ctx.nontriv((ps["lst"], ps["dct"], lab))
        if n <= 3:
            ctx.sample({"init": g.state(init)["lst"], "calls": calls, "observed": obs})


def random_traces(ctx, n_traces, length, rnd):
    keys, vals = ["a", "b", "c"], ["1", "2", "3"]
    km, vm = KEYMAPS[0], VALMAPS[0]
    traces = []
    for _ in range(n_traces):
        init = [(rnd.choice(keys), rnd.choice(vals)) for _ in range(rnd.randint(0, 5))]
        d = Driver(init, km, vm, form=rnd.randint(0, 4))
        events = []
        for _ in range(rnd.randint(1, length)):
            name = rnd.choice(ACTIONS + ["SetItem", "AppendOp", "AppendOp", "SetList"])
            k, v = rnd.choice(keys), rnd.choice(vals)
            ev = {"op": name, "k": k, "v": v, "vs": [], "m": [], "hd": False}
            if name in ("SetItem", "AppendOp", "SetDefault"):
                args = (k, v)
            elif name in ("DelItem", "PopList"):
                args = (k,)
            elif name == "Pop":
                ev["hd"] = rnd.random() < 0.5
                args = (k, ev["hd"])
            elif name == "SetList":
                ev["vs"] = [rnd.choice(vals) for _ in range(rnd.randint(0, 3))]
                args = (k, tuple(ev["vs"]))
            elif name == "Update":
                ks = rnd.sample(keys, rnd.randint(0, 3))
                ev["m"] = [[x, rnd.choice(vals)] for x in ks]
                args = (tuple(tuple(p) for p in ev["m"]),)
            else:
                args = ()
            pre = d.views()
            ret = d.call(name, args)
            post = d.views()
            failed = clauses(d, name, args, pre, post, ret)
            if failed:
                ctx.violation({"init": init, "calls": [e["op"] for e in events] + [name], "source": "random trace"},
                              None, {"items": post["items"], "ret": ret}, failed[0], {"failed_clauses": failed[:6]})
            ev["items"] = [list(p) for p in post["items"]]
            ev["dict"] = [list(p) for p in post["dict"]]
            r = list(ret)
            if r and r[0] == "list":
                r = ["list", list(r[1])]
            ev["ret"] = r
            events.append(ev)
        traces.append({"init": [list(p) for p in init], "events": events})
    return traces


def run(ctx):
    K = CONSTS[ctx.tier]
    ctx.bounds = {k: (sorted(v) if isinstance(v, frozenset) else v) for k, v in K.items()}
    ctx.rule = ("every (state, operation) edge of the TLC graph from every initial pair list, each under 2-3 "
                "concretisations of keys/values/constructor form; non-trivial = distinct (state, operation) where "
                "the pre-state has a key with several values")
    ctx.assumptions = ["keys and values are hashable, comparable strings"]
    wd = tlc.workdir_for("c17")
    tlc.sany(wd + "/MultiMap.tla")
    cfg = ["SPECIFICATION Spec", "CONSTRAINT Bound", "CHECK_DEADLOCK FALSE"] + ["INVARIANT " + i for i in INVARIANTS]
    tlc.write_mc(wd, "MC_MultiMap", "MultiMap", constants=K, cfg_lines=cfg)
    res = tlc.run_tlc(wd, "MC_MultiMap", dump=True)
    ctx.add_tlc("MultiMap", res, K)
    if res.violated:
        raise common.MachineryError("MultiMap.tla: " + tlc.describe(res))
    tlc.check_coverage(res, ACTIONS)
    g = graph.Graph.load(res.dot)
    if len(g) != res.distinct:
        raise common.MachineryError("graph dump has %d nodes, TLC reports %d" % (len(g), res.distinct))
    replay_graph(ctx, g)
    if ctx.tier == "thorough":
        tlc.write_mc(wd, "MC_MultiMap3", "MultiMap", constants=THOROUGH_3KEYS, cfg_lines=cfg)
        res3 = tlc.run_tlc(wd, "MC_MultiMap3", dump=True)
        ctx.add_tlc("MultiMap(3 keys)", res3, THOROUGH_3KEYS)
        if res3.violated:
            raise common.MachineryError("MultiMap.tla: " + tlc.describe(res3))
        replay_graph(ctx, graph.Graph.load(res3.dot), variants=1)
    ctx.exhaustive = True

    rnd = random.Random(ctx.seed)
    traces = random_traces(ctx, 200 if ctx.tier == "quick" else 2000, 60 if ctx.tier == "quick" else 300, rnd)
    tk = dict(Keys=frozenset({"a", "b", "c"}), Vals=frozenset({"1", "2", "3"}), MaxInit=0, MaxLen=0, MaxSetList=0)
    acc, rejected = tracecheck.validate(wd, "TraceMultiMap", traces, constants=tk, invariants=["Consistent", "ViewsAgree"])
    ctx.traces_validated += acc
    ctx.count(len(traces))
    for tid, name, st in tracecheck.validate.last_invariant_failures:
        ctx.violation({"init": traces[tid]["init"], "source": "random trace"}, "invariant " + name, st,
                      "recorded execution reaches a state violating %s of MultiMap.tla" % name)
    for tid, prefix in rejected:
        t = traces[tid]
        ctx.drift_at({"init": t["init"], "ops": [e["op"] for e in t["events"][:prefix + 1]]}, "a behaviour of MultiMap.tla",
                     t["events"][prefix] if prefix < len(t["events"]) else None,
                     "recorded execution is not a behaviour of MultiMap.tla at event %d" % (prefix + 1))
    ctx.sample({"trace_init": traces[0]["init"], "events": traces[0]["events"][:4]})


if __name__ == "__main__":
    sys.exit(common.main("C17", run))
