"""Shared by C01 and C15: scenarios, concretisation and drivers for spec/Multipart.tla."""
import asyncio
import itertools

from .. import graph, common, servers
from ..tlaval import Rec

UNL = 99
BND = ("b",)


def contents(alpha, n, delim):
    out = []
    for k in range(n + 1):
        for t in itertools.product(alpha, repeat=k):
            s = "".join(t)
            if delim in s:
                continue
            out.append(t)
    return out


def part(kind, content):
    return Rec(kind=kind, content=tuple(content))


X_VARIANTS = [b"a", b"\x00", b"\xff", b"\xc3\xa9"]   # the last one: a two-byte UTF-8 character (helper level only)
S_VARIANTS = [b" ", b"\t"]
FIELD_HDR = [b'Content-Disposition: form-', b'data; name="f\xc3\xa9"']
FILE_HDR = [b'Content-Disposition: form-data; name="u1"; file', b'name="n\xc3\xa4me.bin"\r\nContent-', b'Type: application/x-t']
# header block variants used at helper level (hv): odd control characters inside a name, a second header line in another encoding
FIELD_HDR_V = {1: [b'Content-Disposition: form-', b'data; name="f\x0b\xc3\xa9\x1c"'],
               2: [b'X-Note: caf\xe9\r\nContent-Disposition: form-', b'data; name="f\xc3\xa9"']}
FILE_HDR_V = {1: [b'Content-Disposition: form-data; name="u1"; file', b'name="n\x0c\xc3\xa4me.bin"\r\nContent-', b'Type: application/x-t'],
              2: [b'X-Note: caf\xe9\r\nContent-Disposition: form-data; name="u1"; file', b'name="n\xc3\xa4me.bin"\r\nContent-', b'Type: application/x-t']}
FIELD_NAME = {0: "f\u00e9", 1: "f\x0b\u00e9\x1c", 2: "f\u00e9"}
FILE_NAME = {0: "n\u00e4me.bin", 1: "n\x0c\u00e4me.bin", 2: "n\u00e4me.bin"}


def conc_symbols(symbols, variant=0, bnd_map=None, hv=0):
    """per-symbol byte strings (header symbols are positional pieces of a real header block)"""
    bm = bnd_map or {"b": b"B", "c": b"q"}
    out = []
    hi = gi = 0
    fh = FIELD_HDR_V.get(hv, FIELD_HDR)
    gh = FILE_HDR_V.get(hv, FILE_HDR)
    for s in symbols:
        if s == "h":
            out.append(fh[hi % 2])
            hi += 1
            continue
        if s == "g":
            out.append(gh[gi % 3])
            gi += 1
            continue
        hi = gi = 0
        if s == "r":
            out.append(b"\r")
        elif s == "n":
            out.append(b"\n")
        elif s == "d":
            out.append(b"-")
        elif s == "s":
            out.append(S_VARIANTS[variant % 2])
        elif s == "x":
            out.append(X_VARIANTS[variant % 4])
        else:
            out.append(bm[s])
    return out


def conc_seq(symbols, variant=0, bnd_map=None, hv=0):
    return b"".join(conc_symbols(symbols, variant, bnd_map, hv))


def boundary_bytes(bnd=BND, bnd_map=None):
    bm = bnd_map or {"b": b"B", "c": b"q"}
    return b"".join(b"-" if s == "d" else bm[s] for s in bnd)


def expected_items(form, variant=0, bnd_map=None, charset="utf8", hv=0):
    """what the helpers must return for this form: (name, text) / (name, filename, content-type, bytes)"""
    from baize.multipart import safe_decode
    out = []
    for p in form:
        data = conc_seq(p["content"], variant, bnd_map)
        if p["kind"] == "field":
            out.append((FIELD_NAME[hv], safe_decode(data, charset)))
        else:
            out.append(("u1", FILE_NAME[hv], "application/x-t", data))
    return out


class Sink:
    """file_factory for the helpers: counts what reaches the file sink"""
    written = 0

    def __init__(self, filename, headers):
        self.filename, self.headers = filename, headers
        self.data = bytearray()

    def write(self, data):
        self.data.extend(data)
        Sink.written += len(data)

    async def awrite(self, data):
        self.write(data)

    def seek(self, offset):
        pass

    async def aseek(self, offset):
        pass


def observe_items(items):
    out = []
    for name, v in items:
        if isinstance(v, str):
            out.append((name, v))
        elif isinstance(v, Sink):
            out.append((name, v.filename, v.headers.get("content-type", ""), bytes(v.data)))
        else:  # UploadFile
            v.seek(0)
            out.append((name, v.filename, v.content_type, v.read()))
    return out


def run_helper(which, chunks, boundary, limits=None, charset="utf8"):
    """returns ('ok', items) | ('413', None) | ('exc:<Type>', None); also max bytes held for sync helper"""
    from baize.multipart_helper import parse_stream, parse_async_stream
    from baize.exceptions import HTTPException
    kw = {}
    if limits:
        if limits["parts"] < UNL:
            kw["max_form_parts"] = limits["parts"]
        if limits["mem"] < UNL:
            kw["max_form_memory_size"] = limits["mem"]
    try:
        if which == "sync":
            items = parse_stream(iter(chunks), boundary, charset, file_factory=Sink, **kw)
        elif which == "async":
            async def agen():
                for c in chunks:
                    yield c
            items = servers.loop().run_until_complete(parse_async_stream(agen(), boundary, charset, file_factory=Sink, **kw))
        elif which == "wsgi":
            from baize.wsgi import Request
            body = b"".join(chunks)
            r = servers.Req(method="POST", headers=[("Content-Type", "multipart/form-data; boundary=" + boundary.decode("latin-1")),
                                                    ("Content-Length", str(len(body)))], chunks=chunks)
            req = Request(servers.make_environ(r))
            items = req.form.multi_items()
        else:
            from baize.asgi import Request
            msgs = [{"type": "http.request", "body": c, "more_body": i < len(chunks) - 1} for i, c in enumerate(chunks)] or \
                   [{"type": "http.request", "body": b"", "more_body": False}]

            async def receive():
                return msgs.pop(0)
            scope = {"type": "http", "method": "POST", "path": "/", "query_string": b"",
                     "headers": [(b"content-type", b"multipart/form-data; boundary=" + boundary)]}
            req = Request(scope, receive)

            async def go():
                return (await req.form).multi_items()
            items = servers.loop().run_until_complete(go())
        return "ok", observe_items(items)
    except HTTPException as e:
        return str(e.status_code), None
    except BaseException as e:  # noqa
        return "exc:" + type(e).__name__, None


def chunkings(body, rnd, extra=6, max_splits=40):
    """ways of cutting the byte string: whole, bytewise, every 2-split (sampled), with empties, random"""
    n = len(body)
    out = [[body], [body[i:i + 1] for i in range(n)], [b""] + [body[i:i + 2] for i in range(0, n, 2)] + [b""]]
    cuts = list(range(1, n))
    if len(cuts) > max_splits:
        cuts = sorted(rnd.sample(cuts, max_splits))
    for c in cuts:
        out.append([body[:c], body[c:]])
    for _ in range(extra):
        pts = sorted(rnd.sample(range(1, n), min(n - 1, rnd.randint(2, 6)))) if n > 2 else []
        prev, ch = 0, []
        for p in pts:
            ch.append(body[prev:p])
            if rnd.random() < 0.2:
                ch.append(b"")
            prev = p
        ch.append(body[prev:])
        out.append(ch)
    return out
