"""C01 - multipart decoding is exact and independent of how the body is chunked.

spec/Multipart.tla: the decoder's state machine (the three regular expressions transcribed on
symbol sequences, the hold-back rule) and the helpers' event loop; Init picks a form, the body is
its encoding, TLC explores every chunking (Feed(k), k = 0..MaxChunk) and checks PrefixOK / Exact.
Every edge of the state graph is executed once on a real MultipartDecoder (DFS with snapshots);
every form is decoded by parse_stream, parse_async_stream and both Request.form accessors under
byte-level chunkings (cuts inside header text included).
"""
import random
import sys

from .. import tlc, graph, common
from . import mp_common as M

INV = ["PrefixOK", "Exact", "NoEarly413"]
ACTIONS = ["Feed", "StepPreamble", "StepPart", "StepData", "StepEpilogue"]


PREFIX = True       # which preamble rule of Multipart.tla the code implements


def forms(tier):
    alpha = "rndbx"
    cs = M.contents(alpha, 3, "ddb")
    fs = [()]
    for c in cs:
        fs.append((M.part("field", c),))
    for c in cs:
        if tier == "thorough" or len(c) <= 2 or c[0] in "rn" or c[-1] in "rnd":
            fs.append((M.part("file", c),))
    two = [("x",), ("r",), ("n",), ("r", "n"), ("d", "d"), (), ("n", "d", "d"), ("r", "n", "d")]
    for a in two:
        for b in two[:5]:
            fs.append((M.part("field", a), M.part("file", b)))
            if tier == "thorough":
                fs.append((M.part("file", a), M.part("field", b)))
    if tier == "thorough":
        for c in M.contents("rnsd", 4, "ddb"):
            if len(c) == 4:
                fs.append((M.part("file", c),))
    return fs


class Real:
    """a real decoder + where we are in the body"""
    __slots__ = ("dec", "pos", "events")

    def copy(self):
        from baize.multipart import MultipartDecoder
        r = Real()
        d = MultipartDecoder(self.dec.boundary, self.dec.charset)
        d.buffer = bytearray(self.dec.buffer)
        d.state = self.dec.state
        d.complete = self.dec.complete
        r.dec, r.pos, r.events = d, self.pos, self.events
        return r


def state_name(dec):
    from baize.multipart import State
    for n in ("PREAMBLE", "PART", "DATA", "EPILOGUE", "COMPLETE"):
        if dec.state is getattr(State, n):
            return n
    return "?"


def replay_decoder(ctx, g, variant):
    from baize import multipart as MP
    cache = {}

    def scen(st):
        key = (st["form"], st["pre"])
        if key not in cache:
            cache[key] = M.conc_symbols(st["body"], variant)
        return cache[key]

    def make_real(init):
        r = Real()
        r.dec = MP.MultipartDecoder(M.boundary_bytes(), "utf8")
        r.pos, r.events = 0, 0
        return r

    def step(real, src, lab, dst):
        s0, s1 = g.state(src), g.state(dst)
        bs = scen(s0)
        name, args = graph.parse_action(lab)
        r = real.copy()
        case = {"body": b"".join(bs).decode("latin-1"), "fed": s0["pos"], "action": lab}
        ctx.count()
        ctx.traces_validated += 1
        try:
            if name == "Feed":
                k = args[0]
                r.dec.receive_data(b"".join(bs[r.pos:r.pos + k]))
                r.pos += k
                ev = None
            else:
                ev = r.dec.next_event()
        except BaseException as e:  # noqa
            ctx.violation(case, "decoder accepts a well-formed body", type(e).__name__ + ": " + str(e),
                          "decoder raised %s on a well-formed body" % type(e).__name__)
            return None
        exp_buf = b"".join(bs[s1["pos"] - len(s1["buf"]):s1["pos"]])
        obs = {"state": state_name(r.dec), "buffer": bytes(r.dec.buffer).decode("latin-1")}
        exp = {"state": s1["st"], "buffer": exp_buf.decode("latin-1")}
        if name != "Feed":
            # expected event from the model transition
            if s1["drained"] and not s0["drained"]:
                exp["event"] = "NeedData"
            elif name == "StepPreamble":
                exp["event"] = "Preamble"
            elif name == "StepPart":
                exp["event"] = "File" if s1["curKind"] == "file" else "Field"
            elif name == "StepData":
                more = len(s1["items"]) == len(s0["items"])
                full = (s1["cur"] if more else s1["items"][-1]["content"])
                start = s0["pos"] - len(s0["buf"])
                n = len(full) - len(s0["cur"])
                exp["event"] = ("Data", b"".join(bs[start:start + n]).decode("latin-1"), more)
            if isinstance(ev, MP.Data):
                obs["event"] = ("Data", ev.data.decode("latin-1"), ev.more_data)
            else:
                obs["event"] = type(ev).__name__
            if isinstance(ev, MP.File) and (ev.name, ev.filename, ev.headers.get("content-type")) != ("u1", "näme.bin", "application/x-t"):
                ctx.violation(case, ("u1", "näme.bin", "application/x-t"), (ev.name, ev.filename, dict(ev.headers)),
                              "file part header not decoded exactly")
            if isinstance(ev, MP.Field) and ev.name != "fé":
                ctx.violation(case, "fé", ev.name, "field name not decoded exactly")
        if obs != exp:
            ctx.drift_at(case, exp, obs, "decoder state differs from Multipart.tla")
        if name == "Feed" and args[0] and s0["st"] == "DATA" and any(b in (b"\r", b"\n", b"-") for b in bs[r.pos - 1:r.pos]):
            ctx.nontriv((s0["form"], s0["pre"], s0["pos"], args[0]))
        return r

    return graph.dfs_replay(g, make_real, step)


def run(ctx):
    fs = forms(ctx.tier)
    K = dict(Bnd=M.BND, Forms=frozenset(fs), Preambles=frozenset({(), ("x", "d", "d"), ("x", "d", "d", "b")}),
             Epilogues=frozenset({("r", "n")}) if ctx.tier == "quick" else frozenset({("r", "n"), ()}), MaxChunk=3 if ctx.tier == "quick" else 4,
             Limits=frozenset({M.Rec(parts=M.UNL, mem=M.UNL)}), HoldFix=True, OpenFix=True, PreFix=PREFIX)
    ctx.bounds = {"forms": len(fs), "MaxChunk": K["MaxChunk"], "content_alphabet": "r n d b x (s in thorough)", "max_content": 3}
    ctx.rule = ("decoder level: every edge of the TLC graph (all chunkings with chunks <= MaxChunk symbols) executed once on a real "
                "MultipartDecoder; helper level: every form x {parse_stream, parse_async_stream, wsgi form, asgi form} x byte-level "
                "chunkings; non-trivial = a chunk ending in CR, LF or '-' while part data is being read")
    ctx.assumptions = ["bodies are well-formed with CRLF line breaks; content does not contain '--'+boundary",
                       "header text bytes are opaque to the decoder until the blank line (cuts inside them are covered at helper level)"]
    wd = tlc.workdir_for("c01")
    tlc.sany(wd + "/Multipart.tla")
    cfg = ["SPECIFICATION Spec", "CHECK_DEADLOCK FALSE"] + ["INVARIANT " + i for i in INV]
    tlc.write_mc(wd, "MC_Multipart", "Multipart", constants=K, cfg_lines=cfg)
    res = tlc.run_tlc(wd, "MC_Multipart", dump=True, heap="10g")
    ctx.add_tlc("Multipart", res, ctx.bounds)
    if res.violated:
        raise common.MachineryError("Multipart.tla: " + tlc.describe(res))
    tlc.check_coverage(res, ACTIONS)
    # witness: a delimiter without its line break accepted anywhere in the preamble must break Exact
    tlc.write_mc(wd, "MC_MultipartPre", "Multipart", constants=dict(K, PreFix=False, Forms=frozenset(fs[:40])),
                 cfg_lines=["SPECIFICATION Spec", "CHECK_DEADLOCK FALSE", "INVARIANT Exact"])
    wres = tlc.run_tlc(wd, "MC_MultipartPre", coverage=False, heap="10g")
    if wres.violated != "Exact":
        raise common.MachineryError("witness failed: PreFix=FALSE does not violate Exact (%s)" % wres.violated)
    ctx.notes.append("witness: the original preamble rule (PreFix=FALSE) violates Exact after %d states" % wres.distinct)
    # what may follow the close-delimiter: nothing at all (RFC 2046: its line break belongs to the optional epilogue), transport padding,
    # epilogue text - on a subset of the forms (the main model of the quick tier has the CRLF every client sends)
    KE = dict(K, Forms=frozenset(fs[:80]), Preambles=frozenset({()}), Epilogues=frozenset(EPILOGUES[1:]))
    tlc.write_mc(wd, "MC_MultipartEpi", "Multipart", constants=KE,
                 cfg_lines=["SPECIFICATION Spec", "CHECK_DEADLOCK FALSE", "INVARIANT PrefixOK", "INVARIANT Exact"])
    eres = tlc.run_tlc(wd, "MC_MultipartEpi", coverage=False, heap="10g")
    ctx.add_tlc("Multipart(epilogues)", eres, {"forms": 80, "epilogues": [list(e) for e in EPILOGUES[1:]]})
    if eres.violated:
        raise common.MachineryError("Multipart.tla with epilogue variants: " + tlc.describe(eres))
    g = graph.Graph.load(res.dot)
    n = replay_decoder(ctx, g, variant=ctx.seed % 3)
    ctx.bounds["edges_replayed"] = n

    # helper level
    rnd = random.Random(ctx.seed)
    bmaps = [None, {"b": b"a+b.(c)?", "c": b"q"}, {"b": b"--x-", "c": b"q"}, {"b": b"0123456789" * 7, "c": b"q"}]
    k = 0
    for f in fs:
        for pre in ((), ("x", "d", "d"), ("x", "d", "d", "b")):
            k += 1
            if pre and k % 4:
                continue
            variant = k % 4
            bm = bmaps[(k // 4) % 4]
            boundary = M.boundary_bytes(M.BND, bm)
            syms = body_symbols(f, pre, EPILOGUES[(k // 2) % len(EPILOGUES)] if k % 2 else EPILOGUES[0])
            hv = (k // 3) % 3
            body = M.conc_seq(syms, variant, bm, hv)
            want = M.expected_items(f, variant, bm, hv=hv)
            chs = M.chunkings(body, rnd, extra=3 if ctx.tier == "quick" else 8, max_splits=12 if ctx.tier == "quick" else 60)
            for ci, ch in enumerate(chs):
                for which in (("sync", "async", "wsgi", "asgi") if ci < 3 else (("sync", "asgi") if ci % 2 else ("async", "wsgi"))):
                    out, items = M.run_helper(which, ch, boundary)
                    ctx.count()
                    ctx.traces_validated += 1
                    if out != "ok" or items != want:
                        ctx.violation({"body": body.decode("latin-1"), "chunks": [c.decode("latin-1") for c in ch], "api": which},
                                      want, {"outcome": out, "items": items},
                                      "%s does not return exactly the encoded parts" % which)
    # code -> spec: long sessions on real decoders validated step by step by TLC (TraceMultipart.tla)
    from .. import mp_trace
    nev = mp_trace.long_sessions(ctx, wd, 60 if ctx.tier == "quick" else 600, rnd, "C01")
    mp_trace.helper_level(ctx, 40 if ctx.tier == "quick" else 400, rnd)
    mp_trace.big_upload(ctx, rnd)
    nrepo = mp_trace.pytest_sessions(ctx, wd, common.REPO, tlc.VERIF)
    ctx.bounds["long_sessions"] = {"per_boundary": 60 if ctx.tier == "quick" else 600, "boundaries": len(mp_trace.BOUNDARIES), "events": nev,
                                   "repository_test_sessions": nrepo}
    ctx.notes.append("TraceMultipart: %d events of long decoder sessions and %d decoder sessions of the repository's tests validated" % (nev, nrepo))
    ctx.sample({"form": [dict(p) for p in fs[40]], "body": M.conc_seq(body_symbols(fs[40], ()), 0).decode("latin-1")})


EPILOGUES = [("r", "n"), (), ("s", "r", "n"), ("r", "n", "x"), ("s",)]


def body_symbols(f, pre, ep=("r", "n")):
    out = list(pre) + (["r", "n"] if pre else [])
    for p in f:
        out += ["d", "d"] + list(M.BND) + ["r", "n"] + (["h", "h"] if p["kind"] == "field" else ["g", "g", "g"]) + ["r", "n", "r", "n"] + \
            list(p["content"]) + ["r", "n"]
    return out + ["d", "d"] + list(M.BND) + ["d", "d"] + list(ep)


if __name__ == "__main__":
    sys.exit(common.main("C01", run))
