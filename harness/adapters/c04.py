"""C04 - the WSGI and ASGI stacks are observationally equivalent.

spec/Http.tla defines the abstract request space and the request view both stacks must expose; TLC
enumerates (request, recipe) cases.  Each case is presented to baize.wsgi as an environ and to
baize.asgi as scope + messages by harness/servers.py; the two observations must equal each other
and, for the view, the model's.  Response recipes (every response class, cookies, router, mounts,
hosts, static files and pages, view shortcuts, middleware) are compared for status, header multiset
and body; the only sanctioned difference is the Connection header of the ASGI event stream.
"""
import os
import shutil
import asyncio
import sys

from .. import tlc, graph, common, servers, recipes
from ..tlaval import Rec

NAMES = {"Accept": "accept", "X-Custom": "x-custom", "x-custom": "x-custom", "Cookie": "cookie", "Content-Type": "content-type",
         "Content-Length": "content-length", "COOKIE": "cookie", "Referer": "referer", "Date": "date"}
VALUES = {"acc": "text/html, application/json;q=0.9, */*;q=0.1", "v1": "one", "v2": "café", "ck1": "a=1; b=\"x\\073y\"; c", "ck2": "d=4",
          "ctj": "application/json; charset=utf-8", "ctf": "application/x-www-form-urlencoded", "ctm": "multipart/form-data; boundary=BB",
          "len": "@LEN", "badlen": "12x", "ref": "http://u:p@ex.com/a?b#c", "date": "Wed, 21 Oct 2015 07:28:00 GMT", "baddate": "yesterday"}
PATHS = {"p_root": "/", "p_a": "/a/b", "p_uni": "/café/中", "p_sp": "/a b/%2F", "p_empty": ""}
QUERIES = {"q_none": "", "q1": "a=1&a=2&b=", "q_uni": "n=%C3%A9&e+e=%26", "q_raw": "q=café"}
BODIES = {"json": b'{"k": [1, "\xc3\xa9"]}', "form": b"a=1&b=%C3%A9&a=2", "multi": b'--BB\r\nContent-Disposition: form-data; name="f"\r\n\r\nvalue\r\n--BB\r\n'
          b'Content-Disposition: form-data; name="u"; filename="n.bin"\r\nContent-Type: application/x-t\r\n\r\n\x00\x01\xff\r\n--BB--\r\n', "none": b"", "junk": b"\xff\xfe{"}


def header_lists():
    H = lambda *p: tuple(p)  # noqa
    return [
        H(), H(("Accept", "acc"), ("X-Custom", "v1"), ("x-custom", "v2")), H(("Cookie", "ck1"), ("COOKIE", "ck2")),
        H(("Content-Type", "ctj"), ("Content-Length", "len")), H(("Content-Type", "ctf"), ("Content-Length", "len"), ("Referer", "ref")),
        H(("Content-Type", "ctm"), ("Date", "date")), H(("Content-Length", "badlen"), ("Date", "baddate")),
    ]


def view_fn(iface, form_first=False):
    """a view that returns everything the request exposes, as JSON-able data"""
    def common_part(request, body, js, form):
        return {
            "method": request.method, "url": str(request.url), "headers": dict(request.headers),
            "query": [list(p) for p in request.query_params.multi_items()], "cookies": dict(request.cookies),
            "content_type": [request.content_type.type, dict(request.content_type.options)], "content_length": request.content_length,
            "accepted": [str(t) for t in request.accepted_types], "accepts_html": request.accepts("text/html"), "accepts_png": request.accepts("image/png"),
            "client": list(request.client), "path_params": {k: [type(v).__name__, str(v)] for k, v in request.path_params.items()},
            "date": str(request.date), "referrer": str(request.referrer) if request.referrer is not None else None,
            "body": body, "json": js, "form": form,
        }

    def outcome(fn):
        from baize.exceptions import HTTPException
        try:
            return ["ok", fn()]
        except HTTPException as e:
            return ["http", e.status_code]
        except BaseException as e:  # noqa
            return ["exc", type(e).__name__]

    if iface == "wsgi":
        import baize.wsgi as W

        @W.request_response
        def view(request):
            def fform():
                return [[k, v if isinstance(v, str) else ["file", v.filename, v.content_type, v.read().decode("latin-1")]]
                        for k, v in request.form.multi_items()]
            form = outcome(fform) if form_first else None    # streamed parsing: the chunks reach the multipart decoder
            body = outcome(lambda: request.body.decode("latin-1"))
            js = outcome(lambda: request.json)
            if not form_first:
                form = outcome(fform)
            data = common_part(request, body, js, form)
            request.close()
            return W.JSONResponse(data)
        return view
    import baize.asgi as A

    @A.request_response
    async def aview(request):
        from baize.exceptions import HTTPException

        async def aout(coro_fn):
            try:
                return ["ok", await coro_fn()]
            except HTTPException as e:
                return ["http", e.status_code]
            except asyncio.CancelledError:     # the harness server gave up waiting: that must end the call, not become an "outcome"
                raise
            except BaseException as e:  # noqa
                return ["exc", type(e).__name__]

        async def fbody():
            return (await request.body).decode("latin-1")

        async def fjson():
            return await request.json

        async def fform():
            out = []
            for k, v in (await request.form).multi_items():
                out.append([k, v if isinstance(v, str) else ["file", v.filename, v.content_type, (await v.aread()).decode("latin-1")]])
            return out
        form = await aout(fform) if form_first else None
        body, js = await aout(fbody), await aout(fjson)
        if not form_first:
            form = await aout(fform)
        data = common_part(request, body, js, form)
        await request.close()
        return A.JSONResponse(data)
    return aview


def app_recipes(env):
    """bundled applications expressible in both packages: (name, build(iface), [requests])"""
    def router(i):
        p = recipes.pkg(i)
        return p.Router(("/", p.PlainTextResponse("home")), ("/u/{name}", view_fn(i)), ("/n/{n:int}/{d:decimal}", view_fn(i)),
                        ("/f/{rest:any}", view_fn(i)), ("/d/{day:date}", view_fn(i)))

    def mounts(i):
        p = recipes.pkg(i)
        return p.Subpaths(("/api", p.Subpaths(("/v1", view_fn(i)), ("", p.PlainTextResponse("api-default")))), ("/static", p.Files(env.tree)),
                          ("", p.Pages(env.tree)))

    def hosts(i):
        p = recipes.pkg(i)
        return p.Hosts((r"api\.example\.com", view_fn(i)), (r"(www\.)?example\.com(:\d+)?", p.PlainTextResponse("www")))

    R = servers.Req
    return [
        ("router", router, [R(path="/"), R(path="/u/bob"), R(path="/u/é"), R(path="/n/12/3.50"), R(path="/n/x/1"), R(path="/f/a/b/c"), R(path="/d/2021-03-07"),
                            R(path="/d/2021-13-45"), R(path="/nope"), R(path="/u/bob", method="POST", headers=[("Content-Type", "application/json")], chunks=[b'{"a"', b": 1}"])]),
        ("mounts", mounts, [R(path="/api/v1/x", root_path="/r"), R(path="/api"), R(path="/apix"), R(path="/static/a.txt"), R(path="/static/../a.txt"),
                            R(path="/static/sub/b.txt", headers=[("Range", "bytes=1-3")]), R(path="/"), R(path="/sub"), R(path="/sub/"), R(path="/page"),
                            R(path="/a.txt", headers=[("If-None-Match", "*")]), R(path="/a.txt", headers=[("If-Modified-Since", "Wed, 21 Oct 2099 07:28:00 GMT")]),
                            R(path="/a.txt", headers=[("Range", "")]), R(path="/a.txt", headers=[("Range", "bytes=0-1"), ("If-Range", "")]),
                            R(path="/a.txt", method="HEAD"), R(path="/missing"), R(path="/a.txt/x"),
                            # one header sent as several lines: the same abstract request as the comma-joined list (RFC 7230 3.2.2)
                            R(path="/a.txt", headers=[("Range", "bytes=0-1"), ("Range", "bytes=3-4")]),
                            R(path="/a.txt", headers=[("Range", "bytes=0-1"), ("If-Range", '"x"'), ("If-Range", '"y"')]),
                            R(path="/a.txt", headers=[("If-Modified-Since", "Wed, 21 Oct 2099 07:28:00 GMT"), ("If-Modified-Since", "Wed, 21 Oct 1999 07:28:00 GMT")]),
                            R(path="/a.txt", headers=[("If-Modified-Since", "Wed, 21 Oct 1999 07:28:00 GMT"), ("If-Modified-Since", "Wed, 21 Oct 2099 07:28:00 GMT")])]),
        ("mounts-unicode", lambda i: recipes.pkg(i).Subpaths(("/é", view_fn(i)), ("", recipes.pkg(i).PlainTextResponse("default"))),
         [R(path="/é/x"), R(path="/e/x")]),
        ("hosts", hosts, [R(headers=[("Host", "api.example.com")]), R(headers=[("Host", "www.example.com:8000")]), R(headers=[("Host", "evil.com")]), R(),
                          R(headers=[("Host", "evil.com"), ("Host", "api.example.com")]), R(headers=[("Host", "api.example.com"), ("Host", "evil.com")])]),
    ]


def observe_resp(r, iface):
    hs = r.header_multiset()
    if iface == "asgi":
        hs = [h for h in hs]
    return {"status": r.status if r.exc is None else None, "headers": hs, "body": r.body.decode("latin-1"),
            "exc": _exc(r.exc)}


def _exc(e):
    from baize.exceptions import HTTPException
    if e is None:
        return None
    if isinstance(e, HTTPException):
        return ["http", e.status_code]
    return ["exc", type(e).__name__]


def run(ctx):
    hls = header_lists()
    chunkings = [(), (("json",),), (("form",),), (("multi",),), (("junk",),)]
    K = dict(Methods=frozenset({"GET", "POST"}), Paths=frozenset(PATHS), Queries=frozenset(QUERIES), HeaderLists=frozenset(hls),
             Chunkings=frozenset(chunkings), Recipes=frozenset({"view"}), LowerOf=frozenset(NAMES.items()))
    ctx.bounds = {k: len(v) for k, v in K.items()}
    ctx.rule = ("every abstract request of Http.tla through a view on both stacks (whole body, byte-wise and two-piece chunkings), plus "
                "response and application recipes x requests; non-trivial = requests with repeated / mixed-case headers, non-ASCII "
                "text, a body, or recipes involving files, ranges, conditionals, mounts, hosts, middleware")
    ctx.assumptions = ["harness/servers.py builds environ and scope from one abstract request (repeated request header lines are folded "
                       "with ', ' into the WSGI environ, the separator baize uses on the ASGI side)",
                       "route patterns and mount prefixes are ASCII (see known findings for non-ASCII path text on WSGI)"]
    wd = tlc.workdir_for("c04")
    tlc.sany(wd + "/Http.tla")
    tlc.write_mc(wd, "MC_Http", "Http", constants=K, cfg_lines=["SPECIFICATION Spec", "CHECK_DEADLOCK FALSE", "INVARIANT ChunkingIrrelevant",
                                                                "INVARIANT NamesLower", "INVARIANT NoDuplicateNames"])
    res = tlc.run_tlc(wd, "MC_Http", dump=True, heap="6g")
    ctx.add_tlc("Http", res, ctx.bounds)
    if res.violated:
        raise common.MachineryError("Http.tla: " + tlc.describe(res))
    tlc.check_coverage(res, ["Observe"])
    g = graph.Graph.load(res.dot)
    views = {"wsgi": view_fn("wsgi"), "asgi": view_fn("asgi")}
    views_ff = {"wsgi": view_fn("wsgi", True), "asgi": view_fn("asgi", True)}
    import json
    n = 0
    for nid in g.terminal():
        st = g.state(nid)
        rq, view = st["req"], st["view"]
        n += 1
        body = b"".join(BODIES[c] for ch in rq["chunks"] for c in ch)
        hdrs = [(k, VALUES[v] if VALUES[v] != "@LEN" else str(len(body))) for k, v in rq["headers"]]
        cuts = [[body], [body[i:i + 1] for i in range(len(body))], [body[:len(body) // 2], b"", body[len(body) // 2:]]][:(1 if not body else 3)]
        obs = {}
        form_first = any(v == "ctm" for _, v in rq["headers"]) and bool(body)
        if form_first:    # every two-piece cut of a multipart body, parsed as a stream
            cuts = cuts + [[body[:k], body[k:]] for k in range(1, len(body))]
        use = views_ff if form_first else views
        for ci, chunks in enumerate(cuts):
            for iface in ("wsgi", "asgi"):
                req = servers.Req(method=rq["method"], path=PATHS[rq["path"]], query=QUERIES[rq["query"]], headers=hdrs, chunks=chunks,
                                  server=("srv.example", 8080), client=("10.1.2.3", 5555))
                r = servers.wsgi_call(use[iface], req) if iface == "wsgi" else servers.asgi_call(use[iface], req)
                ctx.count()
                ctx.traces_validated += 1
                try:
                    obs[(iface, ci)] = json.loads(r.body) if r.exc is None else {"exc": _exc(r.exc)}
                except ValueError:
                    obs[(iface, ci)] = {"undecodable": r.body[:80].decode("latin-1")}
        case = {"method": rq["method"], "path": PATHS[rq["path"]], "query": QUERIES[rq["query"]], "headers": hdrs, "body": body.decode("latin-1")}
        ref = obs[("wsgi", 0)]
        for key, o in obs.items():
            if o != ref:
                diff = [k for k in set(o) | set(ref) if o.get(k) != ref.get(k)]
                if key[0] == "wsgi":
                    what = "request view depends on how the body is chunked (%s)" % diff
                else:
                    what = "WSGI and ASGI request views differ in %s" % sorted(diff)
                ctx.violation(dict(case, compared=list(key)), {k: ref.get(k) for k in diff}, {k: o.get(k) for k in diff}, what)
                break
        else:
            # the model's view as third referee
            want_headers = {nm: ", ".join(VALUES[v] if VALUES[v] != "@LEN" else str(len(body)) for v in vals) for nm, vals in view["headers"]}
            kinds = [c for ch in rq["chunks"] for c in ch]
            ctv = [v for k, v in rq["headers"] if k == "Content-Type"]
            want_parsed = None
            if kinds == ["multi"] and ctv == ["ctm"]:
                want_parsed = ("form", ["ok", [["f", "value"], ["u", ["file", "n.bin", "application/x-t", "\x00\x01\xff"]]]])
            elif kinds == ["form"] and ctv == ["ctf"]:
                want_parsed = ("form", ["ok", [["a", "1"], ["b", "é"], ["a", "2"]]])
            elif kinds == ["json"] and ctv == ["ctj"]:
                want_parsed = ("json", ["ok", {"k": [1, "é"]}])
            bad_parsed = [key for key, o in obs.items() if want_parsed and "exc" not in o and o.get(want_parsed[0]) != want_parsed[1]]
            if bad_parsed:
                o = obs[bad_parsed[0]]
                ctx.violation(dict(case, compared=list(bad_parsed[0])), want_parsed[1], o.get(want_parsed[0]),
                              "both stacks agree with each other but the decoded %s is not what the request carries" % want_parsed[0])
            elif "exc" not in ref and (ref["headers"] != want_headers or ref["method"] != view["method"] or
                                       (ref["body"] != ["ok", body.decode("latin-1")] and not form_first)):
                ctx.violation(case, {"headers": want_headers, "method": view["method"], "body_len": len(body)},
                              {"headers": ref.get("headers"), "method": ref.get("method"), "body": ref.get("body")},
                              "both stacks agree with each other but not with the abstract request view")
        if hdrs or body or rq["path"] in ("p_uni", "p_sp"):
            ctx.nontriv(tuple(sorted((k, str(v)) for k, v in case.items())))
        if n in (3, 300):
            ctx.sample({"request": case, "view_keys": sorted(ref)[:8]})
    # bodies under unusual content types: declared charsets, byte-order marks, other encodings, parameter spellings
    mp = b'--BB\r\nContent-Disposition: form-data; name="f"\r\n\r\ncaf\xe9\r\n--BB--\r\n'
    EXTRA = [("application/json; charset=latin-1", b'{"name": "caf\xe9"}'), ("application/json; charset=ascii", '{"n": "\u00e9"}'.encode()),
             ("application/json; charset=klingon", b'{"a": 1}'), ("application/json", b'\xef\xbb\xbf{"a": 1}'),
             ("application/json", '{"a": "\u00e9"}'.encode("utf-16-le")), ("application/json", '{"a": 1}'.encode("utf-16")),
             ("application/json; charset=utf-16", '{"a": "\u00e9"}'.encode("utf-16")), ("application/json; charset=utf-8-sig", b'\xef\xbb\xbf{"a": 1}'),
             ("APPLICATION/JSON", b'{"a": 1}'), ("application/json ; charset = utf-8", b'{"a": 1}'), ('application/json; charset="latin-1"', b'{"a": "\xe9"}'),
             ("application/json; charset=", b'{"a": 1}'), ("application/problem+json", b'{"a": 1}'),
             ("application/x-www-form-urlencoded; charset=latin-1", b"a=caf\xe9"), ("application/x-www-form-urlencoded; charset=utf-8", b"a=caf\xe9"),
             ("application/x-www-form-urlencoded; charset=nope", b"a=1"), ("application/x-www-form-urlencoded", b"a=caf\xc3\xa9&b=%E9"),
             ("application/x-www-form-urlencoded; charset=utf-16", "a=1".encode("utf-16")),
             ("multipart/form-data; boundary=BB; charset=latin-1", mp), ("multipart/form-data; boundary=BB", mp), ("multipart/form-data; charset=utf-8; boundary=BB", mp),
             ('multipart/form-data; boundary="BB"', mp), ("multipart/form-data", mp), ("text/plain", b"x"), ("", b'{"a": 1}')]
    for ct, body in EXTRA:
        obs = {}
        cuts = [[body], [body[i:i + 1] for i in range(len(body))]]
        for form_first in (False, True):
            use = views_ff if form_first else views
            for ci, chunks in enumerate(cuts):
                for iface in ("wsgi", "asgi"):
                    req = servers.Req(method="POST", path="/", headers=([("Content-Type", ct)] if ct else []) + [("Content-Length", str(len(body)))], chunks=chunks)
                    r = servers.wsgi_call(use[iface], req) if iface == "wsgi" else servers.asgi_call(use[iface], req)
                    ctx.count()
                    try:
                        o = json.loads(r.body) if r.exc is None else {"exc": _exc(r.exc)}
                    except ValueError:
                        o = {"undecodable": r.body[:80].decode("latin-1")}
                    obs[(iface, ci, form_first)] = {k: o.get(k) for k in ("body", "json", "form", "exc", "undecodable") if k in o}
        for ff in (False, True):
            ref = obs[("wsgi", 0, ff)]
            for key, o in obs.items():
                if key[2] == ff and o != ref:
                    diff = sorted(k for k in set(o) | set(ref) if o.get(k) != ref.get(k))
                    what = ("request view depends on how the body is chunked (%s)" % diff) if key[0] == "wsgi" else "WSGI and ASGI request views differ in %s" % diff
                    ctx.violation({"content_type": ct, "body": body.decode("latin-1"), "compared": list(key)}, {k: ref.get(k) for k in diff},
                                  {k: o.get(k) for k in diff}, what)
                    break
        ctx.nontriv(("ctype", ct, body))
    # response recipes and bundled applications
    env = recipes.Env(tlc.scratch())
    try:
        for name, build, _ in recipes.response_recipes():
            for method, hdrs in recipes.REQUEST_VARIANTS:
                if hdrs and not name.startswith("File"):
                    continue
                out = {}
                for iface in ("wsgi", "asgi"):
                    try:
                        app = build(iface, env)
                    except Exception as e:  # noqa
                        out[iface] = {"build": type(e).__name__}
                        continue
                    req = servers.Req(method=method, headers=hdrs)
                    r = servers.wsgi_call(app, req) if iface == "wsgi" else servers.asgi_call(app, req)
                    out[iface] = observe_resp(r, iface)
                compare(ctx, {"recipe": name, "method": method, "headers": hdrs}, out, sse=name.startswith("SSE"))
        for name, build, reqs in app_recipes(env):
            for req in reqs:
                out = {}
                for iface in ("wsgi", "asgi"):
                    app = build(iface)
                    r = servers.wsgi_call(app, req) if iface == "wsgi" else servers.asgi_call(app, req)
                    out[iface] = observe_resp(r, iface)
                compare(ctx, {"recipe": name, "request": req.key()}, out)
    finally:
        shutil.rmtree(env.dir, True)
    ctx.exhaustive = True


def compare(ctx, case, out, sse=False):
    ctx.count()
    ctx.traces_validated += 1
    a, b = out["wsgi"], out["asgi"]

    def norm(o):
        o = dict(o)
        if "headers" in o:
            # hop-by-hop headers are between the application and ITS server: they are not part of the end-to-end response
            hop = ("connection", "keep-alive", "proxy-authenticate", "proxy-authorization", "te", "trailers", "transfer-encoding", "upgrade")
            hs = [h for h in o["headers"] if h[0] not in hop]
            hs = [(k, v if "boundary=" not in v else "multipart/byteranges; boundary=*") for k, v in hs]
            o["headers"] = sorted(hs)
        if o.get("body") and any("boundary=*" in v for _, v in o.get("headers", [])):
            o["body"] = "<%d bytes multipart>" % len(o["body"])
        return o
    na, nb = norm(a), norm(b)
    if na != nb:
        diff = sorted(k for k in set(na) | set(nb) if na.get(k) != nb.get(k))
        ctx.violation(case, {k: na.get(k) for k in diff}, {k: nb.get(k) for k in diff}, "WSGI and ASGI responses differ in %s" % diff)
    ctx.nontriv(("resp", str(sorted(case.items()))))


if __name__ == "__main__":
    sys.exit(common.main("C04", run))
