"""C09 - mounting preserves root+path, dispatches on segment boundaries; host dispatch.

spec/Mount.tla (a request walking a tree of mount tables) and spec/Hosts.tla are model checked;
every behaviour (terminal state) is replayed on real nested Subpaths / Hosts on both interfaces.
"""
import itertools
import re
import sys

from .. import tlc, graph, common, servers

LEAF = {"kind": "leaf"}
P = {"": (), "/a": ("/", "a"), "/a/b": ("/", "a", "/", "b"), "/ab": ("/", "a", "b"), "/b": ("/", "b")}


def mount(entries):
    return {"kind": "mount", "table": tuple({"prefix": p, "child": c} for p, c in entries)}


S1 = mount([(P["/a"], LEAF), (P[""], LEAF)])
S2 = mount([(P["/b"], LEAF)])
S3 = mount([(P["/a"], S2), (P["/ab"], LEAF), (P[""], S1)])


def tables(tier):
    prefs = list(P.values())
    base = []
    for n in (1, 2):
        base += list(itertools.permutations(prefs, n))
    three = list(itertools.permutations(prefs, 3))
    if tier == "quick":
        three = three[::7]
    base += three
    out = [mount([(p, LEAF) for p in t]) for t in base]
    subs = [S1, S2, S3]
    k = 0
    for t in base:
        for pos in range(len(t)):
            for s in subs:
                k += 1
                if tier == "quick" and len(t) == 3 and k % 3:
                    continue
                out.append(mount([(p, s if i == pos else LEAF) for i, p in enumerate(t)]))
    return out


def paths(maxlen):
    out = []
    for n in range(maxlen + 1):
        out += list(itertools.product(("/", "a", "b"), repeat=n))
    return out


SYM = [{"/": "/", "a": "a", "b": "b", "r": "r"}, {"/": "/", "a": "api", "b": "v1", "r": "root"},
       {"/": "/", "a": "\u00e9-\u4e2d", "b": "%2F", "r": "r.s"}]


def conc(seq, m):
    return "".join(m[x] for x in seq)


class Recorder:
    def __init__(self):
        self.seen = None


def build(node, iface, m, rec, trail=()):
    """real nested Subpaths; leaves record who they are and what they saw"""
    if node["kind"] == "leaf":
        if iface == "wsgi":
            from baize.wsgi import PlainTextResponse

            def leaf(environ, start_response, trail=trail):
                rec.seen = (trail, environ.get("SCRIPT_NAME", ""), environ.get("PATH_INFO", ""))
                return PlainTextResponse("leaf")(environ, start_response)
            return leaf
        from baize.asgi import PlainTextResponse as APlain

        async def aleaf(scope, receive, send, trail=trail):
            rec.seen = (trail, scope.get("root_path", ""), scope["path"])
            await APlain("leaf")(scope, receive, send)
        return aleaf
    if iface == "wsgi":
        from baize.wsgi import Subpaths
    else:
        from baize.asgi import Subpaths
    return Subpaths(*[(conc(e["prefix"], m), build(e["child"], iface, m, rec, trail + (i + 1,)))
                      for i, e in enumerate(node["table"])])


def w(s):
    return s.encode("utf-8").decode("latin-1")


def run_mount(ctx, tier):
    tabs = tables(tier)
    K = dict(Tables=tuple(tabs), Paths=frozenset(paths(4 if tier == "quick" else 5)),
             Roots=frozenset({(), ("/", "r")}))
    wd = tlc.workdir_for("c09")
    tlc.sany(wd + "/Mount.tla")
    cfg = ["SPECIFICATION Spec", "CHECK_DEADLOCK FALSE", "INVARIANT Preserved", "INVARIANT DefaultEntry",
           "PROPERTY Boundary", "PROPERTY FirstMatch", "PROPERTY NotFoundOnlyIfNone"]
    tlc.write_mc(wd, "MC_Mount", "Mount", constants=K, cfg_lines=cfg)
    res = tlc.run_tlc(wd, "MC_Mount", dump=True, heap="6g")
    ctx.add_tlc("Mount", res, {"tables": len(tabs), "paths": len(K["Paths"]), "roots": 2})
    if res.violated:
        raise common.MachineryError("Mount.tla: " + tlc.describe(res))
    tlc.check_coverage(res, ["Descend", "NotFound", "Arrive"])
    g = graph.Graph.load(res.dot)
    apps = {}
    n = 0
    for nid in g.terminal():
        st = g.state(nid)
        if st["result"] == "walking":
            raise common.MachineryError("terminal state still walking")
        n += 1
        mi = n % 3
        m = SYM[mi]
        tree = tabs[st["tree"] - 1]
        root0, path0 = conc(st["root0"], m), conc(st["path0"], m)
        exp_root, exp_path = conc(st["root"], m), conc(st["path"], m)
        case = {"table": tree_repr(tree, m), "root": root0, "path": path0}
        for iface in ("wsgi", "asgi"):
            key = (st["tree"], mi, iface)
            if key not in apps:
                rec = Recorder()
                apps[key] = (build(tree, iface, m, rec), rec)
            app, rec = apps[key]
            rec.seen = None
            req = servers.Req(path=path0, root_path=root0)
            if iface == "wsgi":
                env = servers.make_environ(req)
                r = servers.wsgi_call(app, env)
                after = (env.get("SCRIPT_NAME"), env.get("PATH_INFO"))
                seen = rec.seen and (rec.seen[0], rec.seen[1], rec.seen[2])
                exp_seen = (tuple(st["trail"]), w(exp_root), w(exp_path))
                exp_after = (w(exp_root), w(exp_path))
            else:
                scope = servers.make_scope(req)
                r = servers.asgi_call(app, scope)
                after = (scope.get("root_path"), scope.get("path"))
                seen = rec.seen
                exp_seen = (tuple(st["trail"]), exp_root, exp_path)
                exp_after = (exp_root, exp_path)
            ctx.count()
            ctx.traces_validated += 1
            obs = {"iface": iface, "status": r.status, "leaf_saw": seen, "request_after": after,
                   "exc": type(r.exc).__name__ if r.exc else None}
            if st["result"] == "leaf":
                exp = {"iface": iface, "status": 200, "leaf_saw": exp_seen, "request_after": exp_after, "exc": None}
            else:
                exp = {"iface": iface, "status": 404, "leaf_saw": None, "request_after": exp_after, "exc": None}
            if obs != exp:
                what = "mount dispatch differs from the statement"
                if seen and exp_seen and seen[0] == exp_seen[0] and (seen[1] + seen[2]) != (exp_seen[1] + exp_seen[2]):
                    what = "root path + path not preserved"
                elif st["result"] == "404" and r.status == 404 and after != exp_after:
                    what = "404 but the request was rewritten"
                ctx.violation(dict(case, iface=iface), exp, obs, what, {"module": "Mount"})
        if len(st["trail"]) >= 2 or (st["result"] == "404" and st["path"] and st["path"][0] != "/") \
                or any(conc(e["prefix"], SYM[0]) in ("/a", "/ab") for e in tree["table"]):
            ctx.nontriv((st["tree"], st["root0"], st["path0"]))
        if n <= 2:
            ctx.sample({"case": case, "trail": st["trail"], "result": st["result"], "leaf_sees": [exp_root, exp_path]})
    return n


def tree_repr(node, m):
    if node["kind"] == "leaf":
        return "leaf"
    return [[conc(e["prefix"], m), tree_repr(e["child"], m)] for e in node["table"]]


# ---------------------------------------------------------------- hosts
TOK = {"www.": "www.", "api.": "api.", "example": "example", ".com": ".com", ":8000": ":8000"}
def E(opt, *lit):
    return {"opt": opt, "lit": tuple(lit)}


# a pattern is a tuple of alternatives (top-level a|b), each a tuple of elements
PATTERNS = [
    ((E(True, "www."), E(False, "example", ".com")),),
    ((E(False, "api.", "example"), E(False, ".com")),),
    ((E(False, "example", ".com"),),),
    ((E(False, "example"), E(False, ".com"), E(True, ":8000")),),
    ((E(True, "api."), E(True, "www."), E(False, "example")),),
    ((E(False, "example", ".com"),), (E(False, "www.", "example", ".com"),)),          # example\.com|www\.example\.com
    ((E(False, "api."),), (E(False, "example"), E(True, ".com"))),                    # api\.|example(\.com)?
    ((E(True, "www."),),),                                                            # (www\.)?  - also matches a missing Host header
]
HCONC = [TOK, {"www.": "WWW.", "api.": "a-p.i.", "example": "ex+ample", ".com": ".c(om", ":8000": ":80[00"}]


def regex(pat, m):
    alts = []
    for alt in pat:
        out = ""
        for e in alt:
            lit = re.escape("".join(m[t] for t in e["lit"]))
            out += "(%s)?" % lit if e["opt"] else lit
        alts.append(out)
    return "|".join(alts)


def run_hosts(ctx, tier):
    tabs = []
    for n in (1, 2, 3):
        tabs += [tuple(t) for t in itertools.permutations(PATTERNS, n)]
    if tier == "quick":
        tabs = tabs[::6]
    toks = list(TOK)
    vals = []
    for n in range(0, 4 if tier == "quick" else 5):
        vals += list(itertools.product(toks, repeat=n))
    K = dict(HostTables=tuple(tabs), HostValues=frozenset(vals))
    wd = tlc.workdir_for("c09h")
    tlc.sany(wd + "/Hosts.tla")
    tlc.write_mc(wd, "MC_Hosts", "Hosts", constants=K,
                 cfg_lines=["SPECIFICATION Spec", "CHECK_DEADLOCK FALSE", "INVARIANT FirstFullMatch"])
    res = tlc.run_tlc(wd, "MC_Hosts", dump=True)
    ctx.add_tlc("Hosts", res, {"tables": len(tabs), "hosts": len(vals)})
    if res.violated:
        raise common.MachineryError("Hosts.tla violates %s" % res.violated)
    tlc.check_coverage(res, ["TryEntry", "GiveUp"])
    g = graph.Graph.load(res.dot)
    apps = {}
    n = 0
    for nid in g.terminal():
        st = g.state(nid)
        if st["chosen"] == 0:
            raise common.MachineryError("undecided terminal state in Hosts")
        n += 1
        mi = n % 2
        m = HCONC[mi]
        tab = tabs[st["tab"] - 1]
        host = "".join(m[t] for t in st["host"])
        for iface in ("wsgi", "asgi"):
            key = (st["tab"], mi, iface)
            if key not in apps:
                rec = Recorder()
                entries = []
                for i, pat in enumerate(tab):
                    entries.append((regex(pat, m), build(LEAF, iface, SYM[0], rec, (i + 1,))))
                if iface == "wsgi":
                    from baize.wsgi import Hosts
                else:
                    from baize.asgi import Hosts
                apps[key] = (Hosts(*entries), rec)
            app, rec = apps[key]
            rec.seen = None
            hdrs = [("Host", host)] if st["host"] else []
            req = servers.Req(path="/", headers=hdrs)
            r = servers.wsgi_call(app, req) if iface == "wsgi" else servers.asgi_call(app, req)
            ctx.count()
            ctx.traces_validated += 1
            obs = {"status": r.status, "entry": rec.seen[0][0] if rec.seen else None, "exc": type(r.exc).__name__ if r.exc else None}
            exp = {"status": 200, "entry": st["chosen"], "exc": None} if st["chosen"] > 0 else {"status": 404, "entry": None, "exc": None}
            if obs != exp:
                ctx.violation({"hosts": [regex(p, m) for p in tab], "host": host if st["host"] else None, "iface": iface},
                              exp, obs, "host dispatch does not select the first full match", {"module": "Hosts"})
        if st["chosen"] > 1 or (st["chosen"] < 0 and st["host"]):
            ctx.nontriv(("host", st["tab"], st["host"]))
        if n <= 1:
            ctx.sample({"hosts": [regex(p, m) for p in tab], "host": host, "chosen": st["chosen"]})
    return n


def run_raw_paths(ctx):
    """WSGI hands the path over as bytes-in-Latin-1: paths that are UTF-8 only in part must still be matched prefix by prefix
    (byte sequences compared as bytes), and SCRIPT_NAME + PATH_INFO must stay the request path"""
    import baize.wsgi as W
    seen = {}

    def leaf(name):
        def app(environ, start_response):
            seen["hit"] = (name, environ.get("SCRIPT_NAME", ""), environ.get("PATH_INFO", ""))
            return W.PlainTextResponse(name)(environ, start_response)
        return app
    e_acute = "\u00e9".encode("utf-8").decode("latin-1")       # the native string of "é"
    cases = [  # (mounts, raw PATH_INFO, expected (leaf, SCRIPT_NAME, PATH_INFO) or None for 404)
        ([("/\u00e9", "A"), ("/" + e_acute, "B")], "/" + e_acute + "/\xff", ("A", "/" + e_acute, "/\xff")),
        ([("/\u00e9", "A"), ("/" + e_acute, "B")], "/" + e_acute + "/x", ("A", "/" + e_acute, "/x")),
        ([("/\u00e9", "A")], "/" + e_acute + "/\xff\xfe", ("A", "/" + e_acute, "/\xff\xfe")),
        ([("/\u00e9", "A")], "/\xe9/\xe9", None),             # the byte E9 alone is not the UTF-8 of é
        ([("/\u00e9", "A"), ("", "D")], "/\xe9", ("D", "", "/\xe9")),
        ([("/a", "A")], "/a/\xff", ("A", "/a", "/\xff")),
        ([("/a", "A"), ("", "D")], "/\xff/a", ("D", "", "/\xff/a")),
    ]
    for mounts, raw, want in cases:
        app = W.Subpaths(*[(p, leaf(n)) for p, n in mounts])
        env = servers.make_environ(servers.Req(path="/"))
        env["PATH_INFO"] = raw
        seen.clear()
        r = servers.wsgi_call(app, env)
        ctx.count()
        got = seen.get("hit")
        from baize.exceptions import HTTPException
        status = r.exc.status_code if isinstance(r.exc, HTTPException) else (r.status if r.exc is None else "exc:" + type(r.exc).__name__)
        case = {"iface": "wsgi", "mounts": [p for p, _ in mounts], "raw_path_info": raw}
        if want is None:
            if got is not None or status != 404:
                ctx.violation(case, 404, {"dispatched": got, "status": status}, "mount dispatch differs from the statement (path that is UTF-8 only in part)")
        elif got != want:
            ctx.violation(case, {"leaf": want[0], "SCRIPT_NAME": want[1], "PATH_INFO": want[2]}, {"dispatched": got, "status": status},
                          "mount dispatch differs from the statement (path that is UTF-8 only in part)")
        ctx.nontriv(("rawpath", raw))


def run(ctx):
    ctx.rule = ("every behaviour of Mount.tla / Hosts.tla (mount tree x path x initial root; host table x Host value) is "
                "replayed on real Subpaths/Hosts on WSGI and ASGI; non-trivial = nested descent, overlapping prefixes "
                "(/a vs /ab), non-first host entries, rejected non-empty hosts")
    ctx.assumptions = ["prefixes obey the constructor's asserts (start with '/', no trailing '/')",
                       "token-level host matching equals character-level matching for the token set used (checked by replay)"]
    nm = run_mount(ctx, ctx.tier)
    nh = run_hosts(ctx, ctx.tier)
    run_raw_paths(ctx)
    ctx.bounds = {"mount_behaviours": nm, "host_behaviours": nh, "nesting_depth": 3}
    ctx.exhaustive = True


if __name__ == "__main__":
    sys.exit(common.main("C09", run))
