"""C19 - server-sent events reach the client as they were yielded.

spec/SseWire.tla: the encoder (build_bytes_from_sse, line splitter as a parameter) and the client
(WHATWG event-stream interpretation) as transducers over character classes; TLC checks RoundTrip and
PingIgnored for every event over the class alphabet and for event sequences with interleaved pings.
Every state is concretised: the real build_bytes_from_sse / SendEventResponse produce the bytes, a
Python event-stream parser (itself compared with the model's Parse on every model input) decodes
them.  The per-character step covers Unicode code points as one-character data.
"""
import itertools
import re
import sys

from .. import tlc, graph, common, servers

OS = ["\x0b", "\x0c", "\x1c", "\x1d", "\x1e", "\x85", " ", " "]
CH = ["x", "é", "中", "1", "-"]


# per charset: the separators and ordinary characters it can encode (ASCII-compatible charsets only: the field
# names, colons and line feeds of the block are ASCII bytes whatever the charset)
PALETTES = {
    "utf-8": (OS, CH),
    "latin-1": (["\x0b", "\x0c", "\x1c", "\x1d", "\x1e", "\x85"], ["x", "\u00e9", "\u00ff", "1", "\u00ba"]),
    "gbk": (["\x0b", "\x0c", "\x1c", "\x1d", "\x1e"], ["\u4e2d", "x", "\u00e9", "\u6587", "-"]),
    "shift_jis": (["\x0b", "\x0c", "\x1c", "\x1d", "\x1e"], ["\u65e5", "x", "\uff76", "1", "\u672c"]),
}
ALT_CHARSETS = ["latin-1", "gbk", "shift_jis"]
RETRY = {0: None, 1: 1500, 2: 0}


def conc_chars(seq, n, fixed=False, charset="utf-8"):
    out = []
    os_, ch = PALETTES[charset]
    for i, c in enumerate(seq):
        if fixed:
            i = n = 0
        out.append({"LF": "\n", "CR": "\r", "CO": ":", "SP": " ", "DIGITS": "1500", "ZERO": "0", "data": "data", "event": "event", "id": "id",
                    "retry": "retry"}.get(c) or (os_[(n + i) % len(os_)] if c == "OS" else ch[(n + i) % len(ch)]))
    return "".join(out)


def parse_stream(text):
    """WHATWG event-stream interpretation of decoded text -> list of events {data, event, id, retry}"""
    events = []
    data, has, ev, last_id, retry = [], False, "", "", None
    lines = re.split(r"\r\n|\r|\n", text)
    for line in lines[:-1]:
        if line == "":
            if has:
                events.append({"data": "\n".join(data), "event": ev, "id": last_id, "retry": retry})
            data, has, ev, retry = [], False, "", None
            continue
        if line.startswith(":"):
            continue
        name, sep, value = line.partition(":")
        if value.startswith(" "):
            value = value[1:]
        if name == "data":
            data.append(value)
            has = True
        elif name == "event":
            ev = value
        elif name == "id":
            if "\0" not in value:
                last_id = value
        elif name == "retry":
            if value.isascii() and value.isdigit():
                retry = int(value)
    return events


def event_dict(e, n, charset="utf-8"):
    d = {}
    if e["event"]:
        d["event"] = conc_chars(e["event"], n + 1, charset=charset)
    if e["hasId"]:
        d["id"] = conc_chars(e["id"], n + 2, charset=charset)
    if e["retry"]:
        d["retry"] = RETRY[e["retry"]]
    if e["hasData"]:
        d["data"] = conc_chars(e["data"], n, charset=charset)
    return d


def expected_event(d, inherited_id):
    return {"data": "\n".join(re.split(r"\r\n|\r|\n", d["data"])), "event": d.get("event", ""), "id": d.get("id", inherited_id),
            "retry": d.get("retry")}


def run_model(ctx, wd, name, K, replay_responses):
    cfg = ["SPECIFICATION Spec", "CHECK_DEADLOCK FALSE", "CONSTRAINT PingBound", "INVARIANT RoundTrip", "INVARIANT PingIgnored"]
    tlc.write_mc(wd, "MC_" + name, "SseWire", constants=K, cfg_lines=cfg)
    res = tlc.run_tlc(wd, "MC_" + name, dump=True, heap="8g")
    ctx.add_tlc(name, res, K)
    if res.violated:
        raise common.MachineryError("SseWire.tla: " + tlc.describe(res))
    tlc.check_coverage(res, ["Yield", "SendPing"])
    g = graph.Graph.load(res.dot)
    from baize.responses import build_bytes_from_sse
    import baize.wsgi as W
    import baize.asgi as A
    n = 0
    for nid in g.nodes():
        st = g.state(nid)
        if not st["yielded"]:
            continue
        n += 1
        for charset in ("utf-8", ALT_CHARSETS[n % 3]):
            dicts = [event_dict(e, n + 3 * i, charset) for i, e in enumerate(st["yielded"])]
            try:
                blocks = [build_bytes_from_sse(dict(d), charset) for d in dicts]
            except BaseException as e:  # noqa
                ctx.violation({"events": dicts}, "bytes", type(e).__name__, "build_bytes_from_sse raised %s" % type(e).__name__)
                continue
            ctx.count()
            ctx.traces_validated += 1
            try:
                text = b"".join(b + (b": ping\n\n" if (n + i) % 3 == 0 else b"") for i, b in enumerate(blocks)).decode(charset)
            except UnicodeDecodeError as e:
                ctx.violation({"events": dicts, "charset": charset}, "a block in " + charset, str(e), "the block cannot be decoded with the response's charset")
                continue
            got = parse_stream(text)
            want, last = [], ""
            for d in dicts:
                if "id" in d:
                    last = d["id"]
                if "data" in d:
                    want.append(expected_event(d, last))
            case = {"events": dicts, "charset": charset}
            if got != want:
                ctx.violation(case, want, {"decoded": got, "wire": text}, "a conforming EventSource parser does not decode the yielded events")
            # the python parser agrees with the model's client on the model's own wire
            mw = conc_chars(st["wire"], 0, True)
            mp = parse_stream(mw)
            model = [{"data": conc_chars(p["data"], 0, True), "event": conc_chars(p["event"], 0, True), "id": conc_chars(p["id"], 0, True),
                      "retry": RETRY[p["retry"]]} for p in st["parsed"]]
            if mp != model:
                raise common.MachineryError("harness parser disagrees with SseWire.tla Parse on %r: %r vs %r" % (mw, mp, model))
            if replay_responses and len(dicts) >= 1 and n % (11 if ctx.tier == "quick" else 9) == 0:
                for iface in ("wsgi", "asgi"):
                    from ..recipes import stream
                    kw = {} if charset == "utf-8" else {"charset": charset}
                    resp = (W if iface == "wsgi" else A).SendEventResponse(stream(iface, [dict(d) for d in dicts]), ping_interval=30, **kw)
                    r = servers.wsgi_call(resp, servers.Req()) if iface == "wsgi" else servers.asgi_call(resp, servers.Req())
                    ctx.count()
                    hs = dict(r.header_multiset())
                    ctype = hs.get("content-type", "")
                    declared = ctype.partition("charset=")[2].strip() or "utf-8"
                    try:
                        got = parse_stream(r.body.decode(declared)) if r.exc is None else "exc:" + type(r.exc).__name__
                    except (UnicodeDecodeError, LookupError) as e:
                        got = "undecodable with the declared charset %s: %s" % (declared, e)
                    if got != want or not ctype.startswith("text/event-stream") or hs.get("cache-control") != "no-cache":
                        ctx.violation({"events": dicts, "iface": iface, "charset": charset}, want, {"decoded": got, "headers": hs},
                                      "SendEventResponse on %s does not deliver the yielded events" % iface)
        if any(c in ("OS", "CR") for e in st["yielded"] for c in e["data"]) or any(e["hasData"] and not e["data"] for e in st["yielded"]) \
                or any(e["data"] and e["data"][-1] in ("LF", "CR") for e in st["yielded"]):
            ctx.nontriv((name, st["yielded"]))
        if n in (100, 5000):
            ctx.sample({"events": dicts, "decoded": want})


def tokenise(text, os_chars):
    """real (decoded) wire text -> the class symbols of SseWire.tla"""
    out = []
    for line in re.split(r"(\r\n|\r|\n)", text):
        if line in ("\r\n", "\r", "\n"):
            out += {"\r\n": ["CR", "LF"], "\r": ["CR"], "\n": ["LF"]}[line]
            continue
        if line == ": ping":
            out += ["CO", "SP", "CH"]
            continue
        m = re.match(r"(data|event|id|retry):", line)
        rest = line
        if m:
            out.append(m.group(1))
            rest = line[len(m.group(1)):]
            if m.group(1) == "retry" and re.fullmatch(r": \d+", rest):
                out += ["CO", "SP", "ZERO" if int(rest[2:]) == 0 else "DIGITS"]
                continue
        for c in rest:
            out.append("CO" if c == ":" else "SP" if c == " " else "OS" if c in os_chars else "CH")
    return out


def long_sequences(ctx):
    """code -> spec: sequences of 5-12 events with longer fields, through SendEventResponse on ASGI (virtual time, real pings in the
    pauses) and WSGI; after every chunk the bytes received so far are handed to TLC: the module's client reads the OBSERVED wire
    (RoundTrip), then the wire must be the module's own encoding"""
    import asyncio
    import random
    from .. import vloop, tracecheck
    from ..recipes import stream
    import baize.asgi as A
    import baize.wsgi as W
    wd = tlc.workdir_for("c19trace")
    rnd = random.Random(900 + ctx.seed)
    n_tr = 80 if ctx.tier == "quick" else 600
    data_alpha, name_alpha = ["LF", "CR", "OS", "CO", "SP", "CH", "CH"], ["CH", "CH", "CO", "SP"]

    def rand_event():
        has_data = rnd.random() < 0.8
        has_id = rnd.random() < 0.4
        e = {"hasData": has_data, "data": [rnd.choice(data_alpha) for _ in range(rnd.randint(0, 6))] if has_data else [],
             "event": [rnd.choice(name_alpha) for _ in range(rnd.randint(1, 2))] if rnd.random() < 0.4 else [],
             "hasId": has_id, "id": [rnd.choice(name_alpha) for _ in range(rnd.randint(0, 2))] if has_id else [], "retry": rnd.choice([0, 0, 0, 1, 2])}
        if not (e["hasData"] or e["event"] or e["hasId"] or e["retry"]):
            e["hasData"] = True
        return e

    async def timed(dicts, gaps, charset):
        chunks = []

        async def gen():
            for d, gp in zip(dicts, gaps):
                if gp:
                    await asyncio.sleep(gp)
                yield dict(d)

        async def receive():
            await asyncio.Event().wait()

        async def send(m):
            if m["type"] == "http.response.body" and m.get("body"):
                chunks.append(m["body"])
        kw = {} if charset == "utf-8" else {"charset": charset}
        await A.SendEventResponse(gen(), ping_interval=2, **kw)({"type": "http", "method": "GET", "path": "/", "headers": []}, receive, send)
        return chunks

    traces, meta = [], []
    for t in range(n_tr):
        charset = "utf-8" if t % 3 else ALT_CHARSETS[(t // 3) % 3]
        evs = [rand_event() for _ in range(rnd.randint(5, 12))]
        dicts = [event_dict(e, t + 3 * i, charset) for i, e in enumerate(evs)]
        iface = "asgi" if t % 2 == 0 else "wsgi"
        case = {"events": dicts, "charset": charset, "iface": iface, "source": "long sequence"}
        try:
            if iface == "asgi":
                chunks = vloop.run(timed(dicts, [rnd.choice([0, 0, 0, 3, 5]) for _ in dicts], charset))
            else:
                kw = {} if charset == "utf-8" else {"charset": charset}
                r = servers.wsgi_call(W.SendEventResponse(stream("wsgi", [dict(d) for d in dicts]), ping_interval=30, **kw), servers.Req())
                if r.exc is not None:
                    raise r.exc
                chunks = [c for c in r.items if c]
            texts = [c.decode(charset) for c in chunks]
        except Exception as e:  # noqa
            ctx.violation(case, "the events as bytes in " + charset, type(e).__name__ + ": " + str(e)[:100], "SendEventResponse failed on a sequence of events (%s)" % type(e).__name__)
            continue
        ctx.count()
        os_chars = set(PALETTES[charset][0])
        entries, wire, k = [], "", 0
        for tx in texts:
            wire += tx
            if tx == ": ping\n\n":
                entries.append({"k": "ping", "wire": tokenise(wire, os_chars)})
            elif k < len(evs):
                entries.append({"k": "event", "e": evs[k], "wire": tokenise(wire, os_chars)})
                k += 1
            else:
                k += 1
        if k != len(evs):
            ctx.violation(case, "%d chunks, one per event" % len(evs), {"chunks": texts}, "SendEventResponse does not send one block per yielded event")
            continue
        traces.append({"events": entries})
        meta.append(case)
        # the Python client too
        want, last = [], ""
        for d in dicts:
            if "id" in d:
                last = d["id"]
            if "data" in d:
                want.append(expected_event(d, last))
        got = parse_stream(wire)
        if got != want:
            ctx.violation(case, want, {"decoded": got, "wire": wire}, "a conforming EventSource parser does not decode the yielded sequence of events")
        ctx.nontriv(("longseq", t))
    K = dict(MaxData=0, DataAlphabet=frozenset(), NameAlphabet=frozenset(), Splitter="wire", MaxEvents=0, MaxPings=0, Retries=frozenset())
    acc, rejected = tracecheck.validate(wd, "TraceSseWire", traces, constants=dict(K, Strict=False), invariants=["RoundTrip"])
    ctx.traces_validated += acc
    bad = set()
    for tid, name, st in tracecheck.validate.last_invariant_failures:
        bad.add(tid)
        st = st if isinstance(st, dict) else {}
        ctx.violation(dict(meta[tid], after_chunks=st.get("l", 1) - 1), "the client of SseWire.tla decodes the yielded events from the observed bytes",
                      {"parsed": st.get("parsed")}, "the bytes sent for a sequence of events violate %s of SseWire.tla" % name)
    for tid, prefix in rejected:
        if tid not in bad:
            raise common.MachineryError("TraceSseWire (observation mode) cannot follow sequence %d at chunk %d" % (tid, prefix + 1))
    good = [t for i, t in enumerate(traces) if i not in bad]
    acc2, rej2 = tracecheck.validate(wd, "TraceSseWire", good, constants=dict(K, Strict=True))
    for tid, prefix in rej2:
        t = good[tid]
        ctx.drift_at({"chunk": prefix + 1, "entry": {k: v for k, v in t["events"][prefix].items() if k != "wire"} if prefix < len(t["events"]) else None},
                     "Encode() of SseWire.tla", t["events"][prefix]["wire"][-30:] if prefix < len(t["events"]) else None,
                     "the bytes of chunk %d are not the encoding of SseWire.tla" % (prefix + 1))
    import copy
    fal = []
    for t in good[:8]:
        t2 = copy.deepcopy(t)
        i = len(t2["events"]) // 2
        t2["events"][i]["wire"] = t2["events"][i]["wire"][:-1] + ["CH", "LF"]
        t2["events"] = t2["events"][:i + 1]
        fal.append(t2)
    if fal and ctx.conforming() and not rej2:
        acc3, _ = tracecheck.validate(wd, "TraceSseWire", fal, constants=dict(K, Strict=True))
        if acc3:
            raise common.MachineryError("binding self-test: %d falsified event-stream traces accepted by TraceSseWire" % acc3)
    ctx.notes.append("TraceSseWire: %d sequences (%d chunks, real pings on ASGI) validated; %d falsified ones rejected" % (
        len(traces), sum(len(t["events"]) for t in traces), len(fal)))


def run(ctx):
    ctx.rule = ("every event over the class alphabet (data up to MaxData characters incl. CR, LF, CRLF, the 8 other separators, colon, "
                "space; any subset of event/id/retry) and event sequences with pings; each concretised, encoded by the real code and "
                "decoded by a WHATWG parser; non-trivial = data containing a separator, empty data, data ending in a line break")
    ctx.assumptions = ["event names and ids are single-line", "the client decodes with the declared charset (utf-8)",
                       "an event without a data key is not dispatched by any conforming client, so nothing is demanded of it"]
    wd = tlc.workdir_for("c19")
    tlc.sany(wd + "/SseWire.tla")
    full = frozenset({"LF", "CR", "OS", "CO", "SP", "CH"})
    K1 = dict(MaxData=3, DataAlphabet=full, NameAlphabet=frozenset({"CH", "CO"}) if ctx.tier == "quick" else frozenset({"CH", "CO", "SP"}), Splitter="wire", MaxEvents=1, MaxPings=1, Retries=frozenset({0, 1, 2}))
    # thorough: data of four characters too, with the other dimensions at their smallest (the full product took TLC 21 minutes)
    K1b = dict(K1, MaxData=4, NameAlphabet=frozenset({"CH"}), Retries=frozenset({0, 2}))
    K2 = dict(MaxData=1, DataAlphabet=frozenset({"LF", "CH", "OS"}), NameAlphabet=frozenset({"CH"}), Splitter="wire", MaxEvents=2 if ctx.tier == "quick" else 3, MaxPings=1,
              Retries=frozenset({0, 2}))
    ctx.bounds = {"single_events": {k: (sorted(v) if isinstance(v, frozenset) else v) for k, v in K1.items()},
                  "sequences": {k: (sorted(v) if isinstance(v, frozenset) else v) for k, v in K2.items()}}
    run_model(ctx, wd, "SseWire_single", K1, True)
    if ctx.tier == "thorough":
        run_model(ctx, wd, "SseWire_single_len4", K1b, True)
    run_model(ctx, wd, "SseWire_sequences", K2, True)
    # witness: str.splitlines as the splitter must break RoundTrip
    KW = dict(K1, MaxData=2, Splitter="py")
    tlc.write_mc(wd, "MC_SseWireOrig", "SseWire", constants=KW, cfg_lines=["SPECIFICATION Spec", "CHECK_DEADLOCK FALSE", "CONSTRAINT PingBound", "INVARIANT RoundTrip"])
    wres = tlc.run_tlc(wd, "MC_SseWireOrig", coverage=False)
    if wres.violated != "RoundTrip":
        raise common.MachineryError("witness failed: Splitter=py does not violate RoundTrip")
    ctx.notes.append("witness: str.splitlines as splitter violates RoundTrip after %d states" % wres.distinct)
    # order and completeness across ping timeouts (ASGI, virtual time): pauses longer than the ping interval between events
    import asyncio
    from .. import vloop
    import baize.asgi as A

    async def timed(gaps, ping):
        body = []

        async def gen():
            for i, gp in enumerate(gaps, 1):
                await asyncio.sleep(gp)
                yield {"id": str(i), "data": "e%d\nx" % i}

        async def receive():
            await asyncio.Event().wait()

        async def send(m):
            if m["type"] == "http.response.body":
                body.append(m.get("body", b""))
        await A.SendEventResponse(gen(), ping_interval=ping)({"type": "http", "method": "GET", "path": "/", "headers": []}, receive, send)
        return b"".join(body)
    for gaps, ping in (([0, 5, 0, 7, 1], 2), ([3, 3, 3], 1), ([0, 0, 9, 0], 4), ([1, 2, 3, 4], 3)):
        raw = vloop.run(timed(gaps, ping))
        got = parse_stream(raw.decode("utf-8"))
        ctx.count()
        want = [{"data": "e%d\nx" % i, "event": "", "id": str(i), "retry": None} for i in range(1, len(gaps) + 1)]
        if got != want or b": ping" not in raw:
            ctx.violation({"asgi_event_gaps": gaps, "ping_interval": ping}, want, {"decoded": got},
                          "events yielded after a keep-alive ping are lost, duplicated or out of order")
        ctx.nontriv(("timed", tuple(gaps), ping))
    long_sequences(ctx)
    # the same event dictionary yielded more than once (a tick event kept by the application) is delivered every time, unchanged
    import baize.wsgi as W
    from ..recipes import stream
    for ev in ({"event": "tick", "data": "hello", "id": "7"}, {"data": "a\nb"}, {"retry": 5, "data": ""}):
        for iface in ("wsgi", "asgi"):
            shared = dict(ev)
            resp = (W if iface == "wsgi" else A).SendEventResponse(stream(iface, [shared, shared, shared]), ping_interval=30)
            r = servers.wsgi_call(resp, servers.Req()) if iface == "wsgi" else servers.asgi_call(resp, servers.Req())
            ctx.count()
            got = parse_stream(r.body.decode("utf-8")) if r.exc is None else "exc:" + type(r.exc).__name__
            want = [expected_event(ev, ev.get("id", ""))] * 3
            if got != want or shared != ev:
                ctx.violation({"event_yielded_three_times": ev, "iface": iface}, want, {"decoded": got, "dictionary_afterwards": shared},
                              "an event dictionary yielded repeatedly is not delivered each time (or is modified by the response)")
            ctx.nontriv(("shared", iface, str(ev)))
    # per character: every code point as one-character data comes back unchanged
    from baize.responses import build_bytes_from_sse
    cps = range(0x110000) if ctx.tier == "thorough" else itertools.chain(range(0x3100), range(0xD7F0, 0xE010), range(0xFFF0, 0x10010), range(0x1F600, 0x1F610))
    for cp in cps:
        if 0xD800 <= cp <= 0xDFFF:
            continue
        c = chr(cp)
        for data in (c, "a" + c + "b"):
            got = parse_stream(build_bytes_from_sse({"data": data}, "utf-8").decode("utf-8"))
            ctx.count()
            want = [{"data": "\n".join(re.split(r"\r\n|\r|\n", data)), "event": "", "id": "", "retry": None}]
            if got != want:
                ctx.violation({"data": repr(data)}, want, got, "character U+%04X in data does not survive the event stream" % cp)
    ctx.exhaustive = True


if __name__ == "__main__":
    sys.exit(common.main("C19", run))
