"""C11 - the WebSocket wrapper only forwards protocol-legal event sequences.

spec/WebSocket.tla is model checked; every edge of its state graph is replayed on a real
baize.asgi.WebSocket (spec -> code); the repository's own websocket tests and random long
call sequences are recorded and validated against spec/TraceWebSocket.tla (code -> spec).
"""
import json
import os
import random
import subprocess
import sys

from .. import tlc, graph, common, tracecheck

CONSTS = {
    "quick": dict(MaxFrames=2, MaxFwd=3),
    "thorough": dict(MaxFrames=3, MaxFwd=5),
}
INVARIANTS = ["TypeOK", "LegalFwd", "StateMatchesFwd", "ClientStateTracksScript", "FramesInOrderOnce"]
PROPERTIES = ["NoReceiveAfterDisconnect", "IllegalForwardsNothing", "CloseIdempotent", "Monotone"]
ACTIONS = ["Receive", "ReceiveTyped", "DoSend", "Accept", "Close"]

RANK = {"CONNECTING": 0, "CONNECTED": 1, "DISCONNECTED": 2}


def run_coro(coro):
    """drive a coroutine that is never really suspended (scripted receive/send)"""
    try:
        coro.send(None)
    except StopIteration as e:
        return e.value
    coro.close()
    raise RuntimeError("coroutine suspended on a real future")


class Driver:
    """a real WebSocket over a scripted server"""

    def __init__(self, script, fail_at=0):
        from baize.asgi import WebSocket
        self.script = list(script)
        self.fail_at = fail_at
        self.rcalls = 0
        self.fwd = []
        self.got = []
        self.hist = []

        async def receive():
            i = self.rcalls
            self.rcalls += 1
            if i >= len(self.script):
                return {"type": "websocket.disconnect", "code": 1006}
            ev = self.script[i]
            if ev == "connect":
                return {"type": "websocket.connect"}
            if ev == "disconnect":
                return {"type": "websocket.disconnect", "code": 1001}
            if ev == "text":
                return {"type": "websocket.receive", "text": "t%d" % (i + 1)}
            return {"type": "websocket.receive", "bytes": b"b%d" % (i + 1)}

        async def send(msg):
            self.fwd.append(dict(msg))
            if self.fail_at and len(self.fwd) == self.fail_at:
                raise OSError("connection lost")

        self.ws = WebSocket({"type": "websocket", "path": "/", "headers": []}, receive, send)

    def call(self, name, args):
        ws = self.ws
        pre = self.snapshot()
        try:
            if name == "Receive":
                m = run_coro(ws.receive())
                t = m["type"]
                if t == "websocket.connect":
                    ret = "connect"
                elif t == "websocket.disconnect":
                    ret = "disconnect"
                else:
                    ret = "text" if "text" in m else "bytes"
                    self._returned(m.get("text", m.get("bytes")))
            elif name == "ReceiveText":
                v = run_coro(ws.receive_text())
                ret = "text"
                self._returned(v)
            elif name == "ReceiveBytes":
                v = run_coro(ws.receive_bytes())
                ret = "bytes"
                self._returned(v)
            elif name == "SendRaw":
                t = args[0]
                msg = {"type": "websocket." + t}
                if t == "send":
                    msg["text"] = "raw"
                run_coro(ws.send(msg))
                ret = "ok"
            elif name == "SendText":
                run_coro(ws.send_text("hello"))
                ret = "ok"
            elif name == "SendBytes":
                run_coro(ws.send_bytes(b"hello"))
                ret = "ok"
            elif name == "Accept":
                run_coro(ws.accept())
                ret = "ok"
            elif name == "Close":
                run_coro(ws.close())
                ret = "ok"
            else:
                raise common.MachineryError("unknown action " + name)
        except common.MachineryError:
            raise
        except BaseException as e:  # what the wrapper raised is an observation
            ret = type(e).__name__
        post = self.snapshot()
        post["ret"] = ret
        self.hist.append((name, tuple(args), pre, post))
        return post

    def _returned(self, payload):
        if isinstance(payload, bytes):
            payload = payload.decode()
        try:
            self.got.append(int(str(payload)[1:]))
        except ValueError:
            self.got.append(-1)

    def snapshot(self):
        return {"cs": getattr(self.ws.client_state, "name", str(self.ws.client_state)),
                "ast": getattr(self.ws.application_state, "name", str(self.ws.application_state)),
                "rpos": self.rcalls, "fwd": [m["type"].split(".", 1)[1] for m in self.fwd],
                "got": list(self.got)}


def recog(fwd):
    q = "start"
    for t in fwd:
        if q == "start" and t == "accept":
            q = "open"
        elif q == "start" and t == "close":
            q = "closed"
        elif q == "open" and t == "send":
            q = "open"
        elif q == "open" and t == "close":
            q = "closed"
        else:
            return "bad"
    return q


SEND_TYPE = {"SendText": "send", "SendBytes": "send", "Accept": "accept", "Close": "close"}


def property_clauses(script, name, args, pre, post):
    """The statement of C11 evaluated on one real call; returns list of failed clauses."""
    bad = []
    # legal forwarded sequence
    if recog(post["fwd"]) == "bad":
        bad.append("forwarded sequence is not a legal ASGI websocket application sequence")
    if post["fwd"][:len(pre["fwd"])] != pre["fwd"]:
        bad.append("forwarded history rewritten")
    disc_pos = script.index("disconnect") + 1 if "disconnect" in script else len(script) + 1
    delivered = pre["rpos"] >= disc_pos
    # no receive after the disconnect was delivered
    if delivered and post["rpos"] != pre["rpos"]:
        bad.append("receive() issued to the server after a disconnect was delivered")
    if post["rpos"] > disc_pos:
        bad.append("receive() issued to the server after a disconnect was delivered")
    raised = post["ret"] not in ("ok", "connect", "disconnect", "text", "bytes")
    if post["ret"] == "OSError":   # the server's send() failed: the message was handed over, nothing else to demand of this call
        raised = False
    # illegal calls raise without forwarding anything
    if name in ("SendRaw", "SendText", "SendBytes", "Accept"):
        t = args[0] if name == "SendRaw" else SEND_TYPE[name]
        q = recog(pre["fwd"])
        legal = (q == "start" and t in ("accept", "close")) or (q == "open" and t in ("send", "close"))
        if not legal:
            if not raised:
                bad.append("illegal %s(%s) in protocol state %s did not raise" % (name, t, q))
            if post["fwd"] != pre["fwd"]:
                bad.append("illegal %s(%s) in protocol state %s forwarded a message" % (name, t, q))
    if name in ("Receive", "ReceiveText", "ReceiveBytes") and delivered and not raised:
        bad.append("%s after disconnect did not raise" % name)
    if raised and post["fwd"] != pre["fwd"]:
        bad.append("a call that raised %s forwarded a message" % post["ret"])
    # close is idempotent
    if name == "Close" and recog(pre["fwd"]) == "closed":
        if raised or post["fwd"] != pre["fwd"]:
            bad.append("close() after close is not a silent no-op")
    if name == "Close" and recog(pre["fwd"]) in ("start", "open"):
        if raised or post["fwd"] != pre["fwd"] + ["close"]:
            pass
        if post["ret"] not in ("ok", "OSError") or post["fwd"] != pre["fwd"] + ["close"]:
            bad.append("close() in state %s did not forward exactly one close" % recog(pre["fwd"]))
    # frames in order exactly once
    g = post["got"]
    if any(a >= b for a, b in zip(g, g[1:])) or any(x < 1 or x > len(script) or script[x - 1] not in ("text", "bytes") for x in g):
        bad.append("frames not returned in order exactly once: %s" % g)
    if len(g) > len(pre["got"]) and g[-1] != post["rpos"]:
        bad.append("returned frame is not the frame just pulled")
    if name in ("ReceiveText", "ReceiveBytes", "Receive") and not raised and post["ret"] in ("text", "bytes"):
        if len(g) != len(pre["got"]) + 1:
            bad.append("frame returned twice or not recorded")
    # every data frame pulled from the server is handed to the application by that very call
    # (a typed helper given a frame of the other kind raises KeyError - the only way a frame may go unreturned)
    pulled = [i + 1 for i in range(pre["rpos"], min(post["rpos"], len(script))) if script[i] in ("text", "bytes")]
    returned_now = g[len(pre["got"]):]
    if name == "Accept" and (pulled or any(script[i] == "disconnect" for i in range(pre["rpos"], min(post["rpos"], len(script))))):
        bad.append("accept() consumed a data frame / disconnect event from the server")
    if pulled and returned_now != pulled and post["ret"] != "KeyError":
        bad.append("frame(s) %s pulled from the server but not returned to the application (lost)" % pulled)
    if post["rpos"] - pre["rpos"] > 1:
        bad.append("one call pulled %d server events" % (post["rpos"] - pre["rpos"]))
    # a legal typed receive of a matching frame returns it
    if name in ("ReceiveText", "ReceiveBytes") and recog(pre["fwd"]) == "open" and not delivered \
            and pre["rpos"] >= 1 and pre["rpos"] < len(script):
        ev = script[pre["rpos"]]
        kind = "text" if name == "ReceiveText" else "bytes"
        if ev == kind and post["ret"] != kind:
            bad.append("matching %s frame was not returned (%s)" % (kind, post["ret"]))
        if ev == "disconnect" and not raised:
            bad.append("disconnect not raised by %s" % name)
    # states only move forward
    for k in ("cs", "ast"):
        if RANK.get(post[k], -1) < RANK.get(pre[k], -1) or post[k] not in RANK:
            bad.append("state %s moved backwards: %s -> %s" % (k, pre[k], post[k]))
    # reported application state agrees with what was forwarded
    want = {"start": "CONNECTING", "open": "CONNECTED", "closed": "DISCONNECTED"}.get(recog(post["fwd"]))
    if want and post["ast"] != want:
        bad.append("application_state %s disagrees with forwarded sequence (%s)" % (post["ast"], want))
    return bad


def project(st):
    return {"cs": st["cs"], "ast": st["ast"], "rpos": st["rpos"], "fwd": list(st["fwd"]),
            "got": list(st["got"]), "ret": st["ret"]}


CONCRETE = {
    ("DoSend", ("send",)): [("SendRaw", ("send",)), ("SendText", ()), ("SendBytes", ())],
    ("DoSend", ("accept",)): [("SendRaw", ("accept",))],
    ("DoSend", ("close",)): [("SendRaw", ("close",))],
    ("ReceiveTyped", ("text",)): [("ReceiveText", ())],
    ("ReceiveTyped", ("bytes",)): [("ReceiveBytes", ())],
    ("Receive", ()): [("Receive", ())],
    ("Accept", ()): [("Accept", ())],
    ("Close", ()): [("Close", ())],
}


def concretise(label):
    name, args = graph.parse_action(label)
    try:
        return CONCRETE[(name, tuple(args))]
    except KeyError:
        raise common.MachineryError("no concretisation for action %s" % label)


def replay_graph(ctx, g):
    parent = g.bfs_tree()
    n = 0
    for a, lab, b in g.edges():
        init, path = g.path_to(parent, a)
        script = list(g.state(init)["script"])
        fail_at = g.state(init)["failAt"]
        exp = project(g.state(b))
        pre_state = g.state(a)
        for vi, (name, args) in enumerate(concretise(lab)):
            d = Driver(script, fail_at)
            calls = []
            for i, (l, dst) in enumerate(path):
                vs = concretise(l)
                pn, pa = vs[(i + vi + n) % len(vs)]
                d.call(pn, pa)
                calls.append(pn + str(list(pa)))
            post = d.call(name, args)
            calls.append(name + str(list(args)))
            _, _, pre, _ = d.hist[-1]
            failed = property_clauses(script, name, args, pre, post)
            case = {"script": script, "calls": calls, "send_fails_at": fail_at}
            if failed:
                ctx.violation(case, exp, post, failed[0], {"failed_clauses": failed, "module": "WebSocket"})
            elif post != exp:
                ctx.drift_at(case, exp, post, "WebSocket state differs from the specification")
            n += 1
            ctx.traces_validated += 1
            ctx.count()
            if pre_state["ret"] != "init" and (name != "Receive" or pre_state["cs"] != "CONNECTED"):
                ctx.nontriv((tuple(script), pre_state["cs"], pre_state["ast"], pre_state["rpos"],
                             tuple(pre_state["fwd"]), name, args))
            if n <= 3:
                ctx.sample({"script": script, "calls": calls, "observed": post})
    return n


def random_traces(ctx, n_traces, length, rnd):
    """long random call sequences on the real class, recorded for TraceWebSocket"""
    traces = []
    ops = [("Receive", ()), ("ReceiveText", ()), ("ReceiveBytes", ()), ("SendRaw", ("accept",)),
           ("SendRaw", ("close",)), ("SendRaw", ("send",)), ("SendText", ()), ("SendBytes", ()),
           ("Accept", ()), ("Close", ())]
    for t in range(n_traces):
        k = rnd.randint(0, 12)
        script = ["connect"] + [rnd.choice(["text", "bytes"]) for _ in range(k)] + ["disconnect"]
        fail_at = rnd.choice([0, 0, 0, 1, 2, 3, 5])
        d = Driver(script, fail_at)
        # bias: mostly sensible sessions with a few illegal calls
        weights = [3, 6, 6, 1, 1, 1, 4, 4, 3, 1]
        events = []
        for _ in range(rnd.randint(1, length)):
            name, args = rnd.choices(ops, weights)[0]
            post = d.call(name, args)
            _, _, pre, _ = d.hist[-1]
            failed = property_clauses(script, name, args, pre, post)
            if failed:
                ctx.violation({"script": script, "calls": [h[0] for h in d.hist]}, None, post, failed[0],
                              {"failed_clauses": failed, "module": "WebSocket", "source": "random trace"})
            events.append({"op": name, "arg": args[0] if args else "", "cs": post["cs"], "ast": post["ast"],
                           "rpos": post["rpos"], "nfwd": len(post["fwd"]), "last": post["fwd"][-1] if post["fwd"] else "",
                           "ngot": len(post["got"]), "ret": post["ret"], "fwd": post["fwd"], "got": post["got"]})
        traces.append({"script": script, "failAt": fail_at, "events": events})
    return traces


def pytest_traces(ctx):
    """run the repository's offline websocket tests with WebSocket wrapped from outside"""
    out = os.path.join(tlc.scratch(), "ws_pytest_traces.json")
    env = dict(os.environ, PYTHONPATH=common.REPO + os.pathsep + tlc.VERIF, WS_TRACE_OUT=out,
               PYTHONDONTWRITEBYTECODE="1")
    tests = os.path.join(common.REPO, "tests", "test_asgi.py")
    p = subprocess.run([sys.executable, "-m", "pytest", "-q", "-p", "no:cacheprovider", "-p",
                        "harness.pytest_ws_plugin", tests, "-k", "websocket or client_close or application_close or "
                        "rejected_connection or subprotocol or duplicate_disconnect", "-x", "-q"],
                       cwd=common.REPO, env=env, stdout=subprocess.PIPE, stderr=subprocess.STDOUT, text=True, timeout=300)
    if not os.path.exists(out):
        ctx.notes.append("pytest trace source unavailable: " + p.stdout[-300:])
        return []
    with open(out) as f:
        return json.load(f)


def run(ctx):
    K = CONSTS[ctx.tier]
    ctx.bounds = dict(K)
    ctx.rule = ("every edge (state, call) of the dumped TLC state graph is replayed on a real WebSocket; "
                "non-trivial = distinct (script, wrapper state, call) pairs taken from a state other than the "
                "initial one, excluding plain receive() in CONNECTED state")
    ctx.assumptions = ["server scripts follow ASGI: connect, frames, disconnect",
                       "scripted receive/send never suspend; python -O (asserts off) not covered"]
    wd = tlc.workdir_for("c11")
    tlc.sany(os.path.join(wd, "WebSocket.tla"))
    cfg = ["SPECIFICATION Spec", "CONSTRAINT Bound", "CHECK_DEADLOCK FALSE"]
    cfg += ["INVARIANT " + i for i in INVARIANTS] + ["PROPERTY " + p for p in PROPERTIES]
    tlc.write_mc(wd, "MC_WebSocket", "WebSocket", constants=K, cfg_lines=cfg)
    res = tlc.run_tlc(wd, "MC_WebSocket", dump=True)
    ctx.add_tlc("WebSocket", res, K)
    if res.violated:
        raise common.MachineryError("specification WebSocket.tla violates %s; the model no longer proves C11:\n%s"
                                    % (res.violated, res.stdout[-1500:]))
    tlc.check_coverage(res, ACTIONS)
    g = graph.Graph.load(res.dot)
    if len(g) != res.distinct:
        raise common.MachineryError("graph dump has %d nodes, TLC reports %d" % (len(g), res.distinct))
    replay_graph(ctx, g)
    ctx.exhaustive = True

    # code -> spec
    rnd = random.Random(ctx.seed)
    traces = random_traces(ctx, 300 if ctx.tier == "quick" else 3000, 40 if ctx.tier == "quick" else 200, rnd)
    pt = pytest_traces(ctx)
    ctx.notes.append("repository websocket tests traced: %d sessions" % len(pt))
    for t in pt:
        pre = {"cs": "CONNECTING", "ast": "CONNECTING", "rpos": 0, "fwd": [], "got": []}
        for i, e in enumerate(t["events"]):
            post = {k: e[k] for k in ("cs", "ast", "rpos", "fwd", "got", "ret")}
            args = (e["arg"],) if e["op"] == "SendRaw" else ()
            failed = property_clauses(t["script"], e["op"], args, pre, post)
            if failed:
                ctx.violation({"script": t["script"], "events": [x["op"] for x in t["events"][:i + 1]],
                               "source": "repository tests"}, None, post, failed[0], {"failed_clauses": failed})
            pre = post
    allt = traces + pt
    acc, rejected = tracecheck.validate(wd, "TraceWebSocket", allt, constants={"MaxFrames": 0, "MaxFwd": 0},
                                        invariants=INVARIANTS, properties=PROPERTIES)
    ctx.traces_validated += acc
    ctx.count(len(allt))
    for tid, name, st in tracecheck.validate.last_invariant_failures:
        t = allt[tid]
        ctx.violation({"script": t["script"], "source": t.get("source", "random")}, "invariant " + name, st,
                      "recorded execution reaches a state violating %s of WebSocket.tla" % name)
    for tid, prefix in rejected:
        t = allt[tid]
        ev = t["events"][prefix] if prefix < len(t["events"]) else None
        ctx.drift_at({"script": t["script"], "events": [x["op"] for x in t["events"][:prefix + 1]],
                      "source": t.get("source", "random")}, "a behaviour of WebSocket.tla", ev,
                     "recorded execution is not a behaviour of WebSocket.tla at event %d" % (prefix + 1))
    if traces:
        ctx.sample({"trace_script": traces[0]["script"], "events": traces[0]["events"][:6]})


if __name__ == "__main__":
    sys.exit(common.main("C11", run))
