"""C20 - middleware is transparent to what it does not change.

spec/Middleware.tla: an abstract response travelling outwards through a stack of capturing layers
(folding header mapping, Set-Cookie lines kept apart, buffered body), checked for Transparent,
OnlyThatHeader, InnerOnce; FoldAll=TRUE (the original capture) is the witness.  Every (recipe, stack)
behaviour is executed on real `middleware` stacks on both interfaces with a raw inner application
that emits exactly the abstract response; in addition every response recipe of harness/recipes.py
(all response classes, streams, files with and without zero-copy, cookies) is compared bare against
wrapped, and the view `decorator` likewise.
"""
import itertools
import shutil
import sys

from .. import tlc, graph, common, servers, recipes
from ..tlaval import Rec

H = lambda n, *parts: (n, tuple(parts))  # noqa

NOFAIL = 99
ABSTRACT = [
    Rec(status=200, headers=(), body=(), fail=NOFAIL),
    Rec(status=200, headers=(H("content-type", "text/plain"),), body=("a",), fail=NOFAIL),
    Rec(status=404, headers=(H("x-a", "1"), H("content-length", "2")), body=("a", "b"), fail=NOFAIL),
    Rec(status=799, headers=(H("set-cookie", "c1=1; path=/"), H("set-cookie", "c2=2; path=/")), body=("a",), fail=NOFAIL),
    Rec(status=200, headers=(H("x-a", "1"), H("set-cookie", "c1=1; path=/"), H("x-mw", "inner"), H("set-cookie", "c2=2; path=/")), body=("a", "b", "c"), fail=NOFAIL),
    Rec(status=204, headers=(H("x-a", "1, 2"),), body=(), fail=NOFAIL),
    Rec(status=200, headers=(H("x-dup", "1"), H("x-dup", "2")), body=("a",), fail=NOFAIL),     # repeated plain header (known finding: folded)
    Rec(status=200, headers=(H("x-empty", ""), H("x-a", "1")), body=("a",), fail=NOFAIL),      # a header whose value is the empty string must survive
    # the body producer raises after 0 / 1 / 2 chunks (model level only: LateErrorSame; the real streams are driven further below)
    Rec(status=200, headers=(H("x-s", "1"),), body=("a", "c"), fail=0),
    Rec(status=200, headers=(H("x-s", "1"),), body=("a", "c"), fail=1),
    Rec(status=200, headers=(H("x-s", "1"),), body=("a", "c"), fail=2),
]
CHUNK = {"a": b"alpha-", "b": b"", "c": b"\xff\x00gamma"}


def raw_app(iface, r, counter, as_list=False):
    """an inner application that emits exactly the abstract response r"""
    hdrs = [(n, ", ".join(parts)) for n, parts in r["headers"]]
    chunks = [CHUNK[c] for c in r["body"]]
    if iface == "wsgi":
        def app(environ, start_response):
            counter.append(1)
            start_response("%d X" % r["status"], list(hdrs))
            if as_list:
                return list(chunks)
            return iter(list(chunks))
        return app

    async def aapp(scope, receive, send):
        counter.append(1)
        hs = [(n.encode(), v.encode()) for n, v in hdrs]
        # as_list: "gen" a one-shot iterator, "tuple" tuples - ASGI only asks for an iterable of two-item iterables
        hs = iter(hs) if as_list == "gen" else (tuple(tuple(h) for h in hs) if as_list == "tuple" else hs)
        await send({"type": "http.response.start", "status": r["status"], "headers": hs})
        if not chunks:
            await send({"type": "http.response.body", "body": b"", "more_body": False})
        for i, c in enumerate(chunks):
            await send({"type": "http.response.body", "body": c, "more_body": i < len(chunks) - 1})
    return aapp


def wrap(iface, app, stack):
    pkg = recipes.pkg(iface)
    for layer in stack:
        if iface == "wsgi":
            if layer == "edit":
                @pkg.middleware
                def m(request, next_call):
                    resp = next_call(request)
                    resp.headers["x-mw"] = "edited"
                    return resp
            else:
                @pkg.middleware
                def m(request, next_call):
                    return next_call(request)
        else:
            if layer == "edit":
                @pkg.middleware
                async def m(request, next_call):
                    resp = await next_call(request)
                    resp.headers["x-mw"] = "edited"
                    return resp
            else:
                @pkg.middleware
                async def m(request, next_call):
                    return await next_call(request)
        app = m(app)
    return app


def observe(iface, app, req=None, zerocopy=False):
    req = req or servers.Req()
    if iface == "wsgi":
        r = servers.wsgi_call(app, req)
    else:
        r = servers.asgi_call(app, req, extensions={"http.response.zerocopysend": {}} if zerocopy else None)
    return {"status": r.status, "headers": r.header_multiset(), "body": r.body, "exc": type(r.exc).__name__ if r.exc else None}


def run(ctx):
    depth = 2 if ctx.tier == "quick" else 3
    K = dict(Recipes=frozenset(ABSTRACT), MaxDepth=depth, FoldAll=False, Lazy=True)
    ctx.bounds = {"abstract_recipes": len(ABSTRACT), "MaxDepth": depth}
    ctx.rule = ("every (abstract recipe, layer stack) behaviour of Middleware.tla on real middleware stacks (WSGI and ASGI, raw inner "
                "apps returning lists / iterators / several body messages) plus every response recipe bare vs wrapped; non-trivial = "
                "stacks with >= 1 layer over responses with cookies, several chunks, files, streams or an editing layer")
    ctx.assumptions = ["finite inner responses (the ASGI capture buffers the whole inner response)",
                       "header comparison is a multiset comparison of (lower-case name, value)"]
    wd = tlc.workdir_for("c20")
    tlc.sany(wd + "/Middleware.tla")
    cfg = ["SPECIFICATION Spec", "CHECK_DEADLOCK FALSE", "INVARIANT Transparent", "INVARIANT OnlyThatHeader", "INVARIANT InnerOnce", "INVARIANT LateErrorSame"]
    tlc.write_mc(wd, "MC_Middleware", "Middleware", constants=K, cfg_lines=cfg)
    res = tlc.run_tlc(wd, "MC_Middleware", dump=True)
    ctx.add_tlc("Middleware", res, ctx.bounds)
    if res.violated:
        raise common.MachineryError("Middleware.tla: " + tlc.describe(res))
    tlc.check_coverage(res, ["CallInner", "Wrap"])
    tlc.write_mc(wd, "MC_MiddlewareOrig", "Middleware", constants=dict(K, FoldAll=True),
                 cfg_lines=["SPECIFICATION Spec", "CHECK_DEADLOCK FALSE", "INVARIANT Transparent"])
    wres = tlc.run_tlc(wd, "MC_MiddlewareOrig", coverage=False)
    if wres.violated != "Transparent":
        raise common.MachineryError("witness failed: FoldAll=TRUE does not violate Transparent (%s)" % wres.violated)
    ctx.notes.append("witness: folding Set-Cookie lines (FoldAll=TRUE) violates Transparent after %d states" % wres.distinct)
    # the ASGI capture buffers the inner response (Lazy=FALSE): in the model that breaks LateErrorSame - known finding 2, see the late-error runs below
    tlc.write_mc(wd, "MC_MiddlewareBuffered", "Middleware", constants=dict(K, Lazy=False),
                 cfg_lines=["SPECIFICATION Spec", "CHECK_DEADLOCK FALSE", "INVARIANT LateErrorSame"])
    bres = tlc.run_tlc(wd, "MC_MiddlewareBuffered", coverage=False)
    if bres.violated != "LateErrorSame":
        raise common.MachineryError("Middleware.tla with Lazy=FALSE does not violate LateErrorSame (%s)" % bres.violated)
    ctx.notes.append("model of the buffering ASGI capture (Lazy=FALSE) violates LateErrorSame: the known finding, as the model predicts it")
    g = graph.Graph.load(res.dot)
    n = 0
    for nid in g.terminal():
        st = g.state(nid)
        r, stack = st["recipe"], list(st["stack"])
        if r["fail"] != NOFAIL:
            continue       # failing producers are driven on real streams below (late-error runs)
        n += 1
        want_headers = sorted((h[0], ", ".join(h[1])) for h in st["cur"]["headers"])
        want = {"status": st["cur"]["status"], "headers": want_headers, "body": b"".join(CHUNK[c] for c in st["cur"]["body"]), "exc": None}
        dup = any(r["headers"][i][0] == r["headers"][j][0] != "set-cookie" for i in range(len(r["headers"])) for j in range(i))
        for iface in ("wsgi", "asgi"):
            for as_list in ((False, True) if iface == "wsgi" else (False, "gen", "tuple")):
                counter = []
                app = wrap(iface, raw_app(iface, r, counter, as_list), stack)
                o = observe(iface, app)
                ctx.count()
                ctx.traces_validated += 1
                case = {"inner": "raw app: status %d, headers %s, %d chunks%s" % (r["status"], [(h[0], ", ".join(h[1])) for h in r["headers"]],
                                                                                  len(r["body"]), (" (%s)" % ("list" if as_list is True else as_list)) if as_list else ""),
                        "iface": iface, "stack": stack}
                bare = observe(iface, raw_app(iface, r, [], as_list))
                edited = "edit" in stack
                problem = None
                if len(counter) != 1:
                    problem = "inner application ran %d times" % len(counter)
                elif o["exc"]:
                    problem = "wrapped application raised %s" % o["exc"]
                elif o["status"] != bare["status"]:
                    problem = "status changed from %s to %s" % (bare["status"], o["status"])
                elif o["body"] != bare["body"]:
                    problem = "body changed (%d -> %d bytes)" % (len(bare["body"]), len(o["body"]))
                else:
                    bh = [h for h in bare["headers"] if not (edited and h[0] == "x-mw")]
                    oh = [h for h in o["headers"] if not (edited and h[0] == "x-mw")]
                    if sorted(bh) != sorted(oh) and stack:
                        if dup:
                            case = {"inner": "raw app with a repeated non-cookie header", "iface": "*", "stack": "*"}
                            problem = "repeated non-cookie header lines are folded into one comma-joined line"
                        else:
                            problem = "headers changed: %s -> %s" % (bh, oh)
                    elif edited and ("x-mw", "edited") not in o["headers"]:
                        problem = "editing layer's header is missing"
                if problem:
                    ctx.violation(case, {"status": bare["status"], "headers": bare["headers"], "body_len": len(bare["body"])},
                                  {"status": o["status"], "headers": o["headers"], "body_len": len(o["body"]), "exc": o["exc"]}, problem,
                                  {"module": "Middleware"})
                elif not dup and {k: o[k] for k in want} != want:
                    ctx.drift_at(case, {k: (v if k != "body" else len(v)) for k, v in want.items()},
                                 {"status": o["status"], "headers": o["headers"], "body": len(o["body"])}, "wrapped response differs from Middleware.tla")
        if stack and (len(r["body"]) > 1 or any(h[0] == "set-cookie" for h in r["headers"]) or "edit" in stack):
            ctx.nontriv((r, tuple(stack)))
        if n in (9, 60):
            ctx.sample({"recipe": {"status": r["status"], "headers": [list(h) for h in r["headers"]], "chunks": len(r["body"])}, "stack": stack,
                        "expected_headers": want_headers})

    # every response recipe, bare vs wrapped (identity / edit), both interfaces, zero-copy on and off for files
    env = recipes.Env(tlc.scratch())
    try:
        for name, build, _ in recipes.response_recipes():
            for method, hdrs in recipes.REQUEST_VARIANTS:
                if hdrs and not name.startswith("File"):
                    continue
                for iface, zc in (("wsgi", False), ("asgi", False), ("asgi", True)):
                    if zc and not name.startswith("File"):
                        continue
                    req = servers.Req(method=method, headers=hdrs)
                    try:
                        bare = observe(iface, build(iface, env), req, zc)
                    except Exception:  # noqa
                        continue
                    for stack in (["id"], ["edit"], ["id", "id"]):
                        o = observe(iface, wrap(iface, build(iface, env), stack), servers.Req(method=method, headers=hdrs), zc)
                        ctx.count()
                        ctx.traces_validated += 1
                        case = {"inner": name, "iface": iface, "zerocopy": zc, "method": method, "request_headers": hdrs, "stack": stack}
                        bh = sorted(h for h in bare["headers"] if h[0] != "x-mw" and not (h[0] == "content-type" and "boundary=" in h[1])
                                    and not (h[0] == "set-cookie" and "expires=" in h[1]))
                        oh = sorted(h for h in o["headers"] if h[0] != "x-mw" and not (h[0] == "content-type" and "boundary=" in h[1])
                                    and not (h[0] == "set-cookie" and "expires=" in h[1]))
                        multi = any(h[0] == "content-type" and "boundary=" in h[1] for h in bare["headers"])
                        if bare["exc"]:
                            continue
                        if o["exc"] or o["status"] != bare["status"] or bh != oh or (o["body"] != bare["body"] and not multi) or \
                                (multi and len(o["body"]) != len(bare["body"])):
                            ctx.violation(case, {"status": bare["status"], "headers": bh, "body_len": len(bare["body"])},
                                          {"status": o["status"], "headers": oh, "body_len": len(o["body"]), "exc": o["exc"]},
                                          "%s is not the same response under an identity middleware" % name if "edit" not in stack
                                          else "%s changed under a middleware that edits one header" % name)
                        ctx.nontriv(("recipe", name, iface, zc, method, str(hdrs), tuple(stack)))
        # raw inner applications that use corners of the protocols
        def wsgi_restart(environ, start_response):
            # PEP 3333 error path: start a 200 with cookies, fail before the first chunk, start again with exc_info
            start_response("200 OK", [("Set-Cookie", "session=1"), ("Set-Cookie", "theme=dark"), ("X-First", "1")])
            try:
                raise RuntimeError("boom")
            except RuntimeError:
                import sys as _s
                start_response("500 Internal Server Error", [("Content-Type", "text/plain"), ("Set-Cookie", "err=1")], _s.exc_info())
            return [b"failed"]

        async def asgi_two_zerocopy(scope, receive, send):
            import os as _os
            fd = _os.open(env.binf, _os.O_RDONLY)
            try:
                await send({"type": "http.response.start", "status": 200, "headers": [(b"content-length", b"512")]})
                await send({"type": "http.response.zerocopysend", "file": fd, "count": 100, "more_body": True})
                await send({"type": "http.response.zerocopysend", "file": fd, "more_body": False})     # "the rest", from the current position
            finally:
                _os.close(fd)

        async def asgi_offset_zerocopy(scope, receive, send):
            import os as _os
            fd = _os.open(env.binf, _os.O_RDONLY)
            try:
                await send({"type": "http.response.start", "status": 206, "headers": []})
                await send({"type": "http.response.zerocopysend", "file": fd, "offset": 10, "count": 20, "more_body": True})
                await send({"type": "http.response.body", "body": b"|", "more_body": True})
                await send({"type": "http.response.zerocopysend", "file": fd, "offset": 7, "count": 1, "more_body": True})      # a single byte
                await send({"type": "http.response.zerocopysend", "file": fd, "offset": 0, "count": 5})
            finally:
                _os.close(fd)
        def wsgi_dict_user(environ, start_response):
            # PEP 3333: environ is a builtin dict - an application may copy it, hand it to a sub-application ...
            env2 = environ.copy()
            start_response("200 OK", [("Content-Type", "text/plain"), ("X-Is-Dict", str(type(environ) is dict))])
            return [env2["REQUEST_METHOD"].encode(), b" ", env2.get("PATH_INFO", "").encode("latin-1")]

        async def asgi_dict_user(scope, receive, send):
            sc2 = dict(scope)
            sc2.setdefault("state", {})
            await send({"type": "http.response.start", "status": 200, "headers": [(b"x-is-dict", str(type(scope) is dict).encode())]})
            await send({"type": "http.response.body", "body": sc2["method"].encode() + b" " + scope.copy()["path"].encode()})
        for name, iface, app, zc in (("raw WSGI app that uses environ as the dict it is (copy)", "wsgi", wsgi_dict_user, False),
                                     ("raw ASGI app that uses scope as the dict it is (copy)", "asgi", asgi_dict_user, False),
                                     ("raw WSGI app restarting the response (exc_info)", "wsgi", wsgi_restart, False),
                                     ("raw ASGI app: file in two zero-copy messages", "asgi", asgi_two_zerocopy, True),
                                     ("raw ASGI app: zero-copy with offsets", "asgi", asgi_offset_zerocopy, True)):
            bare = observe(iface, app, None, zc)
            for stack in (["id"], ["id", "id"], ["edit", "id"]):
                o = observe(iface, wrap(iface, app, stack), None, zc)
                ctx.count()
                ctx.traces_validated += 1
                oh = sorted(h for h in o["headers"] if h[0] != "x-mw")
                if o["exc"] or o["status"] != bare["status"] or oh != sorted(bare["headers"]) or o["body"] != bare["body"]:
                    ctx.violation({"inner": name, "iface": iface, "stack": stack}, {"status": bare["status"], "headers": bare["headers"], "body_len": len(bare["body"])},
                                  {"status": o["status"], "headers": oh, "body_len": len(o["body"]), "exc": o["exc"]},
                                  "%s is not the same response under a middleware" % name)
                ctx.nontriv(("raw", name, tuple(stack)))
        # errors after the response started ("errors before/after start"): what reached the client before the error is the same
        for iface in ("wsgi", "asgi"):
            pkg = recipes.pkg(iface)
            for k in (0, 1, 2):
                def build_inner(k=k, iface=iface, pkg=pkg):
                    return pkg.StreamResponse(recipes.stream(iface, [b"c%d" % j for j in range(k)], raise_at=k), 200, {"X-S": "1"})
                bare = observe(iface, build_inner())
                for stack in (["id"], ["id", "id"]):
                    o = observe(iface, wrap(iface, build_inner(), stack))
                    ctx.count()
                    case = {"inner": "stream raising after %d chunk(s)" % k, "iface": iface, "stack": stack}
                    def seen_by_client(x):      # (a failure before the first body byte is an error response either way)
                        if x["exc"] and not x["body"]:
                            return ("failed before any body byte", x["exc"])
                        return (x["status"], sorted(h for h in x["headers"] if h[0] != "x-mw"), x["body"], x["exc"])
                    same = seen_by_client(o) == seen_by_client(bare)
                    if not same:
                        ctx.violation(case, {"status": bare["status"], "body": bare["body"].decode(), "exc": bare["exc"]},
                                      {"status": o["status"], "body": o["body"].decode(), "exc": o["exc"]},
                                      "an inner stream that fails after it started is not the same (partial) response under a middleware")
                    ctx.nontriv(("late-error", iface, k, tuple(stack)))
        # the view decorator
        for iface in ("wsgi", "asgi"):
            pkg = recipes.pkg(iface)
            calls = []
            if iface == "wsgi":
                @pkg.decorator
                def deco(request, next_call):
                    return next_call(request)

                def view(request):
                    calls.append(1)
                    r = pkg.JSONResponse({"a": 1}, 201, {"X-V": "1"})
                    r.set_cookie("a", "1")
                    r.set_cookie("b", "2")
                    return r
            else:
                @pkg.decorator
                async def deco(request, next_call):
                    return await next_call(request)

                async def view(request):
                    calls.append(1)
                    r = pkg.JSONResponse({"a": 1}, 201, {"X-V": "1"})
                    r.set_cookie("a", "1")
                    r.set_cookie("b", "2")
                    return r
            bare = observe(iface, pkg.request_response(view))
            n0 = len(calls)
            wrapped = observe(iface, pkg.request_response(deco(deco(view))))
            ctx.count()
            if wrapped != bare or len(calls) - n0 != 1:
                ctx.violation({"inner": "view with two cookies", "iface": iface, "stack": ["decorator", "decorator"]}, bare, wrapped,
                              "identity decorator is not transparent")
    finally:
        shutil.rmtree(env.dir, True)
    ctx.exhaustive = True


if __name__ == "__main__":
    sys.exit(common.main("C20", run))
