"""ASGI half of C06: timing scenarios under virtual time, judged by TLC against StreamAsgi.tla."""
import asyncio
import itertools

from .. import tlc, vloop, tracecheck, common

NODISC = 99


class ProducerError(Exception):
    pass


def scenarios(tier):
    out = []
    ks = (0, 1, 2) if tier == "quick" else (0, 1, 2, 3)
    gaps_dom = (0, 1, 3)
    for kind in ("stream", "sse"):
        for k in ks:
            for gaps in itertools.product(gaps_dom, repeat=k):
                for end_gap in (0, 2):
                    for raise_at in range(0, k + 2):
                        for disc in (NODISC, 0, 1, 2, 3, 4, 6):
                            for send_cost in (0, 1):
                                if send_cost and (disc not in (NODISC, 0, 1, 2) or raise_at):
                                    continue
                                if tier == "quick" and k == 2 and end_gap == 2 and disc in (4, 6) and raise_at:
                                    continue
                                at, t = [], 0
                                for g in gaps:
                                    t += g
                                    at.append(t)
                                end_at = t + end_gap
                                if raise_at:      # raises instead of yielding item raise_at (k+1: instead of finishing)
                                    if raise_at <= k:
                                        end_at = at[raise_at - 1]
                                        at_eff = at[:raise_at - 1]
                                    else:
                                        at_eff = at
                                else:
                                    at_eff = at
                                out.append({"kind": kind, "gaps": list(gaps), "endGap": end_gap, "at": at_eff, "endAt": end_at,
                                            "ping": 2, "disc": disc, "raiseAt": raise_at, "sendCost": send_cost, "k": k})
    return out


async def play(c):
    import baize.asgi as A
    loop = asyncio.get_running_loop()
    events = []

    def now():
        return int(round(loop.time()))

    k = c["k"]

    async def producer():
        events.append({"e": "begin", "i": 0, "t": now(), "x": ""})
        try:
            for i in range(1, k + 1):
                if c["gaps"][i - 1]:
                    await asyncio.sleep(c["gaps"][i - 1])
                if c["raiseAt"] == i:
                    raise ProducerError("item %d" % i)
                events.append({"e": "yield", "i": i, "t": now(), "x": ""})
                yield ({"data": str(i)} if c["kind"] == "sse" else b"item:%d;" % i)
            if c["endGap"]:
                await asyncio.sleep(c["endGap"])
            if c["raiseAt"] == k + 1:
                raise ProducerError("at end")
        finally:
            events.append({"e": "closed", "i": 0, "t": now(), "x": ""})

    class UserIterable:
        """what the application hands to the response: iterating gives the generator, aclose() is observable"""

        def __init__(self):
            self.g = producer()

        def __aiter__(self):
            return self.g

        async def aclose(self):
            events.append({"e": "release", "i": 0, "t": now(), "x": ""})
            await self.g.aclose()

    first = [True]
    returned = [False]

    polled = [0]

    async def receive():
        if first[0]:
            first[0] = False
            return {"type": "http.request", "body": b"", "more_body": False}
        if c["disc"] == NODISC:
            await asyncio.Event().wait()
        d = c["disc"] - loop.time()
        if d > 0:
            await asyncio.sleep(d)
        polled[0] += 1
        if polled[0] > 2000:      # told two thousand times that the client is gone, and asking again: a busy loop
            from ..servers import Livelock
            raise Livelock("receive() polled %d times after the disconnect" % polled[0])
        if not returned[0] and polled[0] == 1:      # (logged once: an application that keeps asking is told again, silently)
            events.append({"e": "disc", "i": 0, "t": now(), "x": ""})
        return {"type": "http.disconnect"}

    async def send(m):
        if m["type"] == "http.response.body":
            b = m.get("body", b"")
            if not m.get("more_body", False):
                events.append({"e": "final", "i": 0, "t": now(), "x": ""})
            elif b == b": ping\n\n":
                events.append({"e": "ping", "i": 0, "t": now(), "x": ""})
            else:
                try:
                    idx = int(b.split(b"data: ")[1].split(b"\n")[0]) if c["kind"] == "sse" else int(b.split(b":")[1].split(b";")[0])
                except Exception:  # noqa
                    idx = -1
                events.append({"e": "body", "i": idx, "t": now(), "x": ""})
        if c["sendCost"]:
            await asyncio.sleep(c["sendCost"])

    if c["kind"] == "sse":
        app = A.SendEventResponse(UserIterable(), ping_interval=c["ping"])
    else:
        app = A.StreamResponse(UserIterable())
    scope = {"type": "http", "method": "GET", "path": "/", "headers": []}
    exc = ""
    try:
        await asyncio.wait_for(app(scope, receive, send), 500)
    except ProducerError:
        exc = "ProducerError"
    except asyncio.TimeoutError:
        exc = "NeverReturned"
    except BaseException as e:  # noqa
        exc = type(e).__name__
    returned[0] = True
    events.append({"e": "return", "i": 0, "t": now(), "x": exc})
    for _ in range(4):      # the cleanup already scheduled on the loop gets its turn
        await asyncio.sleep(0)
    me = asyncio.current_task()
    pending = [t for t in asyncio.all_tasks() if t is not me and not t.done()]
    events.append({"e": "settled", "i": len(pending), "t": now(), "x": ""})
    return events


def run_asgi(ctx, wd):
    sc = scenarios(ctx.tier)
    tlc.sany(wd + "/StreamAsgi.tla")
    # the automaton itself: not vacuous, invariants hold on everything it admits
    small = [s for s in sc if s["k"] <= 1 and s["sendCost"] == 0 and s["disc"] in (NODISC, 1, 3)]
    K = dict(NoDisc=NODISC, Scenarios=frozenset(_rec(s) for s in small), MaxT=6)
    cfg = ["SPECIFICATION Spec", "CONSTRAINT PingBound", "CHECK_DEADLOCK FALSE", "INVARIANT OrderOK", "INVARIANT ClosedOnce",
           "INVARIANT ReturnsInTime", "INVARIANT CompleteWhenUndisturbed"]
    tlc.write_mc(wd, "MC_StreamAsgi", "StreamAsgi", constants=K, cfg_lines=cfg)
    res = tlc.run_tlc(wd, "MC_StreamAsgi", heap="6g")
    ctx.add_tlc("StreamAsgi", res, {"scenarios": len(small), "MaxT": 6})
    if res.violated:
        raise common.MachineryError("StreamAsgi.tla: " + tlc.describe(res))
    tlc.check_coverage(res, ["Begin", "Yield", "Body", "Ping", "Disc", "Final", "Closed", "Release", "Return"])

    traces = []
    for c in sc:
        try:
            ev = vloop.run(play(c))
        except vloop.Deadlock as e:
            ev = [{"e": "return", "i": 0, "t": 0, "x": "Deadlock:" + str(e)}]
        traces.append({"c": c, "events": ev})
        ctx.count()
        if c["disc"] != NODISC or c["raiseAt"]:
            ctx.nontriv(("asgi",) + tuple(sorted((k, str(v)) for k, v in c.items())))
    acc, rejected = tracecheck.validate(wd, "TraceStreamAsgi", [{"c": _json(t["c"]), "events": t["events"]} for t in traces],
                                        constants=dict(NoDisc=NODISC, Scenarios=frozenset(), MaxT=0))
    ctx.traces_validated += acc
    ctx.bounds["asgi"] = {"scenarios": len(sc)}
    for tid, prefix in rejected:
        t = traces[tid]
        ev = t["events"][prefix] if prefix < len(t["events"]) else None
        what = "ASGI %s: event %s is not admitted by StreamAsgi.tla" % (t["c"]["kind"], ev)
        if ev and ev["e"] == "return":
            if ev["x"] not in ("", "ProducerError"):
                what = "ASGI %s response raised %s" % (t["c"]["kind"], ev["x"])
            elif any(e["e"] == "disc" for e in t["events"][:prefix]):
                what = "ASGI %s response returned at t=%s, later than allowed after the disconnect at t=%s" % (t["c"]["kind"], ev["t"], t["c"]["disc"])
            elif ev["x"] == "" and t["c"]["raiseAt"]:
                what = "the producer's exception was swallowed"
        elif ev and ev["e"] == "settled":
            what = "after the call returned: %d task(s) still pending, generator cleanup count wrong, or the user's iterable was never closed" % ev["i"]
        elif ev and ev["e"] == "closed":
            what = "the user's generator was cleaned up more than once"
        elif ev and ev["e"] == "body":
            what = "item %s delivered out of order, twice, or after the end" % ev["i"]
        ctx.violation({"scenario": t["c"]}, "a behaviour of StreamAsgi.tla", {"events": t["events"], "rejected_at": prefix + 1}, what,
                      {"module": "StreamAsgi"})
    ctx.sample({"asgi_scenario": traces[len(traces) // 2]["c"], "events": traces[len(traces) // 2]["events"]})


def _json(c):
    return {k: v for k, v in c.items() if k not in ("gaps", "endGap", "k")}


def _rec(c):
    from ..tlaval import Rec
    d = _json(c)
    d["at"] = tuple(d["at"])
    return Rec(d)
