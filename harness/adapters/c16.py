"""C16 - cookies round-trip exactly and expire when asked.

spec/Cookie.tla: the quoting rule, the request-side unquoting and the expiry arithmetic on character
classes x time zones (OnePair, RoundTrip, ExpiresDenotes).  Every model behaviour is concretised
(several real characters per class) and pushed through the real set_cookie -> Set-Cookie header ->
Cookie header -> Request.cookies on both interfaces; the per-character step covers all 256 Latin-1
characters, alone and beside each delimiter; Expires is checked in several process time zones with
the clock pinned.
"""
import calendar
import email.utils
import os
import sys
import time

from .. import tlc, graph, common, servers

CONC = {
    "t": ["a", "Z", "0", "!", "~", "*", "|"],
    "k": ["(", "/", "=", "?", "@", "[", "{", "<"],
    "sp": [" "],
    "o": [";", ",", "\t", "\x00", "\r", "\n", "\x7f", "\xe9", "\xff", "\x80"],
    "q": ['"'],
    "b": ["\\"],
    "d3": ["101", "073", "054", "000", "377", "012"],
}
ZONES = {0: "UTC0", 28800: "CST-8", -18000: "EST5", 37800: "LHST-10:30", -12600: "NST3:30"}
DST_ZONE = "EST5EDT,M3.2.0,M11.1.0"


class Clock:
    def __init__(self, real, now):
        self._real, self.now = real, now

    def __getattr__(self, n):
        return getattr(self._real, n)

    def time(self):
        return float(self.now)


def set_and_emit(iface, name, value, **kw):
    import baize.wsgi as W
    import baize.asgi as A
    pkg = W if iface == "wsgi" else A
    r = pkg.PlainTextResponse("x")
    if kw.pop("delete", False):
        r.delete_cookie(name)
    else:
        r.set_cookie(name, value, **kw)
    res = servers.wsgi_call(r, servers.Req()) if iface == "wsgi" else servers.asgi_call(r, servers.Req())
    if res.exc is not None:
        return None, res.exc
    lines = [v for k, v in res.header_multiset() if k == "set-cookie"]
    return (lines[0] if len(lines) == 1 else None), None


def read_back(iface, cookie_header):
    import baize.wsgi as W
    import baize.asgi as A
    req = servers.Req(headers=[("Cookie", cookie_header)])
    if iface == "wsgi":
        return dict(W.Request(servers.make_environ(req)).cookies)
    return dict(A.Request(servers.make_scope(req)).cookies)


def round_trip(ctx, name, value, layout, case):
    for iface in ("wsgi", "asgi"):
        line, exc = set_and_emit(iface, name, value)
        ctx.count()
        ctx.traces_validated += 1
        if line is None:
            ctx.violation(dict(case, iface=iface), "a Set-Cookie line", repr(exc), "setting the cookie failed (%s)" % type(exc).__name__)
            continue
        try:
            line.encode("ascii")
        except UnicodeEncodeError:
            ctx.violation(dict(case, iface=iface), "pure ASCII", line, "serialised cookie is not ASCII")
            continue
        pair = line.split("; path=/")[0] if "; path=/" in line else line.split(";")[0]
        header = {"alone": pair, "first": pair + "; other=1", "last": "a=b; " + pair, "middle": "a=b; " + pair + "; z=9"}[layout]
        for riface in ("wsgi", "asgi"):
            got = read_back(riface, header)
            if got.get(name) != value:
                ctx.violation(dict(case, set_on=iface, read_on=riface, cookie_header=header), value, got.get(name, "<missing>"),
                              "cookie value does not round-trip")
            elif layout != "alone" and (got.get("a", "b") != "b" or got.get("other", "1") != "1" or got.get("z", "9") != "9"):
                ctx.violation(dict(case, cookie_header=header), "neighbour cookies intact", got, "cookie value disturbed its neighbours")


def expiry(ctx, now, offset, delta, tzname):
    import baize.responses as R
    import re
    saved_tz = os.environ.get("TZ")
    # the clock is pinned through the `time` name of baize.responses when the module has one; an implementation that reads the
    # clock in another way is judged against the real clock instead (both are "now")
    saved_time = getattr(R, "time", None)
    os.environ["TZ"] = tzname
    time.tzset()
    if saved_time is not None:
        R.time = Clock(time, now)
    try:
        for iface in ("wsgi", "asgi"):
            real_before = int(time.time())
            line, exc = set_and_emit(iface, "sid", "v", expires=delta, max_age=delta if delta >= 0 else -1)
            real_after = int(time.time()) + 1
            ctx.count()
            ctx.traces_validated += 1
            case = {"now": now, "tz": tzname, "expires_in": delta, "iface": iface}
            m = re.search(r"expires=([^;]+)", line or "")
            if not m:
                ctx.violation(case, "an Expires attribute", line, "no Expires attribute emitted")
                continue
            if not m.group(1).endswith(" GMT"):
                ctx.violation(case, "a GMT date", m.group(1), "Expires is not a GMT date")
                continue
            got = calendar.timegm(email.utils.parsedate(m.group(1)))
            if got != now + delta and not (real_before + delta <= got <= real_after + delta):
                ctx.violation(case, {"expires": now + delta, "as_text": email.utils.formatdate(now + delta, usegmt=True)},
                              {"expires": got, "as_text": m.group(1)}, "Expires is off by %d seconds in zone %s" % (min(got - (now + delta), got - (real_before + delta), key=abs), tzname))
            if delta >= 0 and "max-age=%d" % delta not in line:
                ctx.violation(case, "max-age=%d" % delta, line, "Max-Age is not the requested number")
        line, exc = set_and_emit("wsgi", "sid", "", delete=True)
        m = re.search(r"expires=([^;]+)", line or "")
        ctx.count()
        if not m or calendar.timegm(email.utils.parsedate(m.group(1))) > max(now, time.time()) or "max-age=0" not in line:
            ctx.violation({"now": now, "tz": tzname, "op": "delete_cookie"}, "already expired (expires <= now, max-age=0)", line,
                          "deleted cookie is not expired in zone %s" % tzname)
    finally:
        if saved_time is not None:
            R.time = saved_time
        if saved_tz is None:
            os.environ.pop("TZ", None)
        else:
            os.environ["TZ"] = saved_tz
        time.tzset()


def run(ctx):
    K = dict(MaxLen=3 if ctx.tier == "quick" else 4, Zones=frozenset(ZONES), Nows=frozenset({1600000000, 1615708800, 1636264800}),
             Deltas=frozenset({0, 1, 3600, 86400}))
    ctx.bounds = dict(MaxLen=K["MaxLen"], zones=sorted(ZONES.values()) + [DST_ZONE])
    ctx.rule = ("every class string of Cookie.tla concretised (rotating real characters per class) through set_cookie -> header -> "
                "Request.cookies on both interfaces in 4 layouts; all 256 characters alone and beside 7 delimiters; expiry for every "
                "(instant, zone, delta); non-trivial = values needing quoting/escaping, non-UTC zones")
    ctx.assumptions = ["cookie names are HTTP tokens, values Latin-1", "the client returns the name=value pair verbatim",
                       "POSIX TZ strings are honoured by the C library"]
    wd = tlc.workdir_for("c16")
    tlc.sany(wd + "/Cookie.tla")
    # quoting part over all class strings (one zone), expiry part over zones x instants x deltas (short values)
    tlc.write_mc(wd, "MC_Cookie", "Cookie", constants=dict(K, Zones=frozenset({0}), Nows=frozenset({1600000000}), Deltas=frozenset({0})),
                 cfg_lines=["SPECIFICATION Spec", "CHECK_DEADLOCK FALSE", "INVARIANT OnePair", "INVARIANT RoundTrip", "INVARIANT ExpiresDenotes"])
    res = tlc.run_tlc(wd, "MC_Cookie", dump=True, heap="6g")
    ctx.add_tlc("Cookie", res, {"MaxLen": K["MaxLen"]})
    if res.violated:
        raise common.MachineryError("Cookie.tla: " + tlc.describe(res))
    tlc.check_coverage(res, ["SetCookie", "Receive"])
    tlc.write_mc(wd, "MC_CookieExp", "Cookie", constants=dict(K, MaxLen=0),
                 cfg_lines=["SPECIFICATION Spec", "CHECK_DEADLOCK FALSE", "INVARIANT ExpiresDenotes"])
    eres = tlc.run_tlc(wd, "MC_CookieExp", dump=True, heap="4g")
    ctx.add_tlc("Cookie(expiry)", eres, {"zones": len(ZONES)})
    g = graph.Graph.load(res.dot)
    n = 0
    for nid in g.terminal():
        st = g.state(nid)
        n += 1
        counters = {}
        chars = []
        for cls, _ in st["v"]:
            i = counters.get(cls, 0)
            counters[cls] = i + 1
            opts = CONC[cls]
            chars.append(opts[(n + i * 3) % len(opts)])
        value = "".join(chars)
        layout = ("alone", "first", "last", "middle")[n % 4]
        case = {"value": repr(value), "classes": [c for c, _ in st["v"]], "layout": layout}
        round_trip(ctx, "sid", value, layout, case)
        if any(c != "t" for c, _ in st["v"]):
            ctx.nontriv(("rt", st["v"], layout))
        if n in (5, 200):
            ctx.sample(case)
    # per character: all 256, alone and beside each delimiter (both orders)
    delims = [";", ",", "=", '"', "\\", " ", "%"]
    for i in range(256):
        c = chr(i)
        vals = [c] + [d + c for d in delims] + [c + d for d in delims] + [c + c, "x" + c + "y"]
        for k, v in enumerate(vals):
            round_trip(ctx, "sid" if k % 2 else "T0k-en_.", v, ("alone", "middle")[k % 2], {"value": repr(v)})
    # expiry
    ge = graph.Graph.load(eres.dot)
    seen = set()
    for nid in ge.terminal():
        st = ge.state(nid)
        key = (st["now"], st["zone"], st["delta"])
        if key in seen:
            continue
        seen.add(key)
        expiry(ctx, st["now"], st["zone"], st["delta"], ZONES[st["zone"]])
        if st["expires"] != st["now"] + st["delta"]:
            raise common.MachineryError("model expiry arithmetic")
        if st["zone"]:
            ctx.nontriv(("exp",) + key)
    for now in (1615705200, 1615708800, 1636261200, 1636264800):   # around the US DST switches of 2021
        for delta in (0, 3600, 7200):
            expiry(ctx, now, -18000, delta, DST_ZONE)
            ctx.nontriv(("dst", now, delta))
    # lifetimes that cross the next daylight-saving switch (or several) of the process's zone, northern and southern rules
    for tz in (DST_ZONE, "CET-1CEST,M3.5.0,M10.5.0/3", "AEST-10AEDT,M10.1.0,M4.1.0/3", "UTC0"):
        for now in (1600000000, 1615708800, 1636264800):
            for days in (30, 45, 200, 400):
                expiry(ctx, now, 0, days * 86400, tz)
                ctx.nontriv(("dst-long", tz, now, days))
    ctx.sample({"expiry": {"now": 1600000000, "tz": "CST-8", "expires_in": 3600, "expected": email.utils.formatdate(1600003600, usegmt=True)}})
    ctx.exhaustive = True


if __name__ == "__main__":
    sys.exit(common.main("C16", run))
