"""C08 - the router dispatches to the first matching route with typed parameters.

spec/Routing.tla defines the statement's languages and "exists a split of the whole path" at
character level; TLC explores (route table x path) cases; every behaviour is replayed on real
Routers (WSGI and ASGI) with recording endpoints.  Convertor round trips are checked on every
parameter text the model accepted.
"""
import datetime
import decimal
import itertools
import os
import re
import sys
import uuid

from .. import tlc, graph, common, servers

L = lambda s: [("lit", c) for c in s]  # noqa
PH = lambda ty: [("ph", ty)]  # noqa

PATTERNS = [
    L("/"),                                   # 1
    L("/") + PH("str"),                       # 2
    L("/") + PH("int"),                       # 3
    L("/") + PH("decimal"),                   # 4
    L("/") + PH("uuid"),                      # 5
    L("/") + PH("date"),                      # 6
    L("/") + PH("any"),                       # 7
    L("/a/") + PH("any"),                     # 8
    L("/a/") + PH("str"),                     # 9
    L("/a"),                                  # 10
    L("/") + PH("str") + L("/") + PH("int"),  # 11
    L("/") + PH("int") + L("/") + PH("str"),  # 12
    L("/a.b"),                                # 13 literal dot
    L("/") + PH("int") + L(".") + PH("int"),  # 14
    L("/") + PH("str") + L("-") + PH("int"),  # 15
    L("/") + PH("str") + L("-") + PH("str"),  # 16 ambiguous splits
    PH("any"),                                # 17 no leading slash
    L("/") + PH("int") + L("/"),              # 18 trailing slash
    L("/") + PH("decimal") + L("/") + PH("any"),  # 19
    L("/x") + PH("int") + L("b"),             # 20 literal text around a placeholder
    L("/") + PH("date") + L("/") + PH("uuid"),    # 21
    L("/a-b"),                                # 22
]

SYMS = {"N": "\n", "U": "\u0663"}
UUID_OK = "90478484-0988-45fc-91fe-757d90136892"
LIB_PATHS = [
    "", "/", "//", "/a", "/a/", "/a/b", "/a/b/1", "/axb", "/a.b", "/a-b", "/aNb", "/a/N", "/a/bN1",
    "/1", "/12", "/012", "/1.5", "/1.50", "/100", "/1.", "/.5", "/1x2", "/1.2.3", "/1N", "/N1", "/1/", "/1/a", "/a/1",
    "/U", "/1U", "/12/a.b", "/x1b", "/x12b", "/x1bN", "/1.5/a/b", "/1x5/a", "/x-1", "/x-y-1", "/x-y", "/-1", "/x-",
    "/2021-03-07", "/2021-13-45", "/2021-02-29", "/2020-02-29", "/2021-3-07", "/2021-03-07N", "/0000-01-01", "/2021-00-10",
    "/2021-04-31", "/1900-02-29", "/2000-02-29", "/2021-03-07x",
    "/" + UUID_OK, "/" + UUID_OK.upper().replace("F", "A"), "/" + UUID_OK[:-1], "/" + UUID_OK + "N", "/" + UUID_OK.replace("-", "a"),
    "/2021-03-07/" + UUID_OK, "/2021-13-45/" + UUID_OK, "/2021-03-07/" + UUID_OK[:-1] + "x",
    "a", "1", "a/b",
]


def pat_tla(p):
    return tuple({"t": "lit", "c": c} if k == "lit" else {"t": "ph", "ty": c} for k, c in p)


def render(p):
    out, n = "", 0
    for k, c in p:
        if k == "lit":
            out += c
        else:
            n += 1
            out += "{p%d:%s}" % (n, c)
    return out


def conc(s):
    return "".join(SYMS.get(c, c) for c in s)


def short_paths(alpha, n):
    out = []
    for k in range(n + 1):
        out += ["".join(t) for t in itertools.product(alpha, repeat=k)]
    return out


def cases(tier):
    pats = PATTERNS
    P = len(pats)
    tables = [(i,) for i in range(1, P + 1)]
    pairs = list(itertools.permutations(range(1, P + 1), 2))
    triples = []
    if tier == "thorough":
        core = [2, 3, 4, 6, 7, 10, 13, 16, 17]
        triples = list(itertools.permutations(core, 3))
    tables += pairs + triples
    paths = list(dict.fromkeys(LIB_PATHS + short_paths("/1a.-", 4 if tier == "quick" else 5) + short_paths("/1xN", 3)))
    lib_idx = [paths.index(p) + 1 for p in LIB_PATHS]
    short3 = [i + 1 for i, p in enumerate(paths) if len(p) <= 3]
    cs = set()
    for ti, t in enumerate(tables, 1):
        if len(t) == 1:
            for pi in range(1, len(paths) + 1):
                cs.add((ti, pi))
        elif len(t) == 2:
            for pi in lib_idx:
                cs.add((ti, pi))
            if tier == "thorough" or ti % 4 == 0:
                for pi in short3:
                    cs.add((ti, pi))
        else:
            for pi in lib_idx:
                cs.add((ti, pi))
    return tables, paths, cs


def convert(ty, text):
    """the value a parameter text denotes (independent reference)"""
    if ty in ("str", "any"):
        return text
    if ty == "int":
        return int(text)
    if ty == "decimal":
        return decimal.Decimal(text)
    if ty == "uuid":
        return uuid.UUID(text)
    if ty == "date":
        return datetime.date(int(text[0:4]), int(text[5:7]), int(text[8:10]))
    raise ValueError(ty)


class Rec:
    def __init__(self):
        self.hit = None


def make_router(iface, table, rec):
    routes = []
    for pos, pi in enumerate(table, 1):
        pat = render(PATTERNS[pi - 1])
        if iface == "wsgi":
            from baize.wsgi import Router, PlainTextResponse, Request

            def ep(environ, start_response, pos=pos):
                rec.hit = (pos, dict(Request(environ).path_params))
                return PlainTextResponse("ok")(environ, start_response)
        else:
            from baize.asgi import Router, PlainTextResponse as AP, Request as AR

            async def ep(scope, receive, send, pos=pos):
                rec.hit = (pos, dict(AR(scope, receive, send).path_params))
                await AP("ok")(scope, receive, send)
        routes.append((pat, ep))
    return Router(*routes)


def w(s):
    return s.encode("utf-8").decode("latin-1")


def replay(ctx, g, tables, paths, routers, accepted_texts, state):
    for nid in g.terminal():
        st = g.state(nid)
        if st["chosen"] == 0:
            raise common.MachineryError("undecided terminal state")
        state["n"] += 1
        n = state["n"]
        table = tables[st["tab"] - 1]
        sym_path = paths[st["pth"] - 1]
        path = conc(sym_path)
        case = {"routes": [render(PATTERNS[i - 1]) for i in table], "path": path}
        if st["chosen"] > 0:
            pat = PATTERNS[table[st["chosen"] - 1] - 1]
            types = [c for k, c in pat if k == "ph"]
            allowed = []
            for sp in st["splits"]:
                texts = [conc(t) for t in sp]
                allowed.append(texts)
                for ty, tx in zip(types, texts):
                    accepted_texts.add((ty, tx))
        for iface in ("wsgi", "asgi"):
            key = (st["tab"], iface)
            if key not in routers:
                rec = Rec()
                try:
                    routers[key] = (make_router(iface, table, rec), rec)
                except Exception as e:  # noqa
                    raise common.MachineryError("cannot build router %s: %r" % (case["routes"], e))
            app, rec = routers[key]
            rec.hit = None
            req = servers.Req(path=path)
            r = servers.wsgi_call(app, req) if iface == "wsgi" else servers.asgi_call(app, req)
            ctx.count()
            ctx.traces_validated += 1
            enc = (lambda x: x)     # both interfaces deliver the text itself
            obs = {"status": r.status, "route": rec.hit[0] if rec.hit else None,
                   "params": {k: (type(v).__name__, str(v)) for k, v in rec.hit[1].items()} if rec.hit else None,
                   "exc": type(r.exc).__name__ if r.exc else None}
            if st["chosen"] < 0:
                exp = {"status": 404, "route": None, "params": None, "exc": None}
                ok = obs == exp
            else:
                ok = False
                exps = []
                for texts in allowed:
                    params = {}
                    for j, (ty, tx) in enumerate(zip(types, texts), 1):
                        v = convert(ty, tx)
                        if isinstance(v, str):
                            v = enc(v)
                        params["p%d" % j] = (type(v).__name__, str(v))
                    e = {"status": 200, "route": st["chosen"], "params": params, "exc": None}
                    exps.append(e)
                    if obs == e:
                        ok = True
                exp = exps[0] if len(exps) == 1 else {"any_of": exps}
            if not ok:
                if obs["exc"]:
                    what = "routing raised %s instead of dispatching / 404" % obs["exc"]
                elif obs["route"] != (st["chosen"] if st["chosen"] > 0 else None):
                    what = "router did not dispatch to the first matching route"
                else:
                    what = "path parameters are not the values the placeholders denote"
                ctx.violation(dict(case, iface=iface), exp, obs, what, {"module": "Routing"})
        if st["chosen"] > 1 or len(st["splits"]) > 1 or (st["chosen"] < 0 and any(
                render(PATTERNS[i - 1]).count("/") == path.count("/") for i in table)):
            ctx.nontriv((st["tab"], st["pth"]))
        if n in (1, 500, 5000):
            ctx.sample({"case": case, "chosen": st["chosen"], "splits": [[conc(t) for t in sp] for sp in st["splits"]]})



def run(ctx):
    tier = ctx.tier
    tables, paths, cs = cases(tier)
    ctx.bounds = {"patterns": len(PATTERNS), "tables": len(tables), "paths": len(paths), "cases": len(cs)}
    ctx.rule = ("every (route table, path) case of Routing.tla replayed on real Routers on WSGI and ASGI; non-trivial = "
                "the path is matched by a non-first route, or rejected by a route although the path has the route's "
                "number of '/' (near miss), or has several valid splits")
    ctx.assumptions = ["parameter names are p1..pn", "WSGI hands non-ASCII path text over as Latin-1-decoded UTF-8",
                       "integers beyond Python's 4300-digit conversion limit are out of scope here (C12)"]
    wd = tlc.workdir_for("c08")
    tlc.sany(wd + "/Routing.tla")
    routers = {}
    accepted_texts = set()
    state = {"n": 0}
    cs = sorted(cs)
    SLICE = 40000      # TLC slows down badly on one very large constant set of cases: one run per slice
    for off in range(0, len(cs), SLICE):
        K = dict(Patterns=tuple(pat_tla(p) for p in PATTERNS), Tables=tuple(tables),
                 PathList=tuple(tuple(p) for p in paths), Cases=frozenset(cs[off:off + SLICE]))
        name = "MC_Routing_%d" % (off // SLICE)
        tlc.write_mc(wd, name, "Routing", constants=K,
                     cfg_lines=["SPECIFICATION Spec", "CHECK_DEADLOCK FALSE", "INVARIANT FirstMatching", "INVARIANT SplitsSound"])
        res = tlc.run_tlc(wd, name, dump=True, heap="6g")
        ctx.add_tlc("Routing[%d..%d)" % (off, min(off + SLICE, len(cs))), res, dict(ctx.bounds, cases=len(K["Cases"])))
        if res.violated:
            raise common.MachineryError("Routing.tla: " + tlc.describe(res))
        tlc.check_coverage(res, ["TryRoute", "NoRoute"])
        g = graph.Graph.load(res.dot)
        replay(ctx, g, tables, paths, routers, accepted_texts, state)
        del g
        os.unlink(res.dot)

    # convertor round trip on every accepted parameter text (+ a few decimals with trailing zeros)
    from baize.routing import CONVERTOR_TYPES
    extra = [("decimal", x) for x in ("100", "10", "1.50", "0.0", "0", "1000000", "120.0", "0.10", "7.000")] + \
            [("int", "0"), ("int", "007"), ("int", "10"), ("date", "0999-12-31"), ("date", "2024-02-29")]
    for ty, tx in sorted(accepted_texts | set(extra)):
        conv = CONVERTOR_TYPES[ty]
        ctx.count()
        case = {"type": ty, "text": tx}
        try:
            v = conv.to_python(tx)
            ref = convert(ty, tx)
            s = conv.to_string(v)
            back = conv.to_python(s) if re.fullmatch(conv.regex if ty != "any" else "(?s:.*)", s) else None
            in_lang = _in_lang(ty, s)
            obs = {"value": repr(v), "to_string": s, "in_language": in_lang, "back": repr(back)}
            exp = {"value": repr(ref), "to_string": "a %s string denoting the same value" % ty, "in_language": True,
                   "back": repr(ref)}
            if not (v == ref and type(v) is type(ref) and in_lang and back == ref):
                ctx.violation(case, exp, obs, "convertor round trip: to_string(value) is not accepted back as an equal value")
        except Exception as e:  # noqa
            ctx.violation(case, "round trip", {"exc": type(e).__name__ + ": " + str(e)},
                          "convertor round trip raised %s" % type(e).__name__)
    ctx.exhaustive = True


def _in_lang(ty, s):
    if ty == "str":
        return s != "" and "/" not in s
    if ty == "int":
        return re.fullmatch(r"[0-9]+", s, re.A) is not None
    if ty == "decimal":
        return re.fullmatch(r"[0-9]+(\.[0-9]+)?", s) is not None
    if ty == "uuid":
        return re.fullmatch(r"[0-9a-f]{8}-[0-9a-f]{4}-[0-9a-f]{4}-[0-9a-f]{4}-[0-9a-f]{12}", s) is not None
    if ty == "date":
        return re.fullmatch(r"[0-9]{4}-[0-9]{2}-[0-9]{2}", s) is not None
    return True


if __name__ == "__main__":
    sys.exit(common.main("C08", run))
