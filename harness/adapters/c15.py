"""C15 - multipart limits are exact and enforced with bounded buffering.

Same module as C01 (spec/Multipart.tla) with the limit grid switched on: TLC checks LimitExact,
NoEarly413 and BoundedHold for every chunking; HoldFix=FALSE (the original hold-back rule) is the
witness that must violate BoundedHold.  Every (form, limits) scenario is run on both helpers under
byte-level chunkings; buffering is measured on the real decoder and helpers with megabyte parts.
"""
import random
import sys

from .. import servers, tlc, graph, common
from . import mp_common as M

INV = ["PrefixOK", "LimitExact", "NoEarly413", "BoundedHold"]


OPENFIX = True


def forms():
    P = M.part
    long_r = ("r",) + ("x",) * 12
    long_n = ("n",) + ("x",) * 12
    mid_r = ("x",) * 5 + ("r",) + ("x",) * 8
    rr = ("r", "x", "x", "r", "x", "x", "x", "x", "x", "x", "x", "x")
    fs = [
        (), (P("field", ()),), (P("field", ("x",)),), (P("field", ("x", "x", "x")),), (P("file", ("x", "x", "x")),),
        (P("field", ("x",)), P("field", ("x", "x"))), (P("field", ("x", "x")), P("file", ("x", "x", "x")), P("field", ("r",))),
        (P("file", ("x",)), P("file", ())), (P("field", ("r", "n", "x")), P("field", ())),
        (P("file", long_r),), (P("file", long_n),), (P("field", long_r),), (P("file", mid_r),), (P("field", rr),),
        (P("field", ("x",) * 9),), (P("file", ("n", "r") + ("x",) * 9),),
        # the text "--boundary" inside part data without being a delimiter line: after a line break + junk, with blanks, with one dash
        (P("file", ("n", "d", "d", "b", "x") + ("x",) * 12),), (P("field", ("r", "n", "d", "d", "b", "x") + ("x",) * 12),),
        (P("file", ("x", "r", "n", "d", "d", "b", "s", "x", "x")),), (P("field", ("r", "n", "d", "d", "b", "d", "x")),),
        (P("file", ("d", "d", "b", "x", "x", "x", "x", "x", "x", "x", "x", "x", "x")),),
    ]
    return fs


def limit_grid(fs):
    lims = {M.Rec(parts=M.UNL, mem=M.UNL)}
    for f in fs:
        n = len(f)
        tot = sum(len(p["content"]) for p in f if p["kind"] == "field")
        for dp in (-1, 0, 1):
            if n + dp >= 0:
                lims.add(M.Rec(parts=n + dp, mem=M.UNL))
        for dm in (-1, 0, 1):
            if tot + dm >= 0:
                lims.add(M.Rec(parts=M.UNL, mem=tot + dm))
                lims.add(M.Rec(parts=max(n, 1), mem=tot + dm))
    return lims


def measure_hold(ctx, rnd):
    """megabyte parts with a leading CR / LF: bytes kept back by the decoder and by the helpers"""
    from baize.multipart import MultipartDecoder, Data, NeedData, Epilogue
    from baize.multipart_helper import parse_stream
    from baize.exceptions import HTTPException
    boundary = b"BoundaryX7"
    delim = b"\r\n--" + boundary
    CH = 64 * 1024
    size = 1 << 20 if ctx.tier == "quick" else 4 << 20
    leads = [b"\r", b"\n", b"\r\n", b"x\ry", b"", b"\n\r", b"\n--" + boundary + b"x", b"\r\n--" + boundary + b" \tx", b"--" + boundary, b"\r\n--" + boundary + b"-x"]
    # (lead, filler): the last one is delimiter text followed by a megabyte of BLANKS - transport padding may follow a boundary,
    # so the decoder cannot know yet whether this is a delimiter line
    fills = [(lead, b"\xaa") for lead in leads] + [(b"\n--" + boundary, b" ")]
    for lead, fill in fills:
        content = lead + fill * size + (b"x" if fill == b" " else b"")
        for kind in ("file", "field"):
            hdr = b'Content-Disposition: form-data; name="u"; filename="big.bin"\r\n\r\n' if kind == "file" else \
                b'Content-Disposition: form-data; name="f"\r\n\r\n'
            body = b"--" + boundary + b"\r\n" + hdr + content + delim + b"--\r\n"
            chunks = [body[i:i + CH] for i in range(0, len(body), CH)]
            # event-level decoder
            d = MultipartDecoder(boundary, "utf8")
            worst = 0
            for c in chunks:
                d.receive_data(c)
                while True:
                    ev = d.next_event()
                    if isinstance(ev, (NeedData, Epilogue)):
                        break
                worst = max(worst, len(d.buffer))
            ctx.count()
            bound = CH + len(delim) + 8
            case = {"part": kind, "content": "%r + %d bytes without a line break" % (lead, size) if fill != b" " else "LF--boundary + megabytes of blanks + x",
                    "chunk": CH}
            if worst > bound:
                ctx.violation(dict(case, api="decoder"), "at most %d bytes held back" % bound, {"max_buffered": worst},
                              "decoder holds back %d bytes (bound %d): the part is buffered instead of streamed" % (worst, bound))
            else:
                ctx.nontriv(("hold", kind, lead))
            # helpers (sync and async): how far behind the input is the file sink / the field limit?
            for api in ("parse_stream", "parse_async_stream"):
                fed = [0]
                lag = [0]
                M.Sink.written = 0

                def after_chunk():
                    consumed_content = max(0, min(fed[0], len(body) - len(delim) - 4) - (len(boundary) + 4 + len(hdr)))
                    if kind == "file":
                        lag[0] = max(lag[0], consumed_content - M.Sink.written)

                def stream():
                    for c in chunks:
                        fed[0] += len(c)
                        yield c
                        after_chunk()

                async def astream():
                    for c in chunks:
                        fed[0] += len(c)
                        yield c
                        after_chunk()

                def call(**kw):
                    if api == "parse_stream":
                        return parse_stream(stream(), boundary, "utf8", file_factory=M.Sink, **kw)
                    from baize.multipart_helper import parse_async_stream
                    return servers.loop().run_until_complete(parse_async_stream(astream(), boundary, "utf8", file_factory=M.Sink, **kw))
                if kind == "file":
                    try:
                        call()
                    except BaseException as e:  # noqa
                        ctx.violation(dict(case, api=api), "ok", type(e).__name__, "helper raised on a large upload")
                    if lag[0] > bound:
                        ctx.violation(dict(case, api=api), "file sink at most %d bytes behind the input" % bound, {"lag": lag[0]},
                                      "upload is written to the file sink only after being buffered (%d bytes behind)" % lag[0])
                else:
                    limit = 100 * 1024
                    try:
                        call(max_form_memory_size=limit)
                        ctx.violation(dict(case, api=api, limit=limit), "413", "ok", "over-limit field accepted")
                    except HTTPException as e:
                        if e.status_code != 413:
                            ctx.violation(dict(case, api=api), 413, e.status_code, "wrong status for an over-limit field")
                        elif fed[0] > limit + 2 * CH + len(hdr) + 64:
                            ctx.violation(dict(case, api=api, limit=limit), "rejected once the limit is passed (about %d bytes in)" % limit,
                                          {"bytes_consumed_before_413": fed[0]},
                                          "over-limit field rejected only after %d bytes were read (limit %d)" % (fed[0], limit))
                    except BaseException as e:  # noqa
                        ctx.violation(dict(case, api=api), "413", type(e).__name__, "helper raised %s" % type(e).__name__)
            ctx.count()


def run(ctx):
    fs = forms()
    lims = limit_grid(fs)
    K = dict(Bnd=M.BND, Forms=frozenset(fs), Preambles=frozenset({()}), Epilogues=frozenset({("r", "n")}), MaxChunk=2 if ctx.tier == "quick" else 3,
             Limits=frozenset(lims), HoldFix=True, OpenFix=OPENFIX, PreFix=True)
    ctx.bounds = {"forms": len(fs), "limit_settings": len(lims), "MaxChunk": K["MaxChunk"]}
    ctx.rule = ("every (form, limits) scenario of Multipart.tla (limits at the exact totals -1/0/+1) on parse_stream and "
                "parse_async_stream under byte-level chunkings, 324/325 parts on the form accessors, megabyte parts with a leading "
                "CR/LF for buffering; non-trivial = scenarios whose limit is within 1 of the form's total, and the buffering runs")
    ctx.assumptions = ["limits of Request.form are class defaults (324 parts); other limits go through the helpers",
                       "part header blocks are not subject to the buffering bound (they are not part data)"]
    wd = tlc.workdir_for("c15")
    tlc.sany(wd + "/Multipart.tla")
    cfg = ["SPECIFICATION Spec", "CHECK_DEADLOCK FALSE"] + ["INVARIANT " + i for i in INV]
    tlc.write_mc(wd, "MC_MultipartLimits", "Multipart", constants=K, cfg_lines=cfg)
    res = tlc.run_tlc(wd, "MC_MultipartLimits", dump=True, heap="10g")
    ctx.add_tlc("Multipart(limits)", res, ctx.bounds)
    if res.violated:
        raise common.MachineryError("Multipart.tla: " + tlc.describe(res))
    tlc.check_coverage(res, ["Feed", "StepPreamble", "StepPart", "StepData", "StepEpilogue"])
    # witness: the original hold-back rule must break the buffering bound
    KW = dict(K, HoldFix=False, Limits=frozenset({M.Rec(parts=M.UNL, mem=M.UNL)}))
    tlc.write_mc(wd, "MC_MultipartOrig", "Multipart", constants=KW,
                 cfg_lines=["SPECIFICATION Spec", "CHECK_DEADLOCK FALSE", "INVARIANT BoundedHold"])
    wres = tlc.run_tlc(wd, "MC_MultipartOrig", coverage=False, heap="10g")
    if wres.violated != "BoundedHold":
        raise common.MachineryError("witness failed: HoldFix=FALSE does not violate BoundedHold (%s)" % wres.violated)
    ctx.notes.append("witness: original hold-back rule (HoldFix=FALSE) violates BoundedHold after %d states" % wres.distinct)
    KW2 = dict(K, OpenFix=False, Limits=frozenset({M.Rec(parts=M.UNL, mem=M.UNL)}))
    tlc.write_mc(wd, "MC_MultipartOrig2", "Multipart", constants=KW2,
                 cfg_lines=["SPECIFICATION Spec", "CHECK_DEADLOCK FALSE", "INVARIANT BoundedHold"])
    wres = tlc.run_tlc(wd, "MC_MultipartOrig2", coverage=False, heap="10g")
    if wres.violated != "BoundedHold":
        raise common.MachineryError("witness failed: OpenFix=FALSE does not violate BoundedHold (%s)" % wres.violated)
    ctx.notes.append("witness: original rule for 'delimiter text without delimiter line' (OpenFix=FALSE) violates BoundedHold after %d states" % wres.distinct)

    g = graph.Graph.load(res.dot)
    expected = {}
    for nid in g.terminal():
        st = g.state(nid)
        key = (st["form"], st["lim"])
        out = "413" if st["result"] == "413" else "ok"
        if expected.setdefault(key, out) != out:
            raise common.MachineryError("model outcome depends on the chunking for %r" % (key,))
    rnd = random.Random(ctx.seed)
    n = 0
    for (f, lim), want in sorted(expected.items(), key=repr):
        n += 1
        variant = n % 3      # single-byte concretisations only: the limits count bytes
        body = M.conc_seq(__import__("harness.adapters.c01", fromlist=["x"]).body_symbols(f, ()), variant)
        items_want = M.expected_items(f, variant)
        tot = sum(len(p["content"]) for p in f if p["kind"] == "field")
        near = abs(lim["parts"] - len(f)) <= 1 or abs(lim["mem"] - tot) <= 1
        for ci, ch in enumerate(M.chunkings(body, rnd, extra=2, max_splits=6 if ctx.tier == "quick" else 25)):
            for which in ("sync", "async"):
                out, items = M.run_helper(which, ch, M.boundary_bytes(), dict(lim))
                ctx.count()
                ctx.traces_validated += 1
                if out != want or (out == "ok" and items != items_want):
                    ctx.violation({"body": body.decode("latin-1"), "max_form_parts": lim["parts"], "max_form_memory_size": lim["mem"],
                                   "api": which, "chunks": [c.decode("latin-1") for c in ch]}, want, out,
                                  "%s: limit outcome %s, exact rule says %s" % (which, out, want))
        if near:
            ctx.nontriv((f, lim))
        if n in (7, 70):
            ctx.sample({"form": [dict(p) for p in f], "limits": dict(lim), "expected": want})
    # default limit of the form accessors: 324 parts pass, 325 do not
    for nparts, want in ((324, "ok"), (325, "413")):
        boundary = b"B"
        body = b"".join(b'--B\r\nContent-Disposition: form-data; name="f%d"\r\n\r\nv\r\n' % i for i in range(nparts)) + b"--B--\r\n"
        for which in ("wsgi", "asgi", "sync", "async"):
            out, items = M.run_helper(which, [body[:1000], body[1000:]], boundary)
            ctx.count()
            if out != want:
                ctx.violation({"parts": nparts, "api": which}, want, out, "default part limit: %d parts gave %s" % (nparts, out))
    measure_hold(ctx, rnd)
    # code -> spec: sessions with long parts fed in the helpers' way (drain after every chunk); the hold-back bound is checked per
    # session in Python and as invariant THold by TLC on every state of the recorded session (TraceMultipart.tla)
    from .. import mp_trace
    nlong = 8 if ctx.tier == "quick" else 60
    nev = mp_trace.long_sessions(ctx, wd, nlong, rnd, "C15", hold_only=True)
    ctx.bounds["long_sessions"] = {"per_boundary": nlong, "boundaries": len(mp_trace.BOUNDARIES), "events": nev, "part_bytes": "3000 / 12000"}
    ctx.notes.append("TraceMultipart: %d events of long-part decoder sessions validated with THold" % nev)


if __name__ == "__main__":
    sys.exit(common.main("C15", run))
